/-
  LDEval.Proofs.AuditLog — helper definitions and lemmas for the strengthened C19 statements
  (theorem audit #65/#66/#68).

  * `Spec.ownErr`: the stateless description of the error (if any) that the frame evaluating a flag
    detects ITSELF (as opposed to an error detected by a nested prerequisite frame).
  * `Cause env f e`: a purely static description, on the data, of a defect of flag `f` of the kind
    that error `e` names.
  * `ownErr_cause`: the former implies the latter.
  * `evalFlag_logs`: the log written by a frame is the lines of its nested frames followed by
    exactly the line of its own error.
-/
import LDEval.Proofs.StatusLog
import LDEval.Proofs.Refine

namespace LD

/-! ### The line(s) a frame writes for its own error -/

/-- What `logErr` appends for an optional error: one line if there is an error and a logger. -/
def ownLines (env : Env) (key : String) : Option EvalErr → List LogLine
  | some e => if env.opts.logger then [⟨key, e⟩] else []
  | none => []

theorem logErr_logs_own (env : Env) (key : String) (e : EvalErr) (st : St) :
    (logErr env key e st).logs = st.logs ++ ownLines env key (some e) := by
  unfold logErr ownLines
  split <;> simp

theorem ownLines_none (env : Env) (key : String) : ownLines env key none = [] := rfl

namespace Spec

/-- The error of `getVariation`. -/
def varErr (f : Flag) (i : Int) : Option EvalErr :=
  if i < 0 ∨ i ≥ f.variations.length then some (.badVariation i) else none

/-- The error of `getOffValue`. -/
def offErr (f : Flag) : Option EvalErr :=
  match f.offVariation with
  | none => none
  | some i => varErr f i

/-- The error of `getValueForVariationOrRollout`. -/
def vrErr (env : Env) (f : Flag) (vr : VariationOrRollout) : Option EvalErr :=
  match variationOrRollout env vr f.key f.salt with
  | .error e => some e
  | .ok (i, _) => varErr f i

/-- The error of the rule loop (first matching rule's selection, a rule-matching error, or the
fallthrough's selection). -/
def rulesErr (seg : SegRec) (env : Env) (f : Flag) : List FlagRule → Option EvalErr
  | [] => vrErr env f f.fallthrough
  | r :: rs =>
    match clausesMatch seg env [] r.clauses with
    | .err e => some e
    | .oof => none
    | .ok true => vrErr env f r.vr
    | .ok false => rulesErr seg env f rs

/-- The prerequisite cycle the loop of `checkPrerequisites` itself detects, if it gets that far. -/
def prereqCycle (rec : FlagRec) (env : Env) (chain : List String) : List Prereq → Option EvalErr
  | [] => none
  | p :: ps =>
    match env.store.findFlag p.key with
    | none => none
    | some pf =>
      if chain.contains pf.key then some (.circularPrereq pf.key)
      else
        match rec pf chain with
        | none => none
        | some (d, ok) =>
          if !ok then none
          else if pf.on && d.index.isSome && d.index == some p.variation then
            prereqCycle rec env chain ps
          else none

/-- The prerequisite cycle that `checkPrerequisites` of `f` itself detects. -/
def checkCycle (rec : FlagRec) (env : Env) (f : Flag) (chain : List String) : Option EvalErr :=
  if f.prerequisites.isEmpty then none
  else prereqCycle rec env (chain ++ [f.key]) f.prerequisites

/-- The error detected by the frame of `f` itself, stage by stage. -/
def ownErrBody (rec : FlagRec) (seg : SegRec) (env : Env) (f : Flag) (chain : List String) :
    Option EvalErr :=
  if !f.on then offErr f
  else
    match checkPrereqs rec env f chain with
    | .oof => none
    | .malformed => checkCycle rec env f chain
    | .failed _ => offErr f
    | .ok =>
      match anyTargetMatch env.ctx f with
      | some v => varErr f v
      | none => rulesErr seg env f f.rules

/-- The error (if any) that the evaluation of `f` detects in `f` itself: a bad off / target / rule /
fallthrough variation index, a rollout without variations, an invalid attribute reference in a
clause or a bucket-by, a malformed or circular segment reached from one of its rules, or a
prerequisite cycle closed by one of its own prerequisites.  An abort caused by a nested
prerequisite flag is NOT an own error. -/
def ownErr (sf : Nat) : Nat → Env → Flag → List String → Option EvalErr
  | 0, _, _, _ => none
  | n+1, env, f, chain => ownErrBody (evalFlag sf n env) (segContains sf env) env f chain

end Spec

/-! ### Static causes -/

/-- The variation index `i` does not exist in `f`. -/
def OutOfRange (f : Flag) (i : Int) : Prop := i < 0 ∨ i ≥ f.variations.length

mutual
/-- A defect of clause `c` (reached with segment chain `chain`) of the kind error `e` names. -/
inductive ClauseCause (env : Env) : List String → Clause → EvalErr → Prop
  | emptyAttr {chain c} : (c.op == "segmentMatch") = false → c.attr.isDefined = false →
      ClauseCause env chain c .emptyAttr
  | badAttr {chain c} : (c.op == "segmentMatch") = false → c.attr.errOf.isSome = true →
      ClauseCause env chain c (.badAttrRef c.attr.raw)
  | segment {chain c k s e} : (c.op == "segmentMatch") = true → J.str k ∈ c.values →
      env.store.findSegment k = some s → SegCause env chain s e → ClauseCause env chain c e
/-- A defect of segment `s`, reached along the chain of segment keys `chain`. -/
inductive SegCause (env : Env) : List String → Segment → EvalErr → Prop
  | cycle {chain s} : s.key ∈ chain → SegCause env chain s (.circularSegment s.key)
  | clause {chain s r c e} : r ∈ s.rules → c ∈ r.clauses →
      ClauseCause env (chain ++ [s.key]) c e → SegCause env chain s (.malformedSegment s.key e)
  | bucketBy {chain s r} : r ∈ s.rules → r.weight.isSome = true → r.bucketBy.isDefined = true →
      r.bucketBy.errOf.isSome = true →
      SegCause env chain s (.malformedSegment s.key (.badAttrRef r.bucketBy.raw))
end

/-- A defect of the variation-or-rollout `vr` of flag `f`. -/
inductive VRCause (f : Flag) (vr : VariationOrRollout) : EvalErr → Prop
  | variation {i} : vr.variation = some i → OutOfRange f i → VRCause f vr (.badVariation i)
  | rolloutVariation {wv} : vr.variation = none → wv ∈ vr.rollout.variations →
      OutOfRange f wv.variation → VRCause f vr (.badVariation wv.variation)
  | emptyRollout : vr.variation = none → vr.rollout.variations = [] → VRCause f vr .emptyRollout
  | bucketBy : vr.variation = none → vr.rollout.isExperiment = false →
      vr.rollout.bucketBy.isDefined = true → vr.rollout.bucketBy.errOf.isSome = true →
      VRCause f vr (.badAttrRef vr.rollout.bucketBy.raw)

/-- **A defect of flag `f` (in store `env.store`) of the kind error `e` names** — stated on the data
alone: which field holds what. -/
inductive Cause (env : Env) (f : Flag) : EvalErr → Prop
  | offVariation {i} : f.offVariation = some i → OutOfRange f i → Cause env f (.badVariation i)
  | target {t} : (t ∈ f.targets ∨ t ∈ f.contextTargets) → OutOfRange f t.variation →
      Cause env f (.badVariation t.variation)
  | fallthrough {e} : VRCause f f.fallthrough e → Cause env f e
  | rule {r e} : r ∈ f.rules → VRCause f r.vr e → Cause env f e
  | clause {r c e} : r ∈ f.rules → c ∈ r.clauses → ClauseCause env [] c e → Cause env f e
  | prereqCycle {p pf} : p ∈ f.prerequisites → env.store.findFlag p.key = some pf →
      Cause env f (.circularPrereq pf.key)

/-! ### `ownErr` implies `Cause` (stateless) -/

theorem Spec.varErr_some {f : Flag} {i : Int} {e : EvalErr} (h : Spec.varErr f i = some e) :
    e = .badVariation i ∧ OutOfRange f i := by
  unfold Spec.varErr at h
  split at h
  · rename_i hr; cases h; exact ⟨rfl, hr⟩
  · cases h

theorem rolloutScan_mem {bucket : Rat} {isExp lk : Bool} :
    ∀ {wvs : List WeightedVariation} {sum : Rat} {i : Int} {x : Bool},
      rolloutScan bucket isExp lk wvs sum = some (i, x) → ∃ wv ∈ wvs, wv.variation = i := by
  intro wvs
  induction wvs with
  | nil => intro sum i x h; simp [rolloutScan] at h
  | cons wv rest ih =>
    intro sum i x h
    unfold rolloutScan at h
    simp only at h
    split at h
    · simp only [Option.some.injEq, Prod.mk.injEq] at h
      exact ⟨wv, by simp, h.1⟩
    · obtain ⟨w, hw, he⟩ := ih h
      exact ⟨w, by simp [hw], he⟩

theorem computeBucket_err_cond {sec ctx isExp seed ck key attr salt} {e : EvalErr}
    (h : computeBucket sec ctx isExp seed ck key attr salt = .error e) :
    e = .badAttrRef attr.raw ∧ isExp = false ∧ attr.isDefined = true ∧ attr.errOf.isSome = true := by
  have he := computeBucket_err h
  refine ⟨he, ?_⟩
  unfold computeBucket at h
  split at h
  · rename_i e' hb
    unfold bucketInput at hb
    simp only at hb
    split at hb
    · rename_i hc
      simp only [Bool.and_eq_true, Bool.not_eq_true', Bool.or_eq_false_iff,
        Bool.not_eq_false'] at hc
      exact ⟨hc.1.1, hc.1.2, hc.2⟩
    · exfalso
      split at hb
      · cases hb
      · split at hb
        · cases hb
        · split at hb
          · split at hb <;> cases hb
          · cases hb
  · cases h
  · cases h

theorem variationOrRollout_ok_cases {env : Env} {vr : VariationOrRollout} {key salt : String}
    {i : Int} {x : Bool} (h : variationOrRollout env vr key salt = .ok (i, x)) :
    vr.variation = some i ∨
      (vr.variation = none ∧ ∃ wv ∈ vr.rollout.variations, wv.variation = i) := by
  unfold variationOrRollout at h
  split at h
  · rename_i v hv
    simp only [Except.ok.injEq, Prod.mk.injEq] at h
    left; rw [hv, h.1]
  · rename_i hv
    right
    refine ⟨hv, ?_⟩
    split at h
    · cases h
    · rename_i last hlast
      simp only at h
      split at h
      · cases h
      · split at h
        · rename_i r hr
          simp only [Except.ok.injEq] at h
          subst h
          exact rolloutScan_mem hr
        · simp only [Except.ok.injEq, Prod.mk.injEq] at h
          exact ⟨last, List.mem_of_getLast? hlast, h.1⟩

theorem variationOrRollout_err_cases {env : Env} {vr : VariationOrRollout} {key salt : String}
    {e : EvalErr} (h : variationOrRollout env vr key salt = .error e) :
    vr.variation = none ∧
      ((vr.rollout.variations = [] ∧ e = .emptyRollout) ∨
        (e = .badAttrRef vr.rollout.bucketBy.raw ∧ vr.rollout.isExperiment = false ∧
          vr.rollout.bucketBy.isDefined = true ∧ vr.rollout.bucketBy.errOf.isSome = true)) := by
  unfold variationOrRollout at h
  split at h
  · cases h
  · rename_i hv
    refine ⟨hv, ?_⟩
    split at h
    · rename_i hlast
      left
      cases h
      exact ⟨List.getLast?_eq_none_iff.mp hlast, rfl⟩
    · simp only at h
      split at h
      · rename_i e' hb
        right
        cases h
        exact computeBucket_err_cond hb
      · split at h <;> cases h

theorem Spec.vrErr_cause {env : Env} {f : Flag} {vr : VariationOrRollout} {e : EvalErr}
    (h : Spec.vrErr env f vr = some e) : VRCause f vr e := by
  unfold Spec.vrErr at h
  split at h
  · rename_i e' he
    cases h
    obtain ⟨hv, hc⟩ := variationOrRollout_err_cases he
    rcases hc with ⟨h1, rfl⟩ | ⟨rfl, h2, h3, h4⟩
    · exact .emptyRollout hv h1
    · exact .bucketBy hv h2 h3 h4
  · rename_i i x hok
    obtain ⟨rfl, hr⟩ := Spec.varErr_some h
    rcases variationOrRollout_ok_cases hok with hv | ⟨hv, wv, hw, rfl⟩
    · exact .variation hv hr
    · exact .rolloutVariation hv hw hr

theorem targetMatch_some {ctx : Ctx} {t : Target} {v : Int} (h : targetMatch ctx t = some v) :
    t.variation = v := by
  unfold targetMatch at h
  split at h
  · split at h
    · exact Option.some.inj h
    · cases h
  · cases h

theorem anyTargetMatch_mem {ctx : Ctx} {f : Flag} {v : Int} (h : anyTargetMatch ctx f = some v) :
    ∃ t, (t ∈ f.targets ∨ t ∈ f.contextTargets) ∧ t.variation = v := by
  unfold anyTargetMatch at h
  split at h
  · obtain ⟨t, ht, hm⟩ := List.exists_of_findSome?_eq_some h
    exact ⟨t, .inl ht, targetMatch_some hm⟩
  · obtain ⟨t, ht, hm⟩ := List.exists_of_findSome?_eq_some h
    split at hm
    · split at hm
      · rename_i t1 hfind
        have h1 : t1.variation = t.variation := by
          have := List.find?_some hfind
          simpa using this
        exact ⟨t, .inr ht, by rw [← h1]; exact targetMatch_some hm⟩
      · cases hm
    · exact ⟨t, .inr ht, targetMatch_some hm⟩

/-! #### Segments and clauses -/

theorem Spec.segMatchValues_cause {rec : Spec.SegRec} {env : Env} {negate : Bool}
    {chain : List String}
    (hrec : ∀ seg e, rec seg chain = .err e → SegCause env chain seg e) :
    ∀ {vs : List J} {e : EvalErr}, Spec.segMatchValues rec env negate chain vs = .err e →
      ∃ k s, J.str k ∈ vs ∧ env.store.findSegment k = some s ∧ SegCause env chain s e := by
  intro vs
  induction vs with
  | nil => intro e h; simp [Spec.segMatchValues] at h
  | cons v vs ih =>
    intro e h
    have lift : (∃ k s, J.str k ∈ vs ∧ env.store.findSegment k = some s ∧ SegCause env chain s e) →
        ∃ k s, J.str k ∈ v :: vs ∧ env.store.findSegment k = some s ∧ SegCause env chain s e := by
      rintro ⟨k, s, h1, h2, h3⟩
      exact ⟨k, s, List.mem_cons_of_mem _ h1, h2, h3⟩
    cases v with
    | str k =>
      unfold Spec.segMatchValues at h
      split at h
      · exact lift (ih h)
      · rename_i seg hfind
        split at h
        · cases h
        · exact lift (ih h)
        · rename_i e1 heq
          cases h
          exact ⟨k, seg, by simp, hfind, hrec _ _ heq⟩
        · cases h
    | null => unfold Spec.segMatchValues at h; exact lift (ih h)
    | bool b => unfold Spec.segMatchValues at h; exact lift (ih h)
    | num q => unfold Spec.segMatchValues at h; exact lift (ih h)
    | arr xs => unfold Spec.segMatchValues at h; exact lift (ih h)
    | obj kvs => unfold Spec.segMatchValues at h; exact lift (ih h)
    | raw w => unfold Spec.segMatchValues at h; exact lift (ih h)

theorem clauseMatchNoSeg_err_cases {rx ctx c} {e : EvalErr}
    (h : clauseMatchNoSeg rx ctx c = .error e) :
    (c.attr.isDefined = false ∧ e = .emptyAttr) ∨
      (c.attr.errOf.isSome = true ∧ e = .badAttrRef c.attr.raw) := by
  unfold clauseMatchNoSeg at h
  split at h
  · rename_i h1; cases h; left; exact ⟨by simpa using h1, rfl⟩
  · split at h
    · rename_i h2; cases h; right; exact ⟨h2, rfl⟩
    · split at h
      · cases h
      · split at h
        · cases h
        · split at h
          · cases h
          · cases h
          · split at h <;> cases h

theorem Spec.clauseMatch_cause {rec : Spec.SegRec} {env : Env} {chain : List String}
    (hrec : ∀ seg e, rec seg chain = .err e → SegCause env chain seg e) {c : Clause} {e : EvalErr}
    (h : Spec.clauseMatch rec env chain c = .err e) : ClauseCause env chain c e := by
  unfold Spec.clauseMatch at h
  split at h
  · rename_i hop
    obtain ⟨k, s, h1, h2, h3⟩ := Spec.segMatchValues_cause hrec h
    exact .segment hop h1 h2 h3
  · rename_i hop
    have hop' : (c.op == "segmentMatch") = false := by simpa using hop
    generalize hx : clauseMatchNoSeg env.rx env.ctx c = x at h
    cases x with
    | ok b => simp [Res.ofExcept] at h
    | error e' =>
      simp only [Res.ofExcept, Res.err.injEq] at h
      subst h
      rcases clauseMatchNoSeg_err_cases hx with ⟨h1, rfl⟩ | ⟨h1, rfl⟩
      · exact .emptyAttr hop' h1
      · exact .badAttr hop' h1

theorem Spec.clausesMatch_cause {rec : Spec.SegRec} {env : Env} {chain : List String}
    (hrec : ∀ seg e, rec seg chain = .err e → SegCause env chain seg e) :
    ∀ {cs : List Clause} {e : EvalErr}, Spec.clausesMatch rec env chain cs = .err e →
      ∃ c ∈ cs, ClauseCause env chain c e := by
  intro cs
  induction cs with
  | nil => intro e h; simp [Spec.clausesMatch] at h
  | cons c cs ih =>
    intro e h
    unfold Spec.clausesMatch at h
    split at h
    · obtain ⟨c', hc', hcc⟩ := ih h
      exact ⟨c', by simp [hc'], hcc⟩
    · exact ⟨c, by simp, Spec.clauseMatch_cause hrec h⟩

theorem Spec.segRuleMatch_cause {rec : Spec.SegRec} {env : Env} {chain : List String}
    (hrec : ∀ seg e, rec seg chain = .err e → SegCause env chain seg e) {key salt : String}
    {r : SegmentRule} {e : EvalErr} (h : Spec.segRuleMatch rec env chain key salt r = .err e) :
    (∃ c ∈ r.clauses, ClauseCause env chain c e) ∨
      (r.weight.isSome = true ∧ r.bucketBy.isDefined = true ∧ r.bucketBy.errOf.isSome = true ∧
        e = .badAttrRef r.bucketBy.raw) := by
  unfold Spec.segRuleMatch at h
  split at h
  · split at h
    · cases h
    · rename_i w hw
      split at h
      · rename_i e' hb
        cases h
        obtain ⟨h1, _, h3, h4⟩ := computeBucket_err_cond hb
        right; exact ⟨by rw [hw]; rfl, h3, h4, h1⟩
      · split at h <;> cases h
  · cases h
  · rename_i r' _ _
    left
    exact Spec.clausesMatch_cause hrec h

theorem Spec.segRules_cause {rec : Spec.SegRec} {env : Env} {chain : List String}
    (hrec : ∀ seg e, rec seg chain = .err e → SegCause env chain seg e) {s : Segment} :
    ∀ {rs : List SegmentRule} {e : EvalErr}, Spec.segRules rec env chain s rs = .err e →
      ∃ r ∈ rs, ∃ e', e = .malformedSegment s.key e' ∧
        ((∃ c ∈ r.clauses, ClauseCause env chain c e') ∨
          (r.weight.isSome = true ∧ r.bucketBy.isDefined = true ∧ r.bucketBy.errOf.isSome = true ∧
            e' = .badAttrRef r.bucketBy.raw)) := by
  intro rs
  induction rs with
  | nil => intro e h; simp [Spec.segRules] at h
  | cons r rs ih =>
    intro e h
    unfold Spec.segRules at h
    split at h
    · cases h
    · obtain ⟨r', hr', x⟩ := ih h
      exact ⟨r', by simp [hr'], x⟩
    · rename_i e1 heq
      cases h
      exact ⟨r, by simp, e1, rfl, Spec.segRuleMatch_cause hrec heq⟩
    · cases h

theorem Spec.segBody_cause {rec : Spec.SegRec} {env : Env}
    (hrec : ∀ chain seg e, rec seg chain = .err e → SegCause env chain seg e) {s : Segment}
    {chain : List String} {e : EvalErr} (h : Spec.segBody rec env s chain = .err e) :
    SegCause env chain s e := by
  have key : ∀ {e}, Spec.segRules rec env (chain ++ [s.key]) s s.rules = .err e →
      SegCause env chain s e := by
    intro e h
    obtain ⟨r, hr, e', rfl, hc⟩ := Spec.segRules_cause (hrec (chain ++ [s.key])) h
    rcases hc with ⟨c, hc, hcc⟩ | ⟨h1, h2, h3, rfl⟩
    · exact .clause hr hc hcc
    · exact .bucketBy hr h1 h2 h3
  unfold Spec.segBody at h
  split at h
  · rename_i hc
    cases h
    exact .cycle (by simpa using hc)
  · simp only at h
    split at h
    · split at h
      · cases h
      · split at h
        · cases h
        · split at h
          · exact key h
          · split at h
            · cases h
            · exact key h
    · split at h
      · cases h
      · exact key h

theorem Spec.segContains_cause (env : Env) (n : Nat) :
    ∀ chain seg e, Spec.segContains n env seg chain = .err e → SegCause env chain seg e := by
  induction n with
  | zero => intro chain seg e h; simp [Spec.segContains] at h
  | succ n ih => intro chain seg e h; exact Spec.segBody_cause ih h

theorem Spec.rulesErr_cause {seg : Spec.SegRec} {env : Env} {f : Flag}
    (hseg : ∀ s e, seg s [] = .err e → SegCause env [] s e) :
    ∀ {rs : List FlagRule} {e : EvalErr}, Spec.rulesErr seg env f rs = some e →
      (∃ r ∈ rs, ∃ c ∈ r.clauses, ClauseCause env [] c e) ∨ (∃ r ∈ rs, VRCause f r.vr e) ∨
        VRCause f f.fallthrough e := by
  intro rs
  induction rs with
  | nil => intro e h; exact .inr (.inr (Spec.vrErr_cause h))
  | cons r rs ih =>
    intro e h
    unfold Spec.rulesErr at h
    split at h
    · rename_i e1 heq
      cases h
      obtain ⟨c, hc, hcc⟩ := Spec.clausesMatch_cause hseg heq
      exact .inl ⟨r, by simp, c, hc, hcc⟩
    · cases h
    · exact .inr (.inl ⟨r, by simp, Spec.vrErr_cause h⟩)
    · rcases ih h with ⟨r', hr', x⟩ | ⟨r', hr', x⟩ | x
      · exact .inl ⟨r', by simp [hr'], x⟩
      · exact .inr (.inl ⟨r', by simp [hr'], x⟩)
      · exact .inr (.inr x)

theorem Spec.prereqCycle_cause {rec : Spec.FlagRec} {env : Env} {chain : List String} :
    ∀ {ps : List Prereq} {e : EvalErr}, Spec.prereqCycle rec env chain ps = some e →
      ∃ p ∈ ps, ∃ pf, env.store.findFlag p.key = some pf ∧ pf.key ∈ chain ∧
        e = .circularPrereq pf.key := by
  intro ps
  induction ps with
  | nil => intro e h; simp [Spec.prereqCycle] at h
  | cons p ps ih =>
    intro e h
    unfold Spec.prereqCycle at h
    split at h
    · cases h
    · rename_i pf hfind
      split at h
      · rename_i hc
        cases h
        exact ⟨p, by simp, pf, hfind, by simpa using hc, rfl⟩
      · split at h
        · cases h
        · split at h
          · cases h
          · split at h
            · obtain ⟨p', hp', x⟩ := ih h
              exact ⟨p', by simp [hp'], x⟩
            · cases h

/-- A cycle detected by the loop means the loop's outcome is `malformed`. -/
theorem Spec.prereqCycle_malformed {rec : Spec.FlagRec} {env : Env} {chain : List String} :
    ∀ {ps : List Prereq} {e : EvalErr}, Spec.prereqCycle rec env chain ps = some e →
      Spec.prereqLoop rec env chain ps = .malformed := by
  intro ps
  induction ps with
  | nil => intro e h; simp [Spec.prereqCycle] at h
  | cons p ps ih =>
    intro e h
    unfold Spec.prereqCycle at h
    unfold Spec.prereqLoop
    split at h
    · cases h
    · rename_i pf hfind
      simp only [hfind]
      split at h
      · rename_i hc; rw [if_pos hc]
      · rename_i hc
        rw [if_neg hc]
        split at h
        · cases h
        · rename_i d ok heq
          simp only [heq]
          split at h
          · cases h
          · rename_i hok
            rw [if_neg hok]
            split at h
            · rename_i hp
              rw [if_pos hp]
              exact ih h
            · cases h

theorem Spec.checkCycle_malformed {rec : Spec.FlagRec} {env : Env} {f : Flag} {chain : List String}
    {e : EvalErr} (h : Spec.checkCycle rec env f chain = some e) :
    Spec.checkPrereqs rec env f chain = .malformed := by
  unfold Spec.checkCycle at h
  unfold Spec.checkPrereqs
  split at h
  · cases h
  · rename_i hne
    rw [if_neg hne]
    exact Spec.prereqCycle_malformed h

/-- **The own error of a frame is a real defect of the flag, of the kind the error names.** -/
theorem Spec.ownErrBody_cause {rec : Spec.FlagRec} {seg : Spec.SegRec} {env : Env}
    (hseg : ∀ s e, seg s [] = .err e → SegCause env [] s e) {f : Flag} {chain : List String}
    {e : EvalErr} (h : Spec.ownErrBody rec seg env f chain = some e) : Cause env f e := by
  have hoff : ∀ {e}, Spec.offErr f = some e → Cause env f e := by
    intro e h
    unfold Spec.offErr at h
    split at h
    · cases h
    · rename_i i hi
      obtain ⟨rfl, hr⟩ := Spec.varErr_some h
      exact .offVariation hi hr
  unfold Spec.ownErrBody at h
  split at h
  · exact hoff h
  · split at h
    · cases h
    · unfold Spec.checkCycle at h
      split at h
      · cases h
      · obtain ⟨p, hp, pf, hfind, _, rfl⟩ := Spec.prereqCycle_cause h
        exact .prereqCycle hp hfind
    · exact hoff h
    · split at h
      · rename_i v hv
        obtain ⟨rfl, hr⟩ := Spec.varErr_some h
        obtain ⟨t, ht, rfl⟩ := anyTargetMatch_mem hv
        exact .target ht hr
      · rcases Spec.rulesErr_cause hseg h with ⟨r, hr, c, hc, x⟩ | ⟨r, hr, x⟩ | x
        · exact .clause hr hc x
        · exact .rule hr x
        · exact .fallthrough x

theorem Spec.ownErr_cause {sf n : Nat} {env : Env} {f : Flag} {chain : List String} {e : EvalErr}
    (h : Spec.ownErr sf n env f chain = some e) : Cause env f e := by
  cases n with
  | zero => simp [Spec.ownErr] at h
  | succ n => exact Spec.ownErrBody_cause (Spec.segContains_cause env sf []) h

/-! ### The log written by a frame -/

/-- The line names (by its own key) a flag held by the store and a real defect of that flag, of the
kind the line's error names. -/
def LineCause (env : Env) (l : LogLine) : Prop :=
  ∃ g, (∃ k, env.store.findFlag k = some g) ∧ l.flagKey = g.key ∧ Cause env g l.err

theorem mem_ownLines {env : Env} {key : String} {o : Option EvalErr} {l : LogLine}
    (h : l ∈ ownLines env key o) : env.opts.logger = true ∧ ∃ e, o = some e ∧ l = ⟨key, e⟩ := by
  cases o with
  | none => rw [ownLines_none] at h; cases h
  | some e =>
    have : ownLines env key (some e) = if env.opts.logger then [⟨key, e⟩] else [] := rfl
    rw [this] at h
    split at h
    · rename_i hl
      exact ⟨hl, e, rfl, List.mem_singleton.mp h⟩
    · cases h

theorem getVariation_logs (env : Env) (f : Flag) (i : Int) (r : Reason) (st : St) :
    (getVariation env f i r st).2.logs = st.logs ++ ownLines env f.key (Spec.varErr f i) := by
  unfold getVariation Spec.varErr
  split
  · exact logErr_logs_own ..
  · simp [ownLines]

theorem getOffValue_logs (env : Env) (f : Flag) (r : Reason) (st : St) :
    (getOffValue env f r st).2.logs = st.logs ++ ownLines env f.key (Spec.offErr f) := by
  unfold getOffValue Spec.offErr
  cases f.offVariation with
  | none => simp [ownLines]
  | some i => exact getVariation_logs ..

theorem getValueForVR_logs (env : Env) (f : Flag) (vr : VariationOrRollout) (r : Reason) (st : St) :
    (getValueForVR env f vr r st).2.logs = st.logs ++ ownLines env f.key (Spec.vrErr env f vr) := by
  unfold getValueForVR Spec.vrErr
  cases variationOrRollout env vr f.key f.salt with
  | error e => exact logErr_logs_own ..
  | ok ie => obtain ⟨i, x⟩ := ie; exact getVariation_logs ..

theorem rulesLoop_logs {sf : Nat} {env : Env} {f : Flag} :
    ∀ rs i st, Consistent env st →
      (rulesLoop (segContains sf env) env f rs i st).2.logs =
        st.logs ++ ownLines env f.key (Spec.rulesErr (Spec.segContains sf env) env f rs) := by
  intro rs
  induction rs with
  | nil =>
    intro i st _
    simp only [rulesLoop, Spec.rulesErr]
    exact getValueForVR_logs ..
  | cons r rs ih =>
    intro i st h
    simp only [rulesLoop, Spec.rulesErr]
    obtain ⟨h1, h2⟩ := clausesMatch_refines (segContains_refines sf env) [] r.clauses st h
    have hl := (star_sprim_frame (clausesMatch_sreach (segContains_sreach sf env) [] r.clauses st)).1
    generalize clausesMatch (segContains sf env) env [] r.clauses st = q at h1 h2 hl ⊢
    obtain ⟨res, st1⟩ := q
    simp only at h1 h2 hl
    rw [← h1]; clear h1
    cases res with
    | ok b => cases b with
      | true =>
        simp only []
        rw [← hl]
        exact getValueForVR_logs ..
      | false =>
        simp only []
        rw [← hl]
        exact ih _ _ h2
    | err e =>
      simp only []
      rw [← hl]
      exact logErr_logs_own ..
    | oof => simp only [ownLines_none, List.append_nil]; exact hl

/-- What the frame lemmas assume about the open prerequisite recursion: the frame of `pf` writes
the lines of ITS nested frames (none of them under a key on the chain or under `pf`'s key, each
naming a real defect) followed by the line of its own error `recE pf chain`. -/
def RecLogs (env : Env) (rec : FlagRec) (recE : Flag → List String → Option EvalErr) : Prop :=
  ∀ pf chain st, Consistent env st →
    ∃ nested, (rec pf chain st).2.logs = st.logs ++ nested ++ ownLines env pf.key (recE pf chain) ∧
      ∀ l ∈ nested, l.flagKey ∉ chain ++ [pf.key] ∧ LineCause env l

theorem prereqLoop_logs {env : Env} {rec : FlagRec} {recS : Spec.FlagRec}
    {recE : Flag → List String → Option EvalErr}
    (hrec : FlagRefines env rec recS) (hlog : RecLogs env rec recE)
    (hcause : ∀ pf chain e, recE pf chain = some e → Cause env pf e) (f : Flag)
    (chain : List String) :
    ∀ ps st, Consistent env st →
      ∃ nested, (prereqLoop rec env f chain ps st).2.logs =
          st.logs ++ nested ++ ownLines env f.key (Spec.prereqCycle recS env chain ps) ∧
        ∀ l ∈ nested, l.flagKey ∉ chain ∧ LineCause env l := by
  intro ps
  induction ps with
  | nil => intro st _; exact ⟨[], by simp [prereqLoop, Spec.prereqCycle, ownLines], by simp⟩
  | cons p ps ih =>
    intro st h
    simp only [prereqLoop, Spec.prereqCycle]
    have hc1 : Consistent env { st with flagLookups := st.flagLookups ++ [p.key] } :=
      h.of_cache_eq rfl
    cases hfind : env.store.findFlag p.key with
    | none => exact ⟨[], by simp [ownLines], by simp⟩
    | some pf =>
      simp only []
      split
      · refine ⟨[], ?_, by simp⟩
        rw [logErr_logs_own]; simp
      · rename_i hnc
        obtain ⟨h1, h2⟩ := hrec pf chain _ hc1
        obtain ⟨n1, hl1, hn1⟩ := hlog pf chain _ hc1
        -- every line of the nested frame is outside the chain and names a real defect
        have hall : ∀ l ∈ n1 ++ ownLines env pf.key (recE pf chain),
            l.flagKey ∉ chain ∧ LineCause env l := by
          intro l hl
          rcases List.mem_append.mp hl with hl | hl
          · obtain ⟨ha, hb⟩ := hn1 l hl
            exact ⟨fun hc => ha (List.mem_append_left _ hc), hb⟩
          · obtain ⟨_, e, he, rfl⟩ := mem_ownLines hl
            refine ⟨?_, pf, ⟨p.key, hfind⟩, rfl, hcause pf chain e he⟩
            intro hc
            exact hnc (by simpa using hc)
        generalize rec pf chain _ = q at h1 h2 hl1 ⊢
        obtain ⟨res, st2⟩ := q
        simp only at h1 h2 hl1
        rw [← h1]; clear h1
        cases res with
        | oof =>
          refine ⟨n1 ++ ownLines env pf.key (recE pf chain), ?_, hall⟩
          simp only [FlagOut.toSpec, ownLines_none, List.append_nil]
          rw [hl1, List.append_assoc]
        | done d ok =>
          simp only [FlagOut.toSpec]
          cases ok with
          | false =>
            refine ⟨n1 ++ ownLines env pf.key (recE pf chain), ?_, hall⟩
            simp only [Bool.not_false, if_true, ownLines_none, List.append_nil]
            rw [hl1, List.append_assoc]
          | true =>
            have key : ∀ st4 : St, st4.cache = st2.cache → st4.logs = st2.logs →
                ∃ nested, (prereqLoop rec env f chain ps st4).2.logs =
                    st.logs ++ nested ++ ownLines env f.key (Spec.prereqCycle recS env chain ps) ∧
                  ∀ l ∈ nested, l.flagKey ∉ chain ∧ LineCause env l := by
              intro st4 hc hlg
              obtain ⟨n2, hl2, hn2⟩ := ih st4 (h2.of_cache_eq hc)
              refine ⟨n1 ++ ownLines env pf.key (recE pf chain) ++ n2, ?_, ?_⟩
              · rw [hl2, hlg]
                simp only [hl1, List.append_assoc]
              · intro l hl
                rcases List.mem_append.mp hl with hl | hl
                · exact hall l hl
                · exact hn2 l hl
            generalize (pf.on && d.index.isSome && d.index == some p.variation) = pok
            cases hrcd : env.opts.recorder <;> cases pok <;>
              simp only [Bool.not_true, Bool.not_false, Bool.false_eq_true, if_false, if_true]
            all_goals first
              | exact key _ rfl rfl
              | (refine ⟨n1 ++ ownLines env pf.key (recE pf chain), ?_, hall⟩
                 simp only [ownLines_none, List.append_nil]
                 rw [hl1, List.append_assoc])

/-- The part of the log `checkPrerequisites` is responsible for. -/
theorem checkPrereqs_logs {env : Env} {rec : FlagRec} {recS : Spec.FlagRec}
    {recE : Flag → List String → Option EvalErr}
    (hrec : FlagRefines env rec recS) (hlog : RecLogs env rec recE)
    (hcause : ∀ pf chain e, recE pf chain = some e → Cause env pf e) (f : Flag)
    (chain : List String) (st : St) (h : Consistent env st) :
    ∃ nested, (checkPrereqs rec env f chain st).2.logs =
        st.logs ++ nested ++ ownLines env f.key (Spec.checkCycle recS env f chain) ∧
      ∀ l ∈ nested, l.flagKey ∉ chain ++ [f.key] ∧ LineCause env l := by
  unfold checkPrereqs Spec.checkCycle
  split
  · exact ⟨[], by simp [ownLines], by simp⟩
  · exact prereqLoop_logs hrec hlog hcause f _ _ st h

theorem evalBody_logs {env : Env} {rec : FlagRec} {recS : Spec.FlagRec}
    {recE : Flag → List String → Option EvalErr} {sf : Nat}
    (hrec : FlagRefines env rec recS) (hlog : RecLogs env rec recE)
    (hcause : ∀ pf chain e, recE pf chain = some e → Cause env pf e) (f : Flag)
    (chain : List String) (st : St) (h : Consistent env st) :
    ∃ nested, (evalBody rec (segContains sf env) env f chain st).2.logs =
        st.logs ++ nested ++
          ownLines env f.key (Spec.ownErrBody recS (Spec.segContains sf env) env f chain) ∧
      ∀ l ∈ nested, l.flagKey ∉ chain ++ [f.key] ∧ LineCause env l := by
  unfold evalBody Spec.ownErrBody
  split
  · refine ⟨[], ?_, by simp⟩
    simp only [List.append_nil]
    exact getOffValue_logs ..
  · obtain ⟨h1, h2⟩ := checkPrereqs_refines hrec f chain st h
    obtain ⟨nested, hl, hn⟩ := checkPrereqs_logs hrec hlog hcause f chain st h
    have hcyc : ∀ e, Spec.checkCycle recS env f chain = some e →
        Spec.checkPrereqs recS env f chain = .malformed := fun e he => Spec.checkCycle_malformed he
    generalize checkPrereqs rec env f chain st = q at h1 h2 hl ⊢
    obtain ⟨res, st1⟩ := q
    simp only at h1 h2 hl
    rw [← h1] at hcyc ⊢
    clear h1
    refine ⟨nested, ?_, hn⟩
    have hnone : res.toSpec ≠ .malformed → Spec.checkCycle recS env f chain = none := by
      intro hne
      cases hc : Spec.checkCycle recS env f chain with
      | none => rfl
      | some e => exact (hne (hcyc e hc)).elim
    cases res with
    | oof =>
      simp only [PrereqOut.toSpec, ownLines_none, List.append_nil]
      rw [hl, hnone (by simp [PrereqOut.toSpec]), ownLines_none, List.append_nil]
    | malformed =>
      simp only [PrereqOut.toSpec]
      exact hl
    | failed k =>
      simp only [PrereqOut.toSpec]
      rw [hnone (by simp [PrereqOut.toSpec]), ownLines_none, List.append_nil] at hl
      rw [← hl]
      exact getOffValue_logs ..
    | ok =>
      simp only [PrereqOut.toSpec]
      rw [hnone (by simp [PrereqOut.toSpec]), ownLines_none, List.append_nil] at hl
      rw [← hl]
      cases anyTargetMatch env.ctx f with
      | some v => exact getVariation_logs ..
      | none => exact rulesLoop_logs _ _ st1 h2

/-- **The log of a frame.**  From a state whose cache is consistent with the provider, the frame
evaluating `f` appends: the lines written by its nested prerequisite frames — none of them under
`f`'s key or under a key of the chain, each naming a stored flag and a real defect of that flag —
followed by exactly the line of its own error (`Spec.ownErr`), if it has one and a logger is
configured. -/
theorem evalFlag_logs (sf : Nat) (env : Env) :
    ∀ n, RecLogs env (evalFlag sf n env) (Spec.ownErr sf n env) := by
  intro n
  induction n with
  | zero => intro f chain st _; exact ⟨[], by simp [evalFlag, Spec.ownErr, ownLines], by simp⟩
  | succ n ih =>
    intro f chain st h
    exact evalBody_logs (evalFlag_refines sf n env) ih
      (fun pf chain e he => Spec.ownErr_cause he) f chain st h

/-! ### An own error makes the result MALFORMED_FLAG (stateless) -/

theorem ClauseCause.kind_nil {env : Env} {c : Clause} {e : EvalErr} (h : ClauseCause env [] c e) :
    e.kind = .malformedFlag := by
  cases h with
  | emptyAttr => rfl
  | badAttr => rfl
  | segment _ _ _ hs =>
    cases hs with
    | cycle hm => cases hm
    | clause => rfl
    | bucketBy => rfl

theorem VRCause.kind {f : Flag} {vr : VariationOrRollout} {e : EvalErr} (h : VRCause f vr e) :
    e.kind = .malformedFlag := by
  cases h <;> rfl

/-- Every error a frame logs for itself is of the MALFORMED_FLAG class. -/
theorem Cause.kind {env : Env} {f : Flag} {e : EvalErr} (h : Cause env f e) :
    e.kind = .malformedFlag := by
  cases h with
  | offVariation => rfl
  | target => rfl
  | fallthrough h => exact h.kind
  | rule _ h => exact h.kind
  | clause _ _ h => exact h.kind_nil
  | prereqCycle => rfl

theorem Spec.getVariation_of_varErr {f : Flag} {i : Int} {r : Reason} {e : EvalErr}
    (h : Spec.varErr f i = some e) : Spec.getVariation f i r = Detail.forError .malformedFlag := by
  unfold Spec.varErr at h
  unfold Spec.getVariation
  split at h
  · rename_i hr; rw [if_pos hr]
  · cases h

theorem Spec.getOffValue_of_offErr {f : Flag} {r : Reason} {e : EvalErr}
    (h : Spec.offErr f = some e) : Spec.getOffValue f r = Detail.forError .malformedFlag := by
  unfold Spec.offErr at h
  unfold Spec.getOffValue
  split at h
  · cases h
  · rename_i i hi
    simp only [hi]
    exact Spec.getVariation_of_varErr h

theorem Spec.getValueForVR_of_vrErr {env : Env} {f : Flag} {vr : VariationOrRollout} {r : Reason}
    {e : EvalErr} (h : Spec.vrErr env f vr = some e) :
    Spec.getValueForVR env f vr r = Detail.forError .malformedFlag := by
  unfold Spec.vrErr at h
  unfold Spec.getValueForVR
  split at h
  · rename_i e' he
    simp only [he]
    rw [variationOrRollout_err_kind he]
  · rename_i i x hok
    simp only [hok]
    exact Spec.getVariation_of_varErr h

theorem Spec.rulesLoop_of_rulesErr {seg : Spec.SegRec} {env : Env} {f : Flag}
    (hseg : ∀ s e, seg s [] = .err e → SegCause env [] s e) :
    ∀ {rs : List FlagRule} {i : Nat} {e : EvalErr}, Spec.rulesErr seg env f rs = some e →
      ∃ ok, Spec.rulesLoop seg env f rs i = some (Detail.forError .malformedFlag, ok) := by
  intro rs
  induction rs with
  | nil =>
    intro i e h
    exact ⟨true, by simp only [Spec.rulesLoop]; rw [Spec.getValueForVR_of_vrErr h]⟩
  | cons r rs ih =>
    intro i e h
    unfold Spec.rulesErr at h
    unfold Spec.rulesLoop
    split at h
    · rename_i e1 heq
      simp only [heq]
      obtain ⟨c, _, hcc⟩ := Spec.clausesMatch_cause hseg heq
      rw [hcc.kind_nil]
      exact ⟨false, rfl⟩
    · cases h
    · rename_i heq
      simp only [heq]
      rw [Spec.getValueForVR_of_vrErr h]
      exact ⟨true, rfl⟩
    · rename_i heq
      simp only [heq]
      exact ih h

/-- A frame with an own error returns the MALFORMED_FLAG error detail. -/
theorem Spec.evalBody_of_ownErr {rec : Spec.FlagRec} {seg : Spec.SegRec} {env : Env}
    (hseg : ∀ s e, seg s [] = .err e → SegCause env [] s e) {f : Flag} {chain : List String}
    {e : EvalErr} (h : Spec.ownErrBody rec seg env f chain = some e) :
    ∃ ok, Spec.evalBody rec seg env f chain = some (Detail.forError .malformedFlag, ok) := by
  unfold Spec.ownErrBody at h
  unfold Spec.evalBody
  split at h
  · rename_i hoff
    rw [if_pos hoff, Spec.getOffValue_of_offErr h]
    exact ⟨true, rfl⟩
  · rename_i hoff
    rw [if_neg hoff]
    split at h
    · cases h
    · rename_i heq
      simp only [heq]
      exact ⟨false, rfl⟩
    · rename_i k heq
      simp only [heq]
      rw [Spec.getOffValue_of_offErr h]
      exact ⟨true, rfl⟩
    · rename_i heq
      simp only [heq]
      split at h
      · rename_i v hv
        simp only [hv]
        rw [Spec.getVariation_of_varErr h]
        exact ⟨true, rfl⟩
      · rename_i hv
        simp only [hv]
        exact Spec.rulesLoop_of_rulesErr hseg h

theorem Spec.evalFlag_of_ownErr {sf n : Nat} {env : Env} {f : Flag} {chain : List String}
    {e : EvalErr} (h : Spec.ownErr sf n env f chain = some e) :
    ∃ ok, Spec.evalFlag sf n env f chain = some (Detail.forError .malformedFlag, ok) := by
  cases n with
  | zero => simp [Spec.ownErr] at h
  | succ n => exact Spec.evalBody_of_ownErr (Spec.segContains_cause env sf []) h

end LD

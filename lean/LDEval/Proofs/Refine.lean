import LDEval.Spec.EvalSpec

namespace LD

/-- The cache only holds what the provider answers. -/
def Consistent (env : Env) (st : St) : Prop :=
  ∀ key m, st.cache.lookup key = some m → m = Spec.membershipOf env key ∧ env.bs.isSome

theorem Consistent.empty (env : Env) : Consistent env {} := by
  intro key m h; simp at h

theorem Consistent.of_cache_eq {env : Env} {st st' : St} (h : Consistent env st)
    (hc : st'.cache = st.cache) : Consistent env st' := by
  intro key m hm; rw [hc] at hm; exact h key m hm

/-- R1 -/
theorem bigSegMembership_spec (env : Env) (key : String) (st : St) (h : Consistent env st) :
    (bigSegMembership env key st).1 = Spec.membershipOf env key ∧
      Consistent env (bigSegMembership env key st).2 := by
  unfold bigSegMembership
  split
  · rename_i m hm; exact ⟨(h key m hm).1, h⟩
  · rename_i hnone
    split
    · rename_i hbs
      exact ⟨by simp [Spec.membershipOf, hbs], h.of_cache_eq rfl⟩
    · rename_i p hbs
      refine ⟨by simp [Spec.membershipOf, hbs], ?_⟩
      intro k m hm
      simp only [List.lookup_append] at hm
      cases hk : st.cache.lookup k with
      | some m' =>
        rw [hk] at hm; simp at hm; subst hm; exact h k m' hk
      | none =>
        rw [hk] at hm
        simp only [List.lookup] at hm
        cases hkk : k == key with
        | false => rw [hkk] at hm; cases hm
        | true =>
          rw [hkk] at hm
          have : k = key := by simpa using hkk
          subst this
          simp only [Option.none_or, Option.some.injEq] at hm
          subst hm
          simp [Spec.membershipOf, hbs]

def SegRefines (env : Env) (rec : SegRec) (recS : Spec.SegRec) : Prop :=
  ∀ seg chain st, Consistent env st →
    (rec seg chain st).1 = recS seg chain ∧ Consistent env (rec seg chain st).2

theorem segMatchValues_refines {env : Env} {rec : SegRec} {recS : Spec.SegRec}
    (hrec : SegRefines env rec recS) (negate : Bool) (chain : List String) :
    ∀ vs st, Consistent env st →
      (segMatchValues rec env negate chain vs st).1 = Spec.segMatchValues recS env negate chain vs ∧
      Consistent env (segMatchValues rec env negate chain vs st).2 := by
  intro vs
  induction vs with
  | nil => intro st h; exact ⟨rfl, h⟩
  | cons v vs ih =>
    intro st h
    cases v with
    | str k =>
      simp only [segMatchValues, Spec.segMatchValues]
      have hc1 : Consistent env { st with segLookups := st.segLookups ++ [k] } := h.of_cache_eq rfl
      cases hf : env.store.findSegment k with
      | none => exact ih _ hc1
      | some seg =>
        simp only []
        have hr := hrec seg chain _ hc1
        revert hr
        generalize rec seg chain _ = r
        obtain ⟨res, st2⟩ := r
        rintro ⟨hr1, hr2⟩
        simp only at hr1 hr2
        rw [← hr1]; clear hr1
        cases res with
        | ok b => cases b with
          | true => exact ⟨rfl, hr2⟩
          | false => exact ih _ hr2
        | err e => exact ⟨rfl, hr2⟩
        | oof => exact ⟨rfl, hr2⟩
    | null => simp only [segMatchValues, Spec.segMatchValues]; exact ih st h
    | bool b => simp only [segMatchValues, Spec.segMatchValues]; exact ih st h
    | num q => simp only [segMatchValues, Spec.segMatchValues]; exact ih st h
    | arr xs => simp only [segMatchValues, Spec.segMatchValues]; exact ih st h
    | obj kvs => simp only [segMatchValues, Spec.segMatchValues]; exact ih st h
    | raw w => simp only [segMatchValues, Spec.segMatchValues]; exact ih st h

theorem clauseMatch_refines {env : Env} {rec : SegRec} {recS : Spec.SegRec}
    (hrec : SegRefines env rec recS) (chain : List String) (c : Clause) (st : St)
    (h : Consistent env st) :
    (clauseMatch rec env chain c st).1 = Spec.clauseMatch recS env chain c ∧
      Consistent env (clauseMatch rec env chain c st).2 := by
  unfold clauseMatch Spec.clauseMatch
  split
  · exact segMatchValues_refines hrec _ _ _ _ h
  · exact ⟨rfl, h⟩

theorem clausesMatch_refines {env : Env} {rec : SegRec} {recS : Spec.SegRec}
    (hrec : SegRefines env rec recS) (chain : List String) :
    ∀ cs st, Consistent env st →
      (clausesMatch rec env chain cs st).1 = Spec.clausesMatch recS env chain cs ∧
      Consistent env (clausesMatch rec env chain cs st).2 := by
  intro cs
  induction cs with
  | nil => intro st h; exact ⟨rfl, h⟩
  | cons c cs ih =>
    intro st h
    simp only [clausesMatch, Spec.clausesMatch]
    obtain ⟨h1, h2⟩ := clauseMatch_refines hrec chain c st h
    generalize clauseMatch rec env chain c st = r at h1 h2 ⊢
    obtain ⟨res, st1⟩ := r
    simp only at h1 h2
    rw [← h1]; clear h1
    cases res with
    | ok b => cases b with
      | true => exact ih _ h2
      | false => exact ⟨rfl, h2⟩
    | err e => exact ⟨rfl, h2⟩
    | oof => exact ⟨rfl, h2⟩

theorem segRuleMatch_refines {env : Env} {rec : SegRec} {recS : Spec.SegRec}
    (hrec : SegRefines env rec recS) (chain : List String) (key salt : String) (r : SegmentRule)
    (st : St) (h : Consistent env st) :
    (segRuleMatch rec env chain key salt r st).1 = Spec.segRuleMatch recS env chain key salt r ∧
      Consistent env (segRuleMatch rec env chain key salt r st).2 := by
  unfold segRuleMatch Spec.segRuleMatch
  obtain ⟨h1, h2⟩ := clausesMatch_refines hrec chain r.clauses st h
  generalize clausesMatch rec env chain r.clauses st = q at h1 h2 ⊢
  obtain ⟨res, st1⟩ := q
  simp only at h1 h2
  rw [← h1]; clear h1
  cases res with
  | ok b => cases b with
    | true =>
      simp only []
      cases r.weight with
      | none => exact ⟨rfl, h2⟩
      | some w =>
        simp only []
        generalize computeBucket env.opts.secondaryKey env.ctx false none r.rolloutContextKind key
          r.bucketBy salt = cb
        cases cb with
        | error e => exact ⟨rfl, h2⟩
        | ok bf =>
          obtain ⟨bucket, fail⟩ := bf
          simp only []
          split <;> exact ⟨rfl, h2⟩
    | false => exact ⟨rfl, h2⟩
  | err e => exact ⟨rfl, h2⟩
  | oof => exact ⟨rfl, h2⟩

theorem segRules_refines {env : Env} {rec : SegRec} {recS : Spec.SegRec}
    (hrec : SegRefines env rec recS) (chain : List String) (s : Segment) :
    ∀ rs st, Consistent env st →
      (segRules rec env chain s rs st).1 = Spec.segRules recS env chain s rs ∧
      Consistent env (segRules rec env chain s rs st).2 := by
  intro rs
  induction rs with
  | nil => intro st h; exact ⟨rfl, h⟩
  | cons r rs ih =>
    intro st h
    simp only [segRules, Spec.segRules]
    obtain ⟨h1, h2⟩ := segRuleMatch_refines hrec chain s.key s.salt r st h
    generalize segRuleMatch rec env chain s.key s.salt r st = q at h1 h2 ⊢
    obtain ⟨res, st1⟩ := q
    simp only at h1 h2
    rw [← h1]; clear h1
    cases res with
    | ok b => cases b with
      | true => exact ⟨rfl, h2⟩
      | false => exact ih _ h2
    | err e => exact ⟨rfl, h2⟩
    | oof => exact ⟨rfl, h2⟩

theorem segBody_refines {env : Env} {rec : SegRec} {recS : Spec.SegRec}
    (hrec : SegRefines env rec recS) (s : Segment) (chain : List String) (st : St)
    (h : Consistent env st) :
    (segBody rec env s chain st).1 = Spec.segBody recS env s chain ∧
      Consistent env (segBody rec env s chain st).2 := by
  unfold segBody Spec.segBody
  split
  · exact ⟨rfl, h⟩
  · simp only []
    split
    · cases s.generation with
      | none => exact ⟨rfl, h.of_cache_eq rfl⟩
      | some g =>
        simp only []
        cases env.ctx.keyByKind s.unboundedContextKind with
        | none => exact ⟨rfl, h⟩
        | some key =>
          simp only []
          obtain ⟨h1, h2⟩ := bigSegMembership_spec env key st h
          generalize bigSegMembership env key st = q at h1 h2 ⊢
          obtain ⟨m, st1⟩ := q
          simp only at h1 h2
          rw [← h1]; clear h1
          cases m with
          | none => exact segRules_refines hrec _ s _ _ h2
          | some tbl =>
            simp only []
            have h3 : Consistent env { st1 with memChecks := st1.memChecks ++ [(key, bigSegmentRef s)] } :=
              h2.of_cache_eq rfl
            cases tbl.lookup (bigSegmentRef s) with
            | some b => exact ⟨rfl, h3⟩
            | none => exact segRules_refines hrec _ s _ _ h3
    · cases segLists env.ctx s with
      | some b => exact ⟨rfl, h⟩
      | none => exact segRules_refines hrec _ s _ _ h

/-- R3 -/
theorem segContains_refines (n : Nat) (env : Env) :
    ∀ s chain st, Consistent env st →
      (segContains n env s chain st).1 = Spec.segContains n env s chain ∧
      Consistent env (segContains n env s chain st).2 := by
  induction n with
  | zero => intro s chain st h; exact ⟨rfl, h⟩
  | succ n ih => intro s chain st h; exact segBody_refines ih s chain st h

/-! ### R4: value selection -/

theorem logErr_cache (env : Env) (k : String) (e : EvalErr) (st : St) :
    (logErr env k e st).cache = st.cache := by
  unfold logErr; split <;> rfl

theorem getVariation_spec (env : Env) (f : Flag) (i : Int) (r : Reason) (st : St) :
    (getVariation env f i r st).1 = Spec.getVariation f i r ∧
      (getVariation env f i r st).2.cache = st.cache := by
  unfold getVariation Spec.getVariation
  split
  · exact ⟨rfl, logErr_cache ..⟩
  · exact ⟨rfl, rfl⟩

theorem getOffValue_spec (env : Env) (f : Flag) (r : Reason) (st : St) :
    (getOffValue env f r st).1 = Spec.getOffValue f r ∧
      (getOffValue env f r st).2.cache = st.cache := by
  unfold getOffValue Spec.getOffValue
  cases f.offVariation with
  | none => exact ⟨rfl, rfl⟩
  | some i => exact getVariation_spec env f i r st

theorem getValueForVR_spec (env : Env) (f : Flag) (vr : VariationOrRollout) (r : Reason) (st : St) :
    (getValueForVR env f vr r st).1 = Spec.getValueForVR env f vr r ∧
      (getValueForVR env f vr r st).2.cache = st.cache := by
  unfold getValueForVR Spec.getValueForVR
  cases variationOrRollout env vr f.key f.salt with
  | error e => exact ⟨rfl, logErr_cache ..⟩
  | ok ie => obtain ⟨i, inExp⟩ := ie; exact getVariation_spec ..

/-! ### R5: flags, parametric in the recursion -/

/-- Forget the state of a flag outcome. -/
def FlagOut.toSpec : FlagOut → Option (Detail × Bool)
  | .done d ok => some (d, ok)
  | .oof => none

def PrereqOut.toSpec : PrereqOut → Spec.PrereqOut
  | .ok => .ok
  | .failed k => .failed k
  | .malformed => .malformed
  | .oof => .oof

def FlagRefines (env : Env) (rec : FlagRec) (recS : Spec.FlagRec) : Prop :=
  ∀ f chain st, Consistent env st →
    (rec f chain st).1.toSpec = recS f chain ∧ Consistent env (rec f chain st).2

theorem prereqLoop_refines {env : Env} {rec : FlagRec} {recS : Spec.FlagRec}
    (hrec : FlagRefines env rec recS) (f : Flag) (chain : List String) :
    ∀ ps st, Consistent env st →
      (prereqLoop rec env f chain ps st).1.toSpec = Spec.prereqLoop recS env chain ps ∧
      Consistent env (prereqLoop rec env f chain ps st).2 := by
  intro ps
  induction ps with
  | nil => intro st h; exact ⟨rfl, h⟩
  | cons p ps ih =>
    intro st h
    simp only [prereqLoop, Spec.prereqLoop]
    have hc1 : Consistent env { st with flagLookups := st.flagLookups ++ [p.key] } :=
      h.of_cache_eq rfl
    cases env.store.findFlag p.key with
    | none => exact ⟨rfl, hc1⟩
    | some pf =>
      simp only []
      split
      · exact ⟨rfl, hc1.of_cache_eq (logErr_cache ..)⟩
      · obtain ⟨h1, h2⟩ := hrec pf chain _ hc1
        generalize rec pf chain _ = q at h1 h2 ⊢
        obtain ⟨res, st2⟩ := q
        simp only at h1 h2
        rw [← h1]; clear h1
        cases res with
        | oof => exact ⟨rfl, h2⟩
        | done d ok =>
          simp only [FlagOut.toSpec]
          cases ok with
          | false => exact ⟨rfl, h2.of_cache_eq rfl⟩
          | true =>
            generalize (pf.on && d.index.isSome && d.index == some p.variation) = pok
            cases env.opts.recorder <;> cases pok <;>
              simp only [Bool.not_true, Bool.not_false, Bool.false_eq_true, if_false, if_true] <;>
              first
                | exact ⟨rfl, h2.of_cache_eq rfl⟩
                | exact ih _ (h2.of_cache_eq rfl)

theorem checkPrereqs_refines {env : Env} {rec : FlagRec} {recS : Spec.FlagRec}
    (hrec : FlagRefines env rec recS) (f : Flag) (chain : List String) (st : St)
    (h : Consistent env st) :
    (checkPrereqs rec env f chain st).1.toSpec = Spec.checkPrereqs recS env f chain ∧
      Consistent env (checkPrereqs rec env f chain st).2 := by
  unfold checkPrereqs Spec.checkPrereqs
  split
  · exact ⟨rfl, h⟩
  · exact prereqLoop_refines hrec f _ _ st h

theorem rulesLoop_refines {env : Env} {seg : SegRec} {segS : Spec.SegRec}
    (hseg : SegRefines env seg segS) (f : Flag) :
    ∀ rs i st, Consistent env st →
      (rulesLoop seg env f rs i st).1.toSpec = Spec.rulesLoop segS env f rs i ∧
      Consistent env (rulesLoop seg env f rs i st).2 := by
  intro rs
  induction rs with
  | nil =>
    intro i st h
    simp only [rulesLoop, Spec.rulesLoop]
    obtain ⟨g1, g2⟩ := getValueForVR_spec env f f.fallthrough .fallthrough st
    generalize getValueForVR env f f.fallthrough .fallthrough st = q at g1 g2 ⊢
    obtain ⟨d, st1⟩ := q
    simp only at g1 g2
    subst g1
    exact ⟨rfl, h.of_cache_eq g2⟩
  | cons r rs ih =>
    intro i st h
    simp only [rulesLoop, Spec.rulesLoop]
    obtain ⟨h1, h2⟩ := clausesMatch_refines hseg [] r.clauses st h
    generalize clausesMatch seg env [] r.clauses st = q at h1 h2 ⊢
    obtain ⟨res, st1⟩ := q
    simp only at h1 h2
    rw [← h1]; clear h1
    cases res with
    | ok b => cases b with
      | true =>
        simp only []
        obtain ⟨g1, g2⟩ := getValueForVR_spec env f r.vr (.ruleMatch i r.id) st1
        generalize getValueForVR env f r.vr (.ruleMatch i r.id) st1 = q at g1 g2 ⊢
        obtain ⟨d, st2⟩ := q
        simp only at g1 g2
        subst g1
        exact ⟨rfl, h2.of_cache_eq g2⟩
      | false => exact ih _ _ h2
    | err e => exact ⟨rfl, h2.of_cache_eq (logErr_cache ..)⟩
    | oof => exact ⟨rfl, h2⟩

theorem evalBody_refines {env : Env} {rec : FlagRec} {recS : Spec.FlagRec} {seg : SegRec}
    {segS : Spec.SegRec} (hrec : FlagRefines env rec recS) (hseg : SegRefines env seg segS)
    (f : Flag) (chain : List String) (st : St) (h : Consistent env st) :
    (evalBody rec seg env f chain st).1.toSpec = Spec.evalBody recS segS env f chain ∧
      Consistent env (evalBody rec seg env f chain st).2 := by
  unfold evalBody Spec.evalBody
  split
  · obtain ⟨g1, g2⟩ := getOffValue_spec env f .off st
    generalize getOffValue env f .off st = q at g1 g2 ⊢
    obtain ⟨d, st1⟩ := q
    simp only at g1 g2
    subst g1
    exact ⟨rfl, h.of_cache_eq g2⟩
  · obtain ⟨h1, h2⟩ := checkPrereqs_refines hrec f chain st h
    generalize checkPrereqs rec env f chain st = q at h1 h2 ⊢
    obtain ⟨res, st1⟩ := q
    simp only at h1 h2
    rw [← h1]; clear h1
    cases res with
    | oof => exact ⟨rfl, h2⟩
    | malformed => exact ⟨rfl, h2⟩
    | failed k =>
      simp only [PrereqOut.toSpec]
      obtain ⟨g1, g2⟩ := getOffValue_spec env f (.prereqFailed k) st1
      generalize getOffValue env f (.prereqFailed k) st1 = q at g1 g2 ⊢
      obtain ⟨d, st2⟩ := q
      simp only at g1 g2
      subst g1
      exact ⟨rfl, h2.of_cache_eq g2⟩
    | ok =>
      simp only [PrereqOut.toSpec]
      cases anyTargetMatch env.ctx f with
      | some v =>
        simp only []
        obtain ⟨g1, g2⟩ := getVariation_spec env f v .targetMatch st1
        generalize getVariation env f v .targetMatch st1 = q at g1 g2 ⊢
        obtain ⟨d, st2⟩ := q
        simp only at g1 g2
        subst g1
        exact ⟨rfl, h2.of_cache_eq g2⟩
      | none => exact rulesLoop_refines hseg f _ _ st1 h2

/-- R6 -/
theorem evalFlag_refines (sf n : Nat) (env : Env) :
    ∀ f chain st, Consistent env st →
      (evalFlag sf n env f chain st).1.toSpec = Spec.evalFlag sf n env f chain ∧
      Consistent env (evalFlag sf n env f chain st).2 := by
  induction n with
  | zero => intro f chain st h; exact ⟨rfl, h⟩
  | succ n ih =>
    intro f chain st h
    exact evalBody_refines ih (segContains_refines sf env) f chain st h

/-! ### R7: corollaries -/

/-- The detail and the ok-bit never depend on what earlier parts of the same evaluation cached,
logged or recorded. -/
theorem evalFlag_state_independent (sf n : Nat) (env : Env) (f : Flag) (chain : List String)
    (st₁ st₂ : St) (h₁ : Consistent env st₁) (h₂ : Consistent env st₂) :
    (evalFlag sf n env f chain st₁).1.toSpec = (evalFlag sf n env f chain st₂).1.toSpec := by
  rw [(evalFlag_refines sf n env f chain st₁ h₁).1, (evalFlag_refines sf n env f chain st₂ h₂).1]

theorem segContains_state_independent (n : Nat) (env : Env) (s : Segment) (chain : List String)
    (st₁ st₂ : St) (h₁ : Consistent env st₁) (h₂ : Consistent env st₂) :
    (segContains n env s chain st₁).1 = (segContains n env s chain st₂).1 := by
  rw [(segContains_refines n env s chain st₁ h₁).1, (segContains_refines n env s chain st₂ h₂).1]

/-- `evaluate` returns the Spec's detail, up to the big-segments status annotation. -/
theorem evaluate_detail_spec (env : Env) (f : Flag) (h : env.ctx ≠ .invalid) (d : Detail) (ok : Bool)
    (hs : Spec.evalFlag (segFuel env.store) (flagFuel env.store) env f [] = some (d, ok)) :
    (evaluate env f).outcome = .done ∧
    (evaluate env f).result.detail.value = d.value ∧
    (evaluate env f).result.detail.index = d.index ∧
    (evaluate env f).result.detail.reason.kind = d.reason.kind ∧
    (evaluate env f).result.detail.reason.ruleIndex = d.reason.ruleIndex ∧
    (evaluate env f).result.detail.reason.ruleId = d.reason.ruleId ∧
    (evaluate env f).result.detail.reason.prereqKey = d.reason.prereqKey ∧
    (evaluate env f).result.detail.reason.errorKind = d.reason.errorKind ∧
    (evaluate env f).result.detail.reason.inExperiment = d.reason.inExperiment := by
  obtain ⟨h1, -⟩ := evalFlag_refines (segFuel env.store) (flagFuel env.store) env f [] {}
    (Consistent.empty env)
  rw [hs] at h1
  unfold evaluate
  split
  · contradiction
  · generalize evalFlag (segFuel env.store) (flagFuel env.store) env f [] {} = q at h1 ⊢
    obtain ⟨out, st⟩ := q
    cases out with
    | oof => simp [FlagOut.toSpec] at h1
    | done d' ok' =>
      simp only [FlagOut.toSpec, Option.some.injEq, Prod.mk.injEq] at h1
      obtain ⟨rfl, rfl⟩ := h1
      refine ⟨rfl, ?_⟩
      simp only []
      cases st.status <;> exact ⟨rfl, rfl, rfl, rfl, rfl, rfl, rfl, rfl⟩

/-- Out of fuel in the Spec is out of fuel in `evaluate` (C10 shows it never happens). -/
theorem evaluate_oof_spec (env : Env) (f : Flag) (h : env.ctx ≠ .invalid)
    (hs : Spec.evalFlag (segFuel env.store) (flagFuel env.store) env f [] = none) :
    (evaluate env f).outcome = .outOfFuel := by
  obtain ⟨h1, -⟩ := evalFlag_refines (segFuel env.store) (flagFuel env.store) env f [] {}
    (Consistent.empty env)
  rw [hs] at h1
  unfold evaluate
  split
  · contradiction
  · generalize evalFlag (segFuel env.store) (flagFuel env.store) env f [] {} = q at h1 ⊢
    obtain ⟨out, st⟩ := q
    cases out with
    | oof => rfl
    | done d' ok' => simp [FlagOut.toSpec] at h1

/-! #### The Spec reads the environment only through
`(opts.secondaryKey, store, bs, ctx, rx)` -/

structure EnvAgree (e₁ e₂ : Env) : Prop where
  secondaryKey : e₁.opts.secondaryKey = e₂.opts.secondaryKey
  store : e₁.store = e₂.store
  bs : e₁.bs = e₂.bs
  ctx : e₁.ctx = e₂.ctx
  rx : e₁.rx = e₂.rx

section Congr
variable {e₁ e₂ : Env} (h : EnvAgree e₁ e₂)
include h

theorem Spec.membershipOf_congr (key : String) :
    Spec.membershipOf e₁ key = Spec.membershipOf e₂ key := by
  simp only [Spec.membershipOf, h.bs]

theorem Spec.segMatchValues_congr (rec : Spec.SegRec) (negate : Bool) (chain : List String) :
    ∀ vs, Spec.segMatchValues rec e₁ negate chain vs = Spec.segMatchValues rec e₂ negate chain vs := by
  intro vs
  induction vs with
  | nil => rfl
  | cons v vs ih => cases v <;> simp only [Spec.segMatchValues, h.store, ih]

theorem Spec.clauseMatch_congr (rec : Spec.SegRec) (chain : List String) (c : Clause) :
    Spec.clauseMatch rec e₁ chain c = Spec.clauseMatch rec e₂ chain c := by
  simp only [Spec.clauseMatch, Spec.segMatchValues_congr h, h.rx, h.ctx]

theorem Spec.clausesMatch_congr (rec : Spec.SegRec) (chain : List String) :
    ∀ cs, Spec.clausesMatch rec e₁ chain cs = Spec.clausesMatch rec e₂ chain cs := by
  intro cs
  induction cs with
  | nil => rfl
  | cons c cs ih => simp only [Spec.clausesMatch, Spec.clauseMatch_congr h, ih]

theorem Spec.segRuleMatch_congr (rec : Spec.SegRec) (chain : List String) (key salt : String)
    (r : SegmentRule) :
    Spec.segRuleMatch rec e₁ chain key salt r = Spec.segRuleMatch rec e₂ chain key salt r := by
  simp only [Spec.segRuleMatch, Spec.clausesMatch_congr h, h.secondaryKey, h.ctx]

theorem Spec.segRules_congr (rec : Spec.SegRec) (chain : List String) (s : Segment) :
    ∀ rs, Spec.segRules rec e₁ chain s rs = Spec.segRules rec e₂ chain s rs := by
  intro rs
  induction rs with
  | nil => rfl
  | cons r rs ih => simp only [Spec.segRules, Spec.segRuleMatch_congr h, ih]

theorem Spec.segBody_congr (rec : Spec.SegRec) (s : Segment) (chain : List String) :
    Spec.segBody rec e₁ s chain = Spec.segBody rec e₂ s chain := by
  simp only [Spec.segBody, Spec.membershipOf_congr h, Spec.segRules_congr h, h.ctx]

theorem Spec.segContains_congr (n : Nat) : Spec.segContains n e₁ = Spec.segContains n e₂ := by
  induction n with
  | zero => rfl
  | succ n ih =>
    funext s chain
    simp only [Spec.segContains, ih, Spec.segBody_congr h]

theorem variationOrRollout_congr (vr : VariationOrRollout) (key salt : String) :
    variationOrRollout e₁ vr key salt = variationOrRollout e₂ vr key salt := by
  simp only [variationOrRollout, h.secondaryKey, h.ctx]

theorem Spec.getValueForVR_congr (f : Flag) (vr : VariationOrRollout) (r : Reason) :
    Spec.getValueForVR e₁ f vr r = Spec.getValueForVR e₂ f vr r := by
  simp only [Spec.getValueForVR, variationOrRollout_congr h]

theorem Spec.prereqLoop_congr (rec : Spec.FlagRec) (chain : List String) :
    ∀ ps, Spec.prereqLoop rec e₁ chain ps = Spec.prereqLoop rec e₂ chain ps := by
  intro ps
  induction ps with
  | nil => rfl
  | cons p ps ih => simp only [Spec.prereqLoop, h.store, ih]

theorem Spec.checkPrereqs_congr (rec : Spec.FlagRec) (f : Flag) (chain : List String) :
    Spec.checkPrereqs rec e₁ f chain = Spec.checkPrereqs rec e₂ f chain := by
  simp only [Spec.checkPrereqs, Spec.prereqLoop_congr h]

theorem Spec.rulesLoop_congr (seg : Spec.SegRec) (f : Flag) :
    ∀ rs i, Spec.rulesLoop seg e₁ f rs i = Spec.rulesLoop seg e₂ f rs i := by
  intro rs
  induction rs with
  | nil => intro i; simp only [Spec.rulesLoop, Spec.getValueForVR_congr h]
  | cons r rs ih =>
    intro i
    simp only [Spec.rulesLoop, Spec.clausesMatch_congr h, Spec.getValueForVR_congr h, ih]

theorem Spec.evalBody_congr (rec : Spec.FlagRec) (seg : Spec.SegRec) (f : Flag)
    (chain : List String) :
    Spec.evalBody rec seg e₁ f chain = Spec.evalBody rec seg e₂ f chain := by
  simp only [Spec.evalBody, Spec.checkPrereqs_congr h, Spec.rulesLoop_congr h, h.ctx]

/-- The generic lemma: the Spec depends on the environment only through
`(opts.secondaryKey, store, bs, ctx, rx)`. -/
theorem Spec.evalFlag_congr (sf n : Nat) : Spec.evalFlag sf n e₁ = Spec.evalFlag sf n e₂ := by
  induction n with
  | zero => rfl
  | succ n ih =>
    funext f chain
    simp only [Spec.evalFlag, ih, Spec.segContains_congr h, Spec.evalBody_congr h]

end Congr

/-- Turning the logger on or off does not change what a flag evaluates to. -/
theorem logger_irrelevant (sf n : Nat) (env : Env) (b : Bool) (f : Flag) (chain : List String) :
    Spec.evalFlag sf n env f chain =
      Spec.evalFlag sf n { env with opts := { env.opts with logger := b } } f chain := by
  have h : EnvAgree env { env with opts := { env.opts with logger := b } } :=
    ⟨rfl, rfl, rfl, rfl, rfl⟩
  rw [Spec.evalFlag_congr h]

/-- Turning the prerequisite-event recorder on or off does not change what a flag evaluates to. -/
theorem recorder_irrelevant (sf n : Nat) (env : Env) (b : Bool) (f : Flag) (chain : List String) :
    Spec.evalFlag sf n env f chain =
      Spec.evalFlag sf n { env with opts := { env.opts with recorder := b } } f chain := by
  have h : EnvAgree env { env with opts := { env.opts with recorder := b } } :=
    ⟨rfl, rfl, rfl, rfl, rfl⟩
  rw [Spec.evalFlag_congr h]

theorem Consistent.of_agree {e₁ e₂ : Env} (h : EnvAgree e₁ e₂) {st : St} (hc : Consistent e₁ st) :
    Consistent e₂ st := by
  intro key m hm
  have := hc key m hm
  rwa [Spec.membershipOf_congr h, h.bs] at this

/-- The model's own detail and ok-bit do not depend on the logger, the recorder, or the incoming
(consistent) state. -/
theorem evalFlag_logger_recorder_irrelevant (sf n : Nat) (e₁ e₂ : Env) (h : EnvAgree e₁ e₂)
    (f : Flag) (chain : List String) (st₁ st₂ : St)
    (h₁ : Consistent e₁ st₁) (h₂ : Consistent e₂ st₂) :
    (evalFlag sf n e₁ f chain st₁).1.toSpec = (evalFlag sf n e₂ f chain st₂).1.toSpec := by
  rw [(evalFlag_refines sf n e₁ f chain st₁ h₁).1, (evalFlag_refines sf n e₂ f chain st₂ h₂).1,
    Spec.evalFlag_congr h]

end LD

#print axioms LD.bigSegMembership_spec
#print axioms LD.segContains_refines
#print axioms LD.evalFlag_refines
#print axioms LD.evalFlag_state_independent
#print axioms LD.evaluate_detail_spec
#print axioms LD.logger_irrelevant
#print axioms LD.recorder_irrelevant
#print axioms LD.evalFlag_logger_recorder_irrelevant

/-
  LDEval.Proofs.AuditPurity — theorem audit, finding C12 #43 (and general observation G2).

  Part A: fuel monotonicity of the state-threading MODEL functions (result AND state): a run that
  does not end in `oof` is unchanged by more fuel; hence `evalFlag` with any fuel at or above the
  amount `evaluate` hands out computes exactly what `evaluate` computes.

  Part B: extensionality in the data store and the big-segment provider: an evaluation depends on
  them only through the ANSWERS to the keys it actually looks up (which it records in
  `flagLookups` / `segLookups` / `bsQueries`).
-/
import LDEval.Proofs.Reach
import LDEval.Proofs.Total

namespace LD

/-! ## Part A — more fuel never changes a run that did not run out of fuel -/

/-- `rec'` agrees with `rec` (result and state) wherever `rec` did not run out of fuel. -/
def SegRecLe (rec rec' : SegRec) : Prop :=
  ∀ seg chain st, (rec seg chain st).1 ≠ .oof → rec' seg chain st = rec seg chain st

theorem SegRecLe.refl (rec : SegRec) : SegRecLe rec rec := fun _ _ _ _ => rfl

theorem segMatchValues_mono {rec rec' : SegRec} {env : Env} {negate : Bool} {chain : List String}
    (h : SegRecLe rec rec') :
    ∀ vs st, (segMatchValues rec env negate chain vs st).1 ≠ .oof →
      segMatchValues rec' env negate chain vs st = segMatchValues rec env negate chain vs st := by
  intro vs
  induction vs with
  | nil => intro st _; rfl
  | cons v vs ih =>
    intro st hne
    cases v with
    | str k =>
      simp only [segMatchValues] at hne ⊢
      cases hf : env.store.findSegment k with
      | none => rw [hf] at hne; exact ih _ hne
      | some seg =>
        rw [hf] at hne
        simp only at hne ⊢
        generalize hr : rec seg chain { st with segLookups := st.segLookups ++ [k] } = r at hne ⊢
        obtain ⟨out, st2⟩ := r
        have h1 := h seg chain { st with segLookups := st.segLookups ++ [k] }
        rw [hr] at h1
        cases out with
        | oof => exact absurd rfl hne
        | err e => rw [h1 (by simp)]
        | ok b =>
          rw [h1 (by simp)]
          cases b with
          | true => rfl
          | false => exact ih _ hne
    | null => simp only [segMatchValues] at hne ⊢; exact ih _ hne
    | bool b => simp only [segMatchValues] at hne ⊢; exact ih _ hne
    | num q => simp only [segMatchValues] at hne ⊢; exact ih _ hne
    | arr xs => simp only [segMatchValues] at hne ⊢; exact ih _ hne
    | obj kvs => simp only [segMatchValues] at hne ⊢; exact ih _ hne
    | raw w => simp only [segMatchValues] at hne ⊢; exact ih _ hne

theorem clauseMatch_mono {rec rec' : SegRec} {env : Env} {chain : List String}
    (h : SegRecLe rec rec') (c : Clause) (st : St)
    (hne : (clauseMatch rec env chain c st).1 ≠ .oof) :
    clauseMatch rec' env chain c st = clauseMatch rec env chain c st := by
  unfold clauseMatch at hne ⊢
  split
  · rename_i hop; rw [if_pos hop] at hne; exact segMatchValues_mono h _ _ hne
  · rfl

theorem clausesMatch_mono {rec rec' : SegRec} {env : Env} {chain : List String}
    (h : SegRecLe rec rec') :
    ∀ cs st, (clausesMatch rec env chain cs st).1 ≠ .oof →
      clausesMatch rec' env chain cs st = clausesMatch rec env chain cs st := by
  intro cs
  induction cs with
  | nil => intro st _; rfl
  | cons c cs ih =>
    intro st hne
    simp only [clausesMatch] at hne ⊢
    have h1 := clauseMatch_mono h c st (env := env) (chain := chain)
    generalize clauseMatch rec env chain c st = r at hne h1 ⊢
    obtain ⟨out, st1⟩ := r
    cases out with
    | oof => exact absurd rfl hne
    | err e => rw [h1 (by simp)]
    | ok b =>
      rw [h1 (by simp)]
      cases b with
      | true => exact ih _ hne
      | false => rfl

theorem segRuleMatch_mono {rec rec' : SegRec} {env : Env} {chain : List String}
    (h : SegRecLe rec rec') (key salt : String) (r : SegmentRule) (st : St)
    (hne : (segRuleMatch rec env chain key salt r st).1 ≠ .oof) :
    segRuleMatch rec' env chain key salt r st = segRuleMatch rec env chain key salt r st := by
  unfold segRuleMatch at hne ⊢
  have h1 := clausesMatch_mono h r.clauses st (env := env) (chain := chain)
  generalize clausesMatch rec env chain r.clauses st = x at hne h1 ⊢
  obtain ⟨out, st1⟩ := x
  cases out with
  | oof => exact absurd rfl hne
  | err e => rw [h1 (by simp)]
  | ok b => rw [h1 (by simp)]

theorem segRules_mono {rec rec' : SegRec} {env : Env} {chain : List String} {s : Segment}
    (h : SegRecLe rec rec') :
    ∀ rs st, (segRules rec env chain s rs st).1 ≠ .oof →
      segRules rec' env chain s rs st = segRules rec env chain s rs st := by
  intro rs
  induction rs with
  | nil => intro st _; rfl
  | cons r rs ih =>
    intro st hne
    simp only [segRules] at hne ⊢
    have h1 := segRuleMatch_mono h s.key s.salt r st (env := env) (chain := chain)
    generalize segRuleMatch rec env chain s.key s.salt r st = x at hne h1 ⊢
    obtain ⟨out, st1⟩ := x
    cases out with
    | oof => exact absurd rfl hne
    | err e => rw [h1 (by simp)]
    | ok b =>
      rw [h1 (by simp)]
      cases b with
      | true => rfl
      | false => exact ih _ hne

theorem segBody_mono {rec rec' : SegRec} {env : Env} (h : SegRecLe rec rec') (s : Segment)
    (chain : List String) (st : St) (hne : (segBody rec env s chain st).1 ≠ .oof) :
    segBody rec' env s chain st = segBody rec env s chain st := by
  unfold segBody at hne ⊢
  split
  · rfl
  · rename_i hc
    rw [if_neg hc] at hne
    simp only at hne ⊢
    split
    · rename_i hu
      rw [if_pos hu] at hne
      split
      · rfl
      · split
        · rfl
        · rename_i key hkey
          simp only [*] at hne
          generalize bigSegMembership env key st = x at hne ⊢
          obtain ⟨m, st1⟩ := x
          simp only at hne ⊢
          split
          · exact segRules_mono h _ _ hne
          · split
            · rfl
            · rename_i hm; simp only [hm] at hne; exact segRules_mono h _ _ hne
    · rename_i hu
      rw [if_neg hu] at hne
      split
      · rfl
      · rename_i hl; simp only [hl] at hne; exact segRules_mono h _ _ hne

/-- More segment fuel never changes a segment test (result and state) that did not run out of
fuel. -/
theorem segContains_mono (env : Env) {n m : Nat} (h : n ≤ m) :
    SegRecLe (segContains n env) (segContains m env) := by
  induction n generalizing m with
  | zero => intro s c st hne; exact absurd rfl hne
  | succ n ih =>
    cases m with
    | zero => omega
    | succ m =>
      intro s c st hne
      exact segBody_mono (ih (by omega)) s c st hne

/-! ### Flags -/

/-- `rec'` agrees with `rec` (result and state) wherever `rec` did not run out of fuel. -/
def FlagRecLe (rec rec' : FlagRec) : Prop :=
  ∀ f chain st, (rec f chain st).1 ≠ .oof → rec' f chain st = rec f chain st

theorem FlagRecLe.refl (rec : FlagRec) : FlagRecLe rec rec := fun _ _ _ _ => rfl

theorem prereqLoop_mono {rec rec' : FlagRec} {env : Env} {f : Flag} {chain : List String}
    (h : FlagRecLe rec rec') :
    ∀ ps st, (prereqLoop rec env f chain ps st).1 ≠ .oof →
      prereqLoop rec' env f chain ps st = prereqLoop rec env f chain ps st := by
  intro ps
  induction ps with
  | nil => intro st _; rfl
  | cons p ps ih =>
    intro st hne
    simp only [prereqLoop] at hne ⊢
    cases hf : env.store.findFlag p.key with
    | none => rfl
    | some pf =>
      rw [hf] at hne
      simp only at hne ⊢
      split
      · rfl
      · rename_i hc
        rw [if_neg hc] at hne
        have h1 := h pf chain { st with flagLookups := st.flagLookups ++ [p.key] }
        generalize rec pf chain { st with flagLookups := st.flagLookups ++ [p.key] } = x
          at hne h1 ⊢
        obtain ⟨out, st2⟩ := x
        cases out with
        | oof => exact absurd rfl hne
        | done d ok =>
          rw [h1 (by simp)]
          simp only at hne ⊢
          split
          · rfl
          · rename_i hok
            rw [if_neg hok] at hne
            split
            · rfl
            · rename_i hm; rw [if_neg hm] at hne; exact ih _ hne

theorem checkPrereqs_mono {rec rec' : FlagRec} {env : Env} (h : FlagRecLe rec rec')
    (f : Flag) (chain : List String) (st : St)
    (hne : (checkPrereqs rec env f chain st).1 ≠ .oof) :
    checkPrereqs rec' env f chain st = checkPrereqs rec env f chain st := by
  unfold checkPrereqs at hne ⊢
  split
  · rfl
  · rename_i he; rw [if_neg he] at hne; exact prereqLoop_mono h _ _ hne

theorem rulesLoop_mono {seg seg' : SegRec} {env : Env} {f : Flag} (h : SegRecLe seg seg') :
    ∀ rules i st, (rulesLoop seg env f rules i st).1 ≠ .oof →
      rulesLoop seg' env f rules i st = rulesLoop seg env f rules i st := by
  intro rules
  induction rules with
  | nil => intro i st _; rfl
  | cons r rs ih =>
    intro i st hne
    simp only [rulesLoop] at hne ⊢
    have h1 := clausesMatch_mono h r.clauses st (env := env) (chain := [])
    generalize clausesMatch seg env [] r.clauses st = x at hne h1 ⊢
    obtain ⟨out, st1⟩ := x
    cases out with
    | oof => exact absurd rfl hne
    | err e => rw [h1 (by simp)]
    | ok b =>
      rw [h1 (by simp)]
      cases b with
      | true => rfl
      | false => exact ih _ _ hne

theorem evalBody_mono {rec rec' : FlagRec} {seg seg' : SegRec} {env : Env}
    (h : FlagRecLe rec rec') (hseg : SegRecLe seg seg') (f : Flag) (chain : List String) (st : St)
    (hne : (evalBody rec seg env f chain st).1 ≠ .oof) :
    evalBody rec' seg' env f chain st = evalBody rec seg env f chain st := by
  unfold evalBody at hne ⊢
  split
  · rfl
  · rename_i hon
    rw [if_neg hon] at hne
    have h1 := checkPrereqs_mono h f chain st (env := env)
    generalize checkPrereqs rec env f chain st = x at hne h1 ⊢
    obtain ⟨out, st1⟩ := x
    cases out with
    | oof => exact absurd rfl hne
    | malformed => rw [h1 (by simp)]
    | failed k => rw [h1 (by simp)]
    | ok =>
      rw [h1 (by simp)]
      simp only at hne ⊢
      split
      · rfl
      · rename_i hm; simp only [hm] at hne; exact rulesLoop_mono hseg _ _ _ hne

/-- More fuel (of either kind) never changes an evaluation — result AND state — that did not run
out of fuel. -/
theorem evalFlag_mono (env : Env) {sf sf' n n' : Nat} (hs : sf ≤ sf') (hn : n ≤ n') :
    FlagRecLe (evalFlag sf n env) (evalFlag sf' n' env) := by
  induction n generalizing n' with
  | zero => intro f c st hne; exact absurd rfl hne
  | succ n ih =>
    cases n' with
    | zero => omega
    | succ n' =>
      intro f c st hne
      exact evalBody_mono (ih (by omega)) (segContains_mono env hs) f c st hne

/-- With at least the fuel `evaluate` hands out, the run from the empty chain and state is exactly
the run `evaluate` makes: result, status, cache, events, logs, lookups and queries. -/
theorem evalFlag_fuel_irrelevant (env : Env) (f : Flag) {sf n : Nat}
    (hs : segFuel env.store ≤ sf) (hn : flagFuel env.store ≤ n) :
    evalFlag sf n env f [] {} = evalFlag (segFuel env.store) (flagFuel env.store) env f [] {} :=
  evalFlag_mono env hs hn f [] {}
    (evalFlag_no_oof env f.key (flagFuel env.store) f [] {} List.nodup_nil (by simp) (by simp)
      (by unfold flagFuel; simp))

/-! ## Part B — the store and the provider matter only through the answers actually used -/

/-- `e.with s b` differs from `e` at most in the data store and the big-segment provider. -/
def Env.with (e : Env) (s : Store) (b : Option BSProvider) : Env := { e with store := s, bs := b }

@[simp] theorem Env.with_opts (e : Env) (s b) : (e.with s b).opts = e.opts := rfl
@[simp] theorem Env.with_ctx (e : Env) (s b) : (e.with s b).ctx = e.ctx := rfl
@[simp] theorem Env.with_rx (e : Env) (s b) : (e.with s b).rx = e.rx := rfl
@[simp] theorem Env.with_store (e : Env) (s b) : (e.with s b).store = s := rfl
@[simp] theorem Env.with_bs (e : Env) (s b) : (e.with s b).bs = b := rfl
theorem Env.with_self (e : Env) : e.with e.store e.bs = e := rfl

/-- The two environments give the same answers to every lookup recorded in `st`: the same flag (or
none) for every key in `flagLookups`, the same segment (or none) for every key in `segLookups`, a
provider is configured in both or in neither, and the providers answer every key in `bsQueries`
alike. -/
structure AgreeOn (e₁ e₂ : Env) (st : St) : Prop where
  flags : ∀ k ∈ st.flagLookups, e₂.store.findFlag k = e₁.store.findFlag k
  segs : ∀ k ∈ st.segLookups, e₂.store.findSegment k = e₁.store.findSegment k
  bsNone : e₂.bs.isSome = e₁.bs.isSome
  bs : ∀ k ∈ st.bsQueries, ∀ p₁ p₂, e₁.bs = some p₁ → e₂.bs = some p₂ → p₂.get k = p₁.get k

theorem AgreeOn.refl (e : Env) (st : St) : AgreeOn e e st :=
  ⟨fun _ _ => rfl, fun _ _ => rfl, rfl, fun _ _ p₁ p₂ h₁ h₂ => by rw [h₁] at h₂; cases h₂; rfl⟩

/-- Agreement on the lookups of a later state gives agreement on those of an earlier one. -/
theorem AgreeOn.of_extends {e₁ e₂ : Env} {a b : St} (h : Extends a b) (hb : AgreeOn e₁ e₂ b) :
    AgreeOn e₁ e₂ a :=
  ⟨fun k hk => hb.flags k (h.flagLookups.subset hk), fun k hk => hb.segs k (h.segLookups.subset hk),
    hb.bsNone, fun k hk => hb.bs k (h.bsQueries.subset hk)⟩

theorem AgreeOn.of_reach {e e₁ e₂ : Env} {a b : St} (h : Reach e a b) (hb : AgreeOn e₁ e₂ b) :
    AgreeOn e₁ e₂ a := hb.of_extends h.extends

theorem Extends.setStatus (st : St) (x : Option Status) : Extends st { st with status := x } :=
  ⟨List.prefix_rfl, List.prefix_rfl, List.prefix_rfl, List.prefix_rfl, List.prefix_rfl,
    List.prefix_rfl, List.prefix_rfl⟩

theorem Extends.addEvent (st : St) (ev : Event) :
    Extends st { st with events := st.events ++ [ev] } :=
  ⟨List.prefix_append _ _, List.prefix_rfl, List.prefix_rfl, List.prefix_rfl, List.prefix_rfl,
    List.prefix_rfl, List.prefix_rfl⟩

theorem Extends.addMemCheck (st : St) (c : String × String) :
    Extends st { st with memChecks := st.memChecks ++ [c] } :=
  ⟨List.prefix_rfl, List.prefix_rfl, List.prefix_rfl, List.prefix_rfl, List.prefix_rfl,
    List.prefix_append _ _, List.prefix_rfl⟩

/-- `rec₂` (run in `e₂`) repeats `rec₁` (run in `e₁`) whenever the two environments agree on what
the run of `rec₁` looked up. -/
def SegRecExt (e₁ e₂ : Env) (rec₁ rec₂ : SegRec) : Prop :=
  ∀ seg chain st, AgreeOn e₁ e₂ (rec₁ seg chain st).2 → rec₂ seg chain st = rec₁ seg chain st

def FlagRecExt (e₁ e₂ : Env) (rec₁ rec₂ : FlagRec) : Prop :=
  ∀ f chain st, AgreeOn e₁ e₂ (rec₁ f chain st).2 → rec₂ f chain st = rec₁ f chain st

/-- The lookup key of a `segmentMatch` value is recorded before anything else happens. -/
theorem segMatchValues_str_reach {rec : SegRec} {env : Env} (hrec : SegRecReach env rec)
    (negate : Bool) (chain : List String) (k : String) (vs : List J) (st : St) :
    Reach env { st with segLookups := st.segLookups ++ [k] }
      (segMatchValues rec env negate chain (.str k :: vs) st).2 := by
  simp only [segMatchValues]
  split
  · exact segMatchValues_reach hrec _ _ _ _
  · rename_i seg _
    have h2 := hrec seg chain { st with segLookups := st.segLookups ++ [k] }
    split
    · rename_i st2 heq; rw [heq] at h2; exact h2
    · rename_i st2 heq; rw [heq] at h2; exact h2.trans (segMatchValues_reach hrec _ _ _ _)
    · rename_i e st2 heq; rw [heq] at h2; exact h2
    · rename_i st2 heq; rw [heq] at h2; exact h2

section
variable {e : Env} {sto : Store} {bp : Option BSProvider}

theorem segMatchValues_ext {rec₁ rec₂ : SegRec} (hr : SegRecReach e rec₁)
    (hx : SegRecExt e (e.with sto bp) rec₁ rec₂) (negate : Bool) (chain : List String) :
    ∀ vs st, AgreeOn e (e.with sto bp) (segMatchValues rec₁ e negate chain vs st).2 →
      segMatchValues rec₂ (e.with sto bp) negate chain vs st =
        segMatchValues rec₁ e negate chain vs st := by
  intro vs
  induction vs with
  | nil => intro st _; rfl
  | cons v vs ih =>
    intro st hag
    cases v with
    | str k =>
      have hk : sto.findSegment k = e.store.findSegment k :=
        hag.segs k ((segMatchValues_str_reach hr negate chain k vs st).extends.segLookups.subset
          (by simp))
      simp only [segMatchValues, Env.with_store] at hag ⊢
      rw [hk]
      cases hf : e.store.findSegment k with
      | none => rw [hf] at hag; exact ih _ hag
      | some seg =>
        rw [hf] at hag
        simp only at hag ⊢
        have hx2 := hx seg chain { st with segLookups := st.segLookups ++ [k] }
        generalize rec₁ seg chain { st with segLookups := st.segLookups ++ [k] } = x
          at hag hx2 ⊢
        obtain ⟨out, st2⟩ := x
        simp only at hx2
        cases out with
        | oof => rw [hx2 hag]
        | err er => rw [hx2 hag]
        | ok b =>
          cases b with
          | true => rw [hx2 hag]
          | false =>
            rw [hx2 (hag.of_reach (segMatchValues_reach hr _ _ _ _))]
            exact ih _ hag
    | null => simp only [segMatchValues] at hag ⊢; exact ih _ hag
    | bool b => simp only [segMatchValues] at hag ⊢; exact ih _ hag
    | num q => simp only [segMatchValues] at hag ⊢; exact ih _ hag
    | arr xs => simp only [segMatchValues] at hag ⊢; exact ih _ hag
    | obj kvs => simp only [segMatchValues] at hag ⊢; exact ih _ hag
    | raw w => simp only [segMatchValues] at hag ⊢; exact ih _ hag

theorem clauseMatch_ext {rec₁ rec₂ : SegRec} (hr : SegRecReach e rec₁)
    (hx : SegRecExt e (e.with sto bp) rec₁ rec₂) (chain : List String) (c : Clause) (st : St)
    (hag : AgreeOn e (e.with sto bp) (clauseMatch rec₁ e chain c st).2) :
    clauseMatch rec₂ (e.with sto bp) chain c st = clauseMatch rec₁ e chain c st := by
  unfold clauseMatch at hag ⊢
  split
  · rename_i hop; rw [if_pos hop] at hag; exact segMatchValues_ext hr hx _ _ _ _ hag
  · rfl

theorem clausesMatch_ext {rec₁ rec₂ : SegRec} (hr : SegRecReach e rec₁)
    (hx : SegRecExt e (e.with sto bp) rec₁ rec₂) (chain : List String) :
    ∀ cs st, AgreeOn e (e.with sto bp) (clausesMatch rec₁ e chain cs st).2 →
      clausesMatch rec₂ (e.with sto bp) chain cs st = clausesMatch rec₁ e chain cs st := by
  intro cs
  induction cs with
  | nil => intro st _; rfl
  | cons c cs ih =>
    intro st hag
    simp only [clausesMatch] at hag ⊢
    have h1 := clauseMatch_ext hr hx chain c st
    generalize clauseMatch rec₁ e chain c st = x at hag h1 ⊢
    obtain ⟨out, st1⟩ := x
    simp only at h1
    cases out with
    | oof => rw [h1 hag]
    | err er => rw [h1 hag]
    | ok b =>
      cases b with
      | true =>
        rw [h1 (hag.of_reach (clausesMatch_reach hr _ _ _))]
        exact ih _ hag
      | false => rw [h1 hag]

theorem segRuleMatch_ext {rec₁ rec₂ : SegRec} (hr : SegRecReach e rec₁)
    (hx : SegRecExt e (e.with sto bp) rec₁ rec₂) (chain : List String) (key salt : String)
    (r : SegmentRule) (st : St)
    (hag : AgreeOn e (e.with sto bp) (segRuleMatch rec₁ e chain key salt r st).2) :
    segRuleMatch rec₂ (e.with sto bp) chain key salt r st =
      segRuleMatch rec₁ e chain key salt r st := by
  have h1 := clausesMatch_ext hr hx chain r.clauses st
  have h2 : (segRuleMatch rec₁ e chain key salt r st).2 = (clausesMatch rec₁ e chain r.clauses st).2 := by
    unfold segRuleMatch
    split
    · rename_i st1 heq
      rw [heq]
      split
      · rfl
      · split
        · rfl
        · split <;> rfl
    · rename_i st1 heq; rw [heq]
    · rfl
  rw [h2] at hag
  unfold segRuleMatch
  rw [h1 hag]
  rfl

theorem segRules_ext {rec₁ rec₂ : SegRec} (hr : SegRecReach e rec₁)
    (hx : SegRecExt e (e.with sto bp) rec₁ rec₂) (chain : List String) (s : Segment) :
    ∀ rs st, AgreeOn e (e.with sto bp) (segRules rec₁ e chain s rs st).2 →
      segRules rec₂ (e.with sto bp) chain s rs st = segRules rec₁ e chain s rs st := by
  intro rs
  induction rs with
  | nil => intro st _; rfl
  | cons r rs ih =>
    intro st hag
    simp only [segRules] at hag ⊢
    have h1 := segRuleMatch_ext hr hx chain s.key s.salt r st
    generalize segRuleMatch rec₁ e chain s.key s.salt r st = x at hag h1 ⊢
    obtain ⟨out, st1⟩ := x
    simp only at h1
    cases out with
    | oof => rw [h1 hag]
    | err er => rw [h1 hag]
    | ok b =>
      cases b with
      | true => rw [h1 hag]
      | false =>
        rw [h1 (hag.of_reach (segRules_reach hr _ _ _ _))]
        exact ih _ hag

/-- A membership lookup is answered from the per-call cache or from the provider's answer to the
queried key — nothing else of the provider is read. -/
theorem bigSegMembership_ext (key : String) (st : St)
    (hag : AgreeOn e (e.with sto bp) (bigSegMembership e key st).2) :
    bigSegMembership (e.with sto bp) key st = bigSegMembership e key st := by
  unfold bigSegMembership at hag ⊢
  simp only [Env.with_bs]
  cases hc : st.cache.lookup key with
  | some m => rfl
  | none =>
    rw [hc] at hag
    simp only at hag ⊢
    have hn : bp.isSome = e.bs.isSome := hag.bsNone
    cases hb : e.bs with
    | none =>
      rw [hb] at hn
      cases bp with
      | none => rfl
      | some p₂ => cases hn
    | some p₁ =>
      rw [hb] at hn hag
      cases bp with
      | none => cases hn
      | some p₂ =>
        simp only at hag ⊢
        have hk : p₂.get key = p₁.get key := hag.bs key (by simp) p₁ p₂ hb rfl
        rw [hk]

theorem segBody_ext {rec₁ rec₂ : SegRec} (hr : SegRecReach e rec₁)
    (hx : SegRecExt e (e.with sto bp) rec₁ rec₂) (s : Segment) (chain : List String) (st : St)
    (hag : AgreeOn e (e.with sto bp) (segBody rec₁ e s chain st).2) :
    segBody rec₂ (e.with sto bp) s chain st = segBody rec₁ e s chain st := by
  unfold segBody at hag ⊢
  simp only [Env.with_ctx]
  split
  · rfl
  · rename_i hc
    rw [if_neg hc] at hag
    simp only at hag ⊢
    split
    · rename_i hu
      rw [if_pos hu] at hag
      split
      · rfl
      · split
        · rfl
        · rename_i key hkey
          simp only [*] at hag
          have hx1 := bigSegMembership_ext (e := e) (sto := sto) (bp := bp) key st
          generalize bigSegMembership e key st = x at hag hx1 ⊢
          obtain ⟨m, st1⟩ := x
          simp only at hag hx1 ⊢
          cases m with
          | none =>
            simp only at hag
            rw [hx1 (hag.of_reach (segRules_reach hr _ _ _ _))]
            exact segRules_ext hr hx _ _ _ _ hag
          | some tbl =>
            simp only at hag
            cases hl : tbl.lookup (bigSegmentRef s) with
            | some v =>
              rw [hl] at hag
              simp only at hag
              rw [hx1 (hag.of_extends (Extends.addMemCheck _ _))]
              simp only [hl]
            | none =>
              rw [hl] at hag
              simp only at hag
              rw [hx1 (hag.of_extends ((Extends.addMemCheck _ _).trans
                (segRules_reach hr _ _ _ _).extends))]
              simp only [hl]
              exact segRules_ext hr hx _ _ _ _ hag
    · rename_i hu
      rw [if_neg hu] at hag
      split
      · rfl
      · rename_i hl; simp only [hl] at hag; exact segRules_ext hr hx _ _ _ _ hag

/-- A segment test reads the store and the provider only through the answers it records. -/
theorem segContains_ext (n : Nat) :
    SegRecExt e (e.with sto bp) (segContains n e) (segContains n (e.with sto bp)) := by
  induction n with
  | zero => intro s chain st _; rfl
  | succ n ih =>
    intro s chain st hag
    exact segBody_ext (segContains_reach n e) ih s chain st hag

/-! ### Flags -/

theorem logErr_with (k : String) (er : EvalErr) (st : St) :
    logErr (e.with sto bp) k er st = logErr e k er st := rfl

theorem getVariation_with (f : Flag) (i : Int) (r : Reason) (st : St) :
    getVariation (e.with sto bp) f i r st = getVariation e f i r st := rfl

theorem getOffValue_with (f : Flag) (r : Reason) (st : St) :
    getOffValue (e.with sto bp) f r st = getOffValue e f r st := rfl

theorem variationOrRollout_with (vr : VariationOrRollout) (key salt : String) :
    variationOrRollout (e.with sto bp) vr key salt = variationOrRollout e vr key salt := rfl

theorem getValueForVR_with (f : Flag) (vr : VariationOrRollout) (r : Reason) (st : St) :
    getValueForVR (e.with sto bp) f vr r st = getValueForVR e f vr r st := rfl

/-- The lookup key of a prerequisite is recorded before anything else happens. -/
theorem prereqLoop_cons_reach {rec : FlagRec} {env : Env} (hrec : FlagRecReach env rec)
    (f : Flag) (chain : List String) (p : Prereq) (ps : List Prereq) (st : St) :
    Reach env { st with flagLookups := st.flagLookups ++ [p.key] }
      (prereqLoop rec env f chain (p :: ps) st).2 := by
  simp only [prereqLoop]
  split
  · exact .refl _
  · rename_i pf _
    split
    · exact logErr_reach _ _ _ _
    · have h2 := hrec pf chain { st with flagLookups := st.flagLookups ++ [p.key] }
      split
      · rename_i st2 heq; rw [heq] at h2; exact h2
      · rename_i d ok st2 heq
        rw [heq] at h2
        have h3 : Reach env { st with flagLookups := st.flagLookups ++ [p.key] }
            { st2 with status := updateStatus st.status st2.status } :=
          .step h2 (.mergeStatus st2 st.status)
        split
        · exact h3
        · split
          · split
            · rename_i hr
              exact .step h3 (.event _ _ hr)
            · exact h3
          · split
            · rename_i hr
              exact (Reach.step h3 (.event _ _ hr)).trans (prereqLoop_reach hrec _ _ _ _)
            · exact h3.trans (prereqLoop_reach hrec _ _ _ _)

theorem prereqLoop_ext {rec₁ rec₂ : FlagRec} (hr : FlagRecReach e rec₁)
    (hx : FlagRecExt e (e.with sto bp) rec₁ rec₂) (f : Flag) (chain : List String) :
    ∀ ps st, AgreeOn e (e.with sto bp) (prereqLoop rec₁ e f chain ps st).2 →
      prereqLoop rec₂ (e.with sto bp) f chain ps st = prereqLoop rec₁ e f chain ps st := by
  intro ps
  induction ps with
  | nil => intro st _; rfl
  | cons p ps ih =>
    intro st hag
    have hk : sto.findFlag p.key = e.store.findFlag p.key :=
      hag.flags _ ((prereqLoop_cons_reach hr f chain p ps st).extends.flagLookups.subset
        (by simp))
    simp only [prereqLoop, Env.with_store, Env.with_opts, logErr_with] at hag ⊢
    rw [hk]
    cases hf : e.store.findFlag p.key with
    | none => rfl
    | some pf =>
      rw [hf] at hag
      simp only at hag ⊢
      split
      · rfl
      · rename_i hc
        rw [if_neg hc] at hag
        have hx2 := hx pf chain { st with flagLookups := st.flagLookups ++ [p.key] }
        generalize rec₁ pf chain { st with flagLookups := st.flagLookups ++ [p.key] } = x
          at hag hx2 ⊢
        obtain ⟨out, st2⟩ := x
        simp only at hx2
        cases out with
        | oof => rw [hx2 hag]
        | done d ok =>
          simp only at hag
          have hst2 : AgreeOn e (e.with sto bp) st2 := by
            refine hag.of_extends ?_
            split
            · exact Extends.setStatus _ _
            · split
              · split
                · exact (Extends.setStatus _ _).trans (Extends.addEvent _ _)
                · exact Extends.setStatus _ _
              · split
                · exact ((Extends.setStatus _ _).trans (Extends.addEvent _ _)).trans
                    (prereqLoop_reach hr _ _ _ _).extends
                · exact (Extends.setStatus _ _).trans (prereqLoop_reach hr _ _ _ _).extends
          rw [hx2 hst2]
          simp only
          split
          · rfl
          · rename_i hok
            rw [if_neg hok] at hag
            split
            · rfl
            · rename_i hm; rw [if_neg hm] at hag; exact ih _ hag

theorem checkPrereqs_ext {rec₁ rec₂ : FlagRec} (hr : FlagRecReach e rec₁)
    (hx : FlagRecExt e (e.with sto bp) rec₁ rec₂) (f : Flag) (chain : List String) (st : St)
    (hag : AgreeOn e (e.with sto bp) (checkPrereqs rec₁ e f chain st).2) :
    checkPrereqs rec₂ (e.with sto bp) f chain st = checkPrereqs rec₁ e f chain st := by
  unfold checkPrereqs at hag ⊢
  split
  · rfl
  · rename_i he; rw [if_neg he] at hag; exact prereqLoop_ext hr hx _ _ _ _ hag

theorem rulesLoop_ext {seg₁ seg₂ : SegRec} (hr : SegRecReach e seg₁)
    (hx : SegRecExt e (e.with sto bp) seg₁ seg₂) (f : Flag) :
    ∀ rules i st, AgreeOn e (e.with sto bp) (rulesLoop seg₁ e f rules i st).2 →
      rulesLoop seg₂ (e.with sto bp) f rules i st = rulesLoop seg₁ e f rules i st := by
  intro rules
  induction rules with
  | nil => intro i st _; rfl
  | cons r rs ih =>
    intro i st hag
    simp only [rulesLoop, logErr_with, getValueForVR_with] at hag ⊢
    have h1 := clausesMatch_ext hr hx [] r.clauses st
    generalize clausesMatch seg₁ e [] r.clauses st = x at hag h1 ⊢
    obtain ⟨out, st1⟩ := x
    simp only at h1
    cases out with
    | oof => rw [h1 hag]
    | err er => rw [h1 (hag.of_reach (logErr_reach e _ _ _))]
    | ok b =>
      cases b with
      | true => rw [h1 (hag.of_reach (getValueForVR_reach e _ _ _ _))]
      | false =>
        rw [h1 (hag.of_reach (rulesLoop_reach hr _ _ _ _))]
        exact ih _ _ hag

theorem evalBody_ext {rec₁ rec₂ : FlagRec} {seg₁ seg₂ : SegRec} (hr : FlagRecReach e rec₁)
    (hx : FlagRecExt e (e.with sto bp) rec₁ rec₂) (hsr : SegRecReach e seg₁)
    (hsx : SegRecExt e (e.with sto bp) seg₁ seg₂) (f : Flag) (chain : List String) (st : St)
    (hag : AgreeOn e (e.with sto bp) (evalBody rec₁ seg₁ e f chain st).2) :
    evalBody rec₂ seg₂ (e.with sto bp) f chain st = evalBody rec₁ seg₁ e f chain st := by
  unfold evalBody at hag ⊢
  simp only [Env.with_ctx, getOffValue_with, getVariation_with]
  split
  · rfl
  · rename_i hon
    rw [if_neg hon] at hag
    have h1 := checkPrereqs_ext hr hx f chain st
    generalize checkPrereqs rec₁ e f chain st = x at hag h1 ⊢
    obtain ⟨out, st1⟩ := x
    simp only at h1
    cases out with
    | oof => rw [h1 hag]
    | malformed => rw [h1 hag]
    | failed k => rw [h1 (hag.of_reach (getOffValue_reach e _ _ _))]
    | ok =>
      simp only at hag
      cases hm : anyTargetMatch e.ctx f with
      | some v =>
        rw [hm] at hag
        rw [h1 (hag.of_reach (getVariation_reach e _ _ _ _))]
      | none =>
        rw [hm] at hag
        simp only at hag
        rw [h1 (hag.of_reach (rulesLoop_reach hsr _ _ _ _))]
        simp only
        exact rulesLoop_ext hsr hsx _ _ _ _ hag

end

/-- The evaluation of one flag (with its prerequisites and segments) reads the data store and the
big-segment provider only through the answers it records: replace them by ANY store and provider that
give the same answers on the recorded keys and the run — result, status, cache, events, log lines,
lookups, queries — is the same. -/
theorem evalFlag_store_ext (sf n : Nat) (e : Env) (s : Store) (b : Option BSProvider) :
    ∀ f chain st, AgreeOn e (e.with s b) (evalFlag sf n e f chain st).2 →
      evalFlag sf n (e.with s b) f chain st = evalFlag sf n e f chain st := by
  induction n with
  | zero => intro f chain st _; rfl
  | succ n ih =>
    intro f chain st hag
    exact evalBody_ext (evalFlag_reach sf n e) ih (segContains_reach sf e) (segContains_ext sf)
      f chain st hag

/-- `evaluate` is determined by the context and the run of `evalFlag` it makes. -/
theorem evaluate_congr {e e' : Env} (f : Flag) (hctx : e'.ctx = e.ctx)
    (h : evalFlag (segFuel e'.store) (flagFuel e'.store) e' f [] {} =
      evalFlag (segFuel e.store) (flagFuel e.store) e f [] {}) :
    evaluate e' f = evaluate e f := by
  unfold evaluate
  rw [hctx, h]

/-- For a valid context the recorded lookups of the observation are those of the state. -/
theorem evaluate_lookups {e : Env} (f : Flag) (h : e.ctx ≠ .invalid) :
    (evaluate e f).flagLookups =
        (evalFlag (segFuel e.store) (flagFuel e.store) e f [] {}).2.flagLookups ∧
    (evaluate e f).segLookups =
        (evalFlag (segFuel e.store) (flagFuel e.store) e f [] {}).2.segLookups ∧
    (evaluate e f).bsQueries =
        (evalFlag (segFuel e.store) (flagFuel e.store) e f [] {}).2.bsQueries := by
  unfold evaluate
  split
  · rename_i hc; exact absurd hc h
  · generalize evalFlag (segFuel e.store) (flagFuel e.store) e f [] {} = x
    obtain ⟨out, st⟩ := x
    exact ⟨rfl, rfl, rfl⟩

/-- **Extensionality of `evaluate` in the store and the provider.**  If a second store and provider
give the same answers as the first on the keys the first evaluation actually looked up
(`flagLookups`, `segLookups`, `bsQueries` of its observation), and a provider is configured in both
or in neither, the whole observation is the same: result, events, log lines, lookups, queries,
membership checks.  Nothing else of the data provider — other entries, their order, the number of
entries (which fixes the model's fuel) — can influence an evaluation. -/
theorem evaluate_store_ext (e : Env) (s : Store) (b : Option BSProvider) (f : Flag)
    (hf : ∀ k ∈ (evaluate e f).flagLookups, s.findFlag k = e.store.findFlag k)
    (hs : ∀ k ∈ (evaluate e f).segLookups, s.findSegment k = e.store.findSegment k)
    (hn : b.isSome = e.bs.isSome)
    (hb : ∀ k ∈ (evaluate e f).bsQueries, ∀ p₁ p₂, e.bs = some p₁ → b = some p₂ →
      p₂.get k = p₁.get k) :
    evaluate (e.with s b) f = evaluate e f := by
  by_cases hc : e.ctx = .invalid
  · unfold evaluate
    rw [Env.with_ctx, hc]
  · apply evaluate_congr f (Env.with_ctx e s b)
    obtain ⟨h1, h2, h3⟩ := evaluate_lookups f hc
    rw [h1] at hf; rw [h2] at hs; rw [h3] at hb
    have hag0 : AgreeOn e (e.with s b)
        (evalFlag (segFuel e.store) (flagFuel e.store) e f [] {}).2 := ⟨hf, hs, hn, hb⟩
    -- common fuel
    have hM1 : segFuel e.store ≤ max (segFuel s) (segFuel e.store) := Nat.le_max_right _ _
    have hM2 : segFuel (e.with s b).store ≤ max (segFuel s) (segFuel e.store) :=
      Nat.le_max_left _ _
    have hN1 : flagFuel e.store ≤ max (flagFuel s) (flagFuel e.store) := Nat.le_max_right _ _
    have hN2 : flagFuel (e.with s b).store ≤ max (flagFuel s) (flagFuel e.store) :=
      Nat.le_max_left _ _
    have e1 := evalFlag_fuel_irrelevant e f hM1 hN1
    have e2 := evalFlag_fuel_irrelevant (e.with s b) f hM2 hN2
    rw [← e1] at hag0
    rw [← e2, evalFlag_store_ext _ _ e s b f [] {} hag0, e1]

/-! ### Entries under other keys -/

theorem find?_surround {α : Type} (p : α → Bool) (pre l post : List α)
    (h : ∀ x ∈ pre ++ post, p x = false) : (pre ++ l ++ post).find? p = l.find? p := by
  have h1 : pre.find? p = none :=
    List.find?_eq_none.2 fun x hx => by simp [h x (List.mem_append_left _ hx)]
  have h2 : post.find? p = none :=
    List.find?_eq_none.2 fun x hx => by simp [h x (List.mem_append_right _ hx)]
  rw [List.find?_append, List.find?_append, h1, h2, Option.none_or, Option.or_none]

/-- Entries filed under other keys, before or after, do not change the answer for `k`. -/
theorem Store.findFlag_surround (s : Store) (pre post : List (String × Flag))
    (segs : List (String × Segment)) (k : String) (h : ∀ x ∈ pre ++ post, x.1 ≠ k) :
    ({ flags := pre ++ s.flags ++ post, segments := segs } : Store).findFlag k = s.findFlag k := by
  unfold Store.findFlag
  rw [find?_surround]
  intro x hx
  simpa using h x hx

theorem Store.findSegment_surround (s : Store) (pre post : List (String × Segment))
    (flags : List (String × Flag)) (k : String) (h : ∀ x ∈ pre ++ post, x.1 ≠ k) :
    ({ flags := flags, segments := pre ++ s.segments ++ post } : Store).findSegment k =
      s.findSegment k := by
  unfold Store.findSegment
  rw [find?_surround]
  intro x hx
  simpa using h x hx

end LD

/-
  Helper lemmas for the theorem audit of C16 / C17: the entry points of `Model/CodecEntry.lean`
  in closed form, in terms of the tree-level `Codec.readFlag` / `Codec.decodeFlag` (and the segment
  analogues).
-/
import LDEval.Proofs.CodecLemmas
import LDEval.Model.CodecEntry

namespace LD.Entry
open LD.Codec

/-- `readFeatureFlag` leaves the reader in its error state exactly when the tree-level reader
fails. -/
theorem readFeatureFlag_err_iff (pv : Partial) (doc : J) :
    (readFeatureFlag pv doc).err = true ↔ Codec.readFlag doc = .error () := by
  unfold readFeatureFlag
  cases h : readFlag doc with
  | error e => simp
  | ok f => simp

/-- The reader-level entry point on an accepted document: the decoder's flag, preprocessed, no
error in the reader. -/
theorem fromReader_ok (rx : RegexOracle) (pv : Partial) (doc : J) (f : Flag)
    (h : Codec.readFlag doc = .ok f) :
    unmarshalFeatureFlagFromReader rx pv doc = ⟨preprocessFlag rx f, false⟩ := by
  simp [unmarshalFeatureFlagFromReader, readFeatureFlag, h]

/-- The reader-level entry point on a rejected document: the half-built value exactly as
`readFeatureFlag` left it — `PreprocessFlag` is not applied — and the reader reports the error. -/
theorem fromReader_error (rx : RegexOracle) (pv : Partial) (doc : J)
    (h : Codec.readFlag doc = .error ()) :
    unmarshalFeatureFlagFromReader rx pv doc = ⟨pv.flag doc, true⟩ := by
  simp [unmarshalFeatureFlagFromReader, readFeatureFlag, h]

theorem fromReader_err_iff (rx : RegexOracle) (pv : Partial) (doc : J) :
    (unmarshalFeatureFlagFromReader rx pv doc).err = true ↔ Codec.readFlag doc = .error () := by
  cases h : readFlag doc with
  | error e => simp [fromReader_error rx pv doc h]
  | ok f => simp [fromReader_ok rx pv doc f h]

/-- `unmarshalFeatureFlagFromBytes` in one equation: the result of the model's `decodeFlag`
with, on error, the ZERO flag (whatever `readFeatureFlag` had half-built). -/
theorem fromBytes_eq (rx : RegexOracle) (pv : Partial) (data : J) :
    unmarshalFeatureFlagFromBytes rx pv data =
      match Codec.decodeFlag rx data with
      | .ok g => ⟨g, false⟩
      | .error _ => ⟨zeroFlag, true⟩ := by
  unfold unmarshalFeatureFlagFromBytes decodeFlag
  cases h : readFlag data with
  | error e => simp [fromReader_error rx pv data h]; rfl
  | ok f => simp [fromReader_ok rx pv data f h]; rfl

/-- The hook in one equation. -/
theorem hook_eq (rx : RegexOracle) (pv : Partial) (dest : Flag) (data : J) :
    FeatureFlag.unmarshalJSON rx pv dest data =
      match Codec.decodeFlag rx data with
      | .ok g => ⟨g, false⟩
      | .error _ => ⟨dest, true⟩ := by
  unfold FeatureFlag.unmarshalJSON
  rw [fromBytes_eq]
  cases decodeFlag rx data <;> rfl

theorem seg_fromReader_ok (rx : RegexOracle) (pv : Partial) (doc : J) (s : Segment)
    (h : Codec.readSegment doc = .ok s) :
    unmarshalSegmentFromReader rx pv doc = ⟨preprocessSegment rx s, false⟩ := by
  simp [unmarshalSegmentFromReader, readSegmentInto, h]

/-- On a rejected segment document the reader-level function returns the half-built segment, not
preprocessed. -/
theorem seg_fromReader_error (rx : RegexOracle) (pv : Partial) (doc : J)
    (h : Codec.readSegment doc = .error ()) :
    unmarshalSegmentFromReader rx pv doc = ⟨pv.segment doc, true⟩ := by
  simp [unmarshalSegmentFromReader, readSegmentInto, h]

theorem seg_fromBytes_eq (rx : RegexOracle) (pv : Partial) (data : J) :
    unmarshalSegmentFromBytes rx pv data =
      match Codec.decodeSegment rx data with
      | .ok g => ⟨g, false⟩
      | .error _ => ⟨zeroSegment, true⟩ := by
  unfold unmarshalSegmentFromBytes decodeSegment
  cases h : readSegment data with
  | error e => simp [seg_fromReader_error rx pv data h]; rfl
  | ok f => simp [seg_fromReader_ok rx pv data f h]; rfl

theorem seg_hook_eq (rx : RegexOracle) (pv : Partial) (dest : Segment) (data : J) :
    Segment.unmarshalJSON rx pv dest data =
      match Codec.decodeSegment rx data with
      | .ok g => ⟨g, false⟩
      | .error _ => ⟨dest, true⟩ := by
  unfold Segment.unmarshalJSON
  rw [seg_fromBytes_eq]
  cases decodeSegment rx data <;> rfl

/-- When does the tree-level reader reject an object?  Exactly when some member — the first one
whose handler fails on the accumulator built from the members before it — is of the wrong shape.
(With `non_object_rejected` this characterises every error of the flag decoder.) -/
theorem objLoop_error_iff {σ} (h : σ → String → J → Codec.D σ) (init : σ) (kvs : List (String × J)) :
    Codec.objLoop h init kvs = .error () ↔
      ∃ pre n v post a, kvs = pre ++ (n, v) :: post ∧ Codec.objLoop h init pre = .ok a ∧
        h a n v = .error () := by
  induction kvs generalizing init with
  | nil =>
    constructor
    · intro h'; cases h'
    · rintro ⟨pre, n, v, post, a, he, _⟩; cases pre <;> cases he
  | cons kv rest ih =>
    obtain ⟨n0, v0⟩ := kv
    rw [objLoop_cons]
    cases h0 : h init n0 v0 with
    | error e =>
      constructor
      · intro _; exact ⟨[], n0, v0, rest, init, rfl, rfl, h0⟩
      · intro _; rfl
    | ok s =>
      rw [D_ok_bind, ih]
      constructor
      · rintro ⟨pre, n, v, post, a, he, hp, hf⟩
        refine ⟨(n0, v0) :: pre, n, v, post, a, by rw [he]; rfl, ?_, hf⟩
        rw [objLoop_cons, h0, D_ok_bind, hp]
      · rintro ⟨pre, n, v, post, a, he, hp, hf⟩
        cases pre with
        | nil =>
          simp only [List.nil_append, List.cons.injEq, Prod.mk.injEq] at he
          obtain ⟨⟨rfl, rfl⟩, rfl⟩ := he
          cases hp
          rw [h0] at hf; cases hf
        | cons p pre' =>
          simp only [List.cons_append, List.cons.injEq] at he
          obtain ⟨rfl, rfl⟩ := he
          rw [objLoop_cons, h0, D_ok_bind] at hp
          exact ⟨pre', n, v, post, a, rfl, hp, hf⟩

end LD.Entry

/-
  LDEval.Proofs.AuditTrace — connects the abstract shared-memory machine of `Model/Trace.lean`
  (`Sys`, `step`, `exec`, `solo`, `ReadOnlyShared`, `Conflict`) with the evaluator model
  `LD.evaluate` (`Model/Eval.lean`).  (Theorem audit, finding C13 #44.)

  The evaluator model records, in its observation `Obs`, every read it makes of data that outlives the
  call: `flagLookups` (every `GetFeatureFlag`), `segLookups` (every `GetSegment`), `bsQueries` (every
  `GetMembership`), each in the order the reads happen; and it records what it appends to its per-call
  state `St`: `memChecks`, `events`, `logs` (plus the lookup traces themselves, the membership cache
  and the big-segments status).  Nothing else of the model is mutable.  `traceOf` turns this record
  into a program of the trace machine: a *read of a shared location* for each lookup/query, a *write
  to a location owned by the calling thread* for each update of the per-call state.  `sysOf` puts `N`
  such programs — the traces of `N` real evaluations `evaluate (envOf w c) c.flag`, for arbitrary
  flags, contexts and options, against one shared store and provider — side by side as the threads
  of one `Sys`.

  This file holds the definitions and the facts that need none of C13's general theorems
  (`sysOf_readOnlyShared`, `traceOf_reads`, the decoding of the initial memory).  The theorems that
  combine them with `no_conflict`, `shared_unchanged`, `complete_run_sequential`, … are at the end of
  `Properties/C13.lean`; the limits of the connection are spelled out there.
-/
import LDEval.Model.Eval
import LDEval.Model.Trace
import Mathlib.Data.Nat.Pairing

namespace LD.Trace

/-! ### The world shared by all concurrent calls -/

/-- What all concurrent `Evaluate` calls share: the data provider's content, the big-segment
provider, and a finite universe `keys` of lookup keys (it only serves to number the shared
locations; `World.covering` builds one that is large enough for a given list of calls). -/
structure World where
  store : Store
  bs : Option BSProvider
  keys : List String

/-- The inputs of one `Evaluate` call that are its own (everything but the shared world). -/
structure CallIn where
  opts : Opts
  ctx : Ctx
  rx : RegexOracle
  flag : Flag

/-- The environment of call `c` in world `w`. -/
def envOf (w : World) (c : CallIn) : Env := ⟨c.opts, w.store, w.bs, c.ctx, c.rx⟩

/-- The observation of the (real, model) evaluation of call `c` in world `w`. -/
def obsOf (w : World) (c : CallIn) : Obs := evaluate (envOf w c) c.flag

/-! ### Locations

Even locations are shared (three per key: the flag, the segment and the big-segment membership filed
under that key), odd locations are private: `priv t j` is slot `j` of thread `t`.  The seven slots
of a thread are the fields of its per-call state `St`:
`0` flagLookups, `1` segLookups, `2` bsQueries + membership cache, `3` status, `4` memChecks,
`5` events, `6` logs. -/

def flagLoc (w : World) (k : String) : Loc := 2 * (3 * w.keys.idxOf k)
def segLoc (w : World) (k : String) : Loc := 2 * (3 * w.keys.idxOf k + 1)
def bsLoc (w : World) (k : String) : Loc := 2 * (3 * w.keys.idxOf k + 2)

/-- Slot `j` of the per-call state of thread `t`. -/
def priv (t : Tid) (j : Nat) : Loc := 2 * Nat.pair t j + 1

def sharedLoc (l : Loc) : Bool := l % 2 == 0
def ownerLoc (l : Loc) : Tid := (Nat.unpair (l / 2)).1

theorem shared_even (x : Nat) : sharedLoc (2 * x) = true := by
  unfold sharedLoc; rw [Nat.mul_mod_right]; rfl

theorem shared_flagLoc (w : World) (k : String) : sharedLoc (flagLoc w k) = true := shared_even _
theorem shared_segLoc (w : World) (k : String) : sharedLoc (segLoc w k) = true := shared_even _
theorem shared_bsLoc (w : World) (k : String) : sharedLoc (bsLoc w k) = true := shared_even _

theorem shared_priv (t : Tid) (j : Nat) : sharedLoc (priv t j) = false := by
  have : (2 * Nat.pair t j + 1) % 2 = 1 := by omega
  simp only [sharedLoc, priv, this]; rfl

theorem owner_priv (t : Tid) (j : Nat) : ownerLoc (priv t j) = t := by
  have : (2 * Nat.pair t j + 1) / 2 = Nat.pair t j := by omega
  simp only [ownerLoc, priv, this, Nat.unpair_pair]

/-- Private slots of different threads, or different slots of one thread, are different
locations. -/
theorem priv_injective {t t' : Tid} {j j' : Nat} (h : priv t j = priv t' j') : t = t' ∧ j = j' := by
  have h2 : 2 * Nat.pair t j + 1 = 2 * Nat.pair t' j' + 1 := h
  have h' : Nat.pair t j = Nat.pair t' j' := by omega
  exact Nat.pair_eq_pair.mp h'

/-! ### The initial memory: what the store and the provider answer -/

/-- Position (plus one) of the first entry of an association list filed under `k`; `0` = none.  This
is the *identity* of the item a lookup returns. -/
def idxVal {α : Type} (l : List (String × α)) (k : String) : Val :=
  match l.findIdx? (·.1 == k) with
  | none => 0
  | some i => i + 1

/-- The item a value of the memory stands for. -/
def decodeVal {α : Type} (l : List (String × α)) : Val → Option α
  | 0 => none
  | i + 1 => l[i]?.map (·.2)

/-- The content of the shared location of flag key `k`: which entry `GetFeatureFlag k` returns. -/
def valFlag (w : World) (k : String) : Val := idxVal w.store.flags k
/-- The content of the shared location of segment key `k`: which entry `GetSegment k` returns. -/
def valSeg (w : World) (k : String) : Val := idxVal w.store.segments k
/-- The content of the shared location of context key `k`: which table entry `GetMembership k`
returns (`0` = the provider's default answer, or no provider). -/
def valBs (w : World) (k : String) : Val :=
  match w.bs with
  | none => 0
  | some p => idxVal p.table k

theorem decodeVal_idxVal {α : Type} (l : List (String × α)) (k : String) :
    decodeVal l (idxVal l k) = (l.find? (·.1 == k)).map (·.2) := by
  induction l with
  | nil => rfl
  | cons e l ih =>
    by_cases he : (e.1 == k) = true
    · simp only [idxVal, List.findIdx?_cons, he, if_true, List.find?_cons]
      rfl
    · have he' : (e.1 == k) = false := by simpa using he
      simp only [idxVal, List.findIdx?_cons, he', Bool.false_eq_true, if_false,
        List.find?_cons] at ih ⊢
      cases hi : List.findIdx? (fun x => x.1 == k) l with
      | none => rw [hi] at ih; simpa [decodeVal] using ih
      | some i =>
        rw [hi] at ih
        simpa [decodeVal] using ih

/-- The value stored at a flag location determines the store's answer: reading it *is* the lookup.
For the Go code: the data a `GetFeatureFlag(k)` call returns is a function of the store content at
that key only. -/
theorem findFlag_eq_decode (w : World) (k : String) :
    w.store.findFlag k = decodeVal w.store.flags (valFlag w k) :=
  (decodeVal_idxVal _ _).symm

/-- Same for `GetSegment`. -/
theorem findSegment_eq_decode (w : World) (k : String) :
    w.store.findSegment k = decodeVal w.store.segments (valSeg w k) :=
  (decodeVal_idxVal _ _).symm

theorem lookup_eq_find {α : Type} (l : List (String × α)) (k : String) :
    l.lookup k = (l.find? (·.1 == k)).map (·.2) := by
  induction l with
  | nil => rfl
  | cons e l ih =>
    obtain ⟨a, b⟩ := e
    by_cases he : a = k
    · subst he; simp
    · have h1 : (k == a) = false := by simpa using fun h => he h.symm
      have h2 : (a == k) = false := by simpa using he
      simp only [List.lookup_cons, h1, List.find?_cons, h2]
      exact ih

/-- Same for `GetMembership`: the answer of provider `p` is determined by the value of the
big-segment location (and the provider's default). -/
theorem bsGet_eq_decode (w : World) (p : BSProvider) (hp : w.bs = some p) (k : String) :
    p.get k = (decodeVal p.table (valBs w k)).getD p.dflt := by
  simp only [BSProvider.get, valBs, hp, decodeVal_idxVal, lookup_eq_find]

/-- The memory all calls start from: location `2*(3*i+c)` holds the answer for key `w.keys[i]` of the
store's flag table (`c = 0`), segment table (`c = 1`) or of the big-segment provider (`c = 2`);
every private location holds `0`. -/
def initOf (w : World) (l : Loc) : Val :=
  if l % 2 = 0 then
    match w.keys[l / 2 / 3]? with
    | none => 0
    | some k =>
      if l / 2 % 3 = 0 then valFlag w k
      else if l / 2 % 3 = 1 then valSeg w k
      else valBs w k
  else 0

theorem getElem?_idxOf_keys {l : List String} {k : String} (hk : k ∈ l) :
    l[l.idxOf k]? = some k := by
  have h := List.idxOf_lt_length_iff.mpr hk
  rw [List.getElem?_eq_getElem h, List.getElem_idxOf h]

theorem initOf_flagLoc (w : World) {k : String} (hk : k ∈ w.keys) :
    initOf w (flagLoc w k) = valFlag w k := by
  have h1 : (2 * (3 * w.keys.idxOf k)) % 2 = 0 := by omega
  have h2 : 2 * (3 * w.keys.idxOf k) / 2 / 3 = w.keys.idxOf k := by omega
  have h3 : 2 * (3 * w.keys.idxOf k) / 2 % 3 = 0 := by omega
  simp only [initOf, flagLoc, h1, h2, h3, if_true, getElem?_idxOf_keys hk]

theorem initOf_segLoc (w : World) {k : String} (hk : k ∈ w.keys) :
    initOf w (segLoc w k) = valSeg w k := by
  have h1 : (2 * (3 * w.keys.idxOf k + 1)) % 2 = 0 := by omega
  have h2 : 2 * (3 * w.keys.idxOf k + 1) / 2 / 3 = w.keys.idxOf k := by omega
  have h3 : 2 * (3 * w.keys.idxOf k + 1) / 2 % 3 = 1 := by omega
  simp only [initOf, segLoc, h1, h2, h3, if_true, getElem?_idxOf_keys hk]
  simp

theorem initOf_bsLoc (w : World) {k : String} (hk : k ∈ w.keys) :
    initOf w (bsLoc w k) = valBs w k := by
  have h1 : (2 * (3 * w.keys.idxOf k + 2)) % 2 = 0 := by omega
  have h2 : 2 * (3 * w.keys.idxOf k + 2) / 2 / 3 = w.keys.idxOf k := by omega
  have h3 : 2 * (3 * w.keys.idxOf k + 2) / 2 % 3 = 2 := by omega
  simp only [initOf, bsLoc, h1, h2, h3, if_true, getElem?_idxOf_keys hk]
  simp

/-- Private locations start at `0` (a fresh per-call state). -/
theorem initOf_priv (w : World) (t : Tid) (j : Nat) : initOf w (priv t j) = 0 := by
  have : (2 * Nat.pair t j + 1) % 2 ≠ 0 := by omega
  unfold initOf priv; rw [if_neg this]

/-! ### The trace of an evaluation -/

/-- The memory accesses of one evaluation, as a function of its observation and of the thread that
runs it.  Each flag lookup is a write to the thread's own lookup trace followed by a read of the
flag's shared location; likewise for segments; each big-segment query is a read of the provider
followed by writes to the thread's cache and status; each membership check, event and log line is
a write to the thread's own state.  The written values are immaterial (`1`).

`Obs` keeps the order of the accesses *within* each class but not *between* classes (it does not say
whether the second flag lookup came before the first segment lookup), so `traceOf` lists the classes
one after the other.  None of the theorems depends on the order of the ops of a thread: the
discipline, the absence of conflicts and the set/sequence of values read per class are all
order-insensitive in this sense. -/
def traceOf (w : World) (t : Tid) (o : Obs) : List Op :=
  o.flagLookups.flatMap (fun k => [.write (priv t 0) 1, .read (flagLoc w k)]) ++
  o.segLookups.flatMap (fun k => [.write (priv t 1) 1, .read (segLoc w k)]) ++
  o.bsQueries.flatMap (fun k => [.read (bsLoc w k), .write (priv t 2) 1, .write (priv t 3) 1]) ++
  o.memChecks.map (fun _ => .write (priv t 4) 1) ++
  o.events.map (fun _ => .write (priv t 5) 1) ++
  o.logs.map (fun _ => .write (priv t 6) 1)

/-- The system of `calls.length` concurrent evaluations in world `w`: thread `t` runs the trace of
the model evaluation of `calls[t]`. -/
def sysOf (w : World) (calls : List CallIn) : Sys where
  progs := fun t =>
    match calls[t]? with
    | some c => traceOf w t (obsOf w c)
    | none => []
  shared := sharedLoc
  owner := ownerLoc

theorem sysOf_progs_some (w : World) {calls : List CallIn} {t : Tid} {c : CallIn}
    (h : calls[t]? = some c) : (sysOf w calls).progs t = traceOf w t (obsOf w c) := by
  simp only [sysOf, h]

/-- An access allowed to thread `t`: a read of a shared location or a write to a private location
owned by `t`. -/
def Disciplined (t : Tid) : Op → Prop
  | .read l => sharedLoc l = true
  | .write l _ => sharedLoc l = false ∧ ownerLoc l = t

/-- Every access of the trace of an evaluation — any observation whatsoever — is a read of a shared
location or a write to a private location of the evaluating thread.  For the Go code: the model of
`Evaluate` never writes anything but its own `evaluationScope`, and reads of the store and of the
provider are all it does to the outside. -/
theorem traceOf_disciplined (w : World) (t : Tid) (o : Obs) :
    ∀ op ∈ traceOf w t o, Disciplined t op := by
  intro op hop
  simp only [traceOf, List.mem_append, List.mem_flatMap, List.mem_map, List.mem_cons,
    List.not_mem_nil, or_false] at hop
  rcases hop with ((((⟨k, _, rfl | rfl⟩ | ⟨k, _, rfl | rfl⟩) | ⟨k, _, rfl | rfl | rfl⟩) |
    ⟨_, _, rfl⟩) | ⟨_, _, rfl⟩) | ⟨_, _, rfl⟩
  · exact ⟨shared_priv t 0, owner_priv t 0⟩
  · exact shared_flagLoc w k
  · exact ⟨shared_priv t 1, owner_priv t 1⟩
  · exact shared_segLoc w k
  · exact shared_bsLoc w k
  · exact ⟨shared_priv t 2, owner_priv t 2⟩
  · exact ⟨shared_priv t 3, owner_priv t 3⟩
  · exact ⟨shared_priv t 4, owner_priv t 4⟩
  · exact ⟨shared_priv t 5, owner_priv t 5⟩
  · exact ⟨shared_priv t 6, owner_priv t 6⟩

/-- **The model of the evaluator obeys the read-only-sharing discipline**: for every world, every
number of concurrent calls and whatever their flags, contexts and options are, the system made of
the traces of the real (model) evaluations is `ReadOnlyShared`.  For the Go code: concurrent
`Evaluate` calls on one `Evaluator`, as modelled, only read the flags, segments and provider and
only write their own per-call scope. -/
theorem sysOf_readOnlyShared (w : World) (calls : List CallIn) : ReadOnlyShared (sysOf w calls) := by
  intro t op hop
  cases hc : calls[t]? with
  | none => simp only [sysOf, hc, List.not_mem_nil] at hop
  | some c =>
    rw [sysOf_progs_some w hc] at hop
    have hd := traceOf_disciplined w t _ op hop
    cases op with
    | read l => exact Or.inl hd
    | write l v => exact hd

/-- In the system of evaluations every thread reads shared locations only. -/
theorem sysOf_reads_shared (w : World) (calls : List CallIn) (t : Tid) (l : Loc)
    (h : Op.read l ∈ (sysOf w calls).progs t) : (sysOf w calls).shared l = true := by
  cases hc : calls[t]? with
  | none => simp only [sysOf, hc, List.not_mem_nil] at h
  | some c =>
    rw [sysOf_progs_some w hc] at h
    exact traceOf_disciplined w t _ _ h

/-! ### The reads of a trace -/

/-- The locations a program reads, in order. -/
def readsOf (p : List Op) : List Loc :=
  p.filterMap fun | .read l => some l | .write _ _ => none

theorem readsOf_append (p q : List Op) : readsOf (p ++ q) = readsOf p ++ readsOf q :=
  List.filterMap_append

theorem readsOf_writes {α : Type} (xs : List α) (l : Loc) (v : Val) :
    readsOf (xs.map fun _ => Op.write l v) = [] := by
  induction xs with
  | nil => rfl
  | cons x xs ih => simp [readsOf]

/-- The reads of the trace of an evaluation are exactly its lookups and queries: the flag locations
of `flagLookups`, the segment locations of `segLookups`, the provider locations of `bsQueries`.
For the Go code: the only data outliving the call that the model of `Evaluate` consults are the
flags/segments it asks the `DataProvider` for and the memberships it asks the
`BigSegmentProvider` for. -/
theorem traceOf_reads (w : World) (t : Tid) (o : Obs) :
    readsOf (traceOf w t o) =
      o.flagLookups.map (flagLoc w) ++ o.segLookups.map (segLoc w) ++ o.bsQueries.map (bsLoc w) := by
  have h1 : ∀ ks : List String,
      readsOf (ks.flatMap fun k => [Op.write (priv t 0) 1, Op.read (flagLoc w k)]) =
        ks.map (flagLoc w) := by
    intro ks
    induction ks with
    | nil => rfl
    | cons k ks ih => rw [List.flatMap_cons, readsOf_append, ih]; rfl
  have h2 : ∀ ks : List String,
      readsOf (ks.flatMap fun k => [Op.write (priv t 1) 1, Op.read (segLoc w k)]) =
        ks.map (segLoc w) := by
    intro ks
    induction ks with
    | nil => rfl
    | cons k ks ih => rw [List.flatMap_cons, readsOf_append, ih]; rfl
  have h3 : ∀ ks : List String,
      readsOf (ks.flatMap fun k =>
          [Op.read (bsLoc w k), Op.write (priv t 2) 1, Op.write (priv t 3) 1]) =
        ks.map (bsLoc w) := by
    intro ks
    induction ks with
    | nil => rfl
    | cons k ks ih => rw [List.flatMap_cons, readsOf_append, ih]; rfl
  simp only [traceOf, readsOf_append, h1, h2, h3, readsOf_writes, List.append_nil]

/-- The number of accesses of an evaluation. -/
theorem traceOf_length (w : World) (t : Tid) (o : Obs) :
    (traceOf w t o).length =
      2 * o.flagLookups.length + 2 * o.segLookups.length + 3 * o.bsQueries.length +
        o.memChecks.length + o.events.length + o.logs.length := by
  have h : ∀ {α : Type} (ks : List α) (f : α → List Op) (n : Nat), (∀ k, (f k).length = n) →
      (ks.flatMap f).length = n * ks.length := by
    intro α ks f n hf
    induction ks with
    | nil => rfl
    | cons k ks ih => rw [List.flatMap_cons, List.length_append, ih, hf, List.length_cons,
        Nat.mul_succ, Nat.add_comm]
  simp only [traceOf, List.length_append, List.length_map]
  rw [h _ _ 2 (fun _ => rfl), h _ _ 2 (fun _ => rfl), h _ _ 3 (fun _ => rfl)]

/-- What the shared memory answers to the reads of an evaluation whose keys lie in the universe:
the store's and the provider's answers, in the order of the lookups. -/
theorem map_initOf_reads (w : World) (t : Tid) (o : Obs)
    (hf : ∀ k ∈ o.flagLookups, k ∈ w.keys) (hs : ∀ k ∈ o.segLookups, k ∈ w.keys)
    (hb : ∀ k ∈ o.bsQueries, k ∈ w.keys) :
    (readsOf (traceOf w t o)).map (initOf w) =
      o.flagLookups.map (valFlag w) ++ o.segLookups.map (valSeg w) ++ o.bsQueries.map (valBs w) := by
  rw [traceOf_reads, List.map_append, List.map_append, List.map_map, List.map_map, List.map_map]
  congr 1
  · congr 1
    · exact List.map_congr_left fun k hk => initOf_flagLoc w (hf k hk)
    · exact List.map_congr_left fun k hk => initOf_segLoc w (hs k hk)
  · exact List.map_congr_left fun k hk => initOf_bsLoc w (hb k hk)

/-! ### A universe of keys that is always large enough -/

/-- All keys looked up by any of the calls (the observation of a call does not depend on `keys`, so
this is well defined). -/
def keysOf (store : Store) (bs : Option BSProvider) (calls : List CallIn) : List String :=
  calls.flatMap fun c =>
    let o := evaluate ⟨c.opts, store, bs, c.ctx, c.rx⟩ c.flag
    o.flagLookups ++ o.segLookups ++ o.bsQueries

/-- The world with the given store and provider whose key universe covers everything the given
calls look up. -/
def World.covering (store : Store) (bs : Option BSProvider) (calls : List CallIn) : World :=
  ⟨store, bs, keysOf store bs calls⟩

theorem covering_covers (store : Store) (bs : Option BSProvider) (calls : List CallIn)
    {t : Tid} {c : CallIn} (hc : calls[t]? = some c) :
    (∀ k ∈ (obsOf (World.covering store bs calls) c).flagLookups,
        k ∈ (World.covering store bs calls).keys) ∧
    (∀ k ∈ (obsOf (World.covering store bs calls) c).segLookups,
        k ∈ (World.covering store bs calls).keys) ∧
    (∀ k ∈ (obsOf (World.covering store bs calls) c).bsQueries,
        k ∈ (World.covering store bs calls).keys) := by
  have hmem : c ∈ calls := List.mem_of_getElem? hc
  refine ⟨?_, ?_, ?_⟩ <;> intro k hk <;>
  · simp only [World.covering, keysOf, List.mem_flatMap]
    refine ⟨c, hmem, ?_⟩
    simp only [List.mem_append]
    first
      | exact Or.inl (Or.inl hk)
      | exact Or.inl (Or.inr hk)
      | exact Or.inr hk

end LD.Trace

#print axioms LD.Trace.traceOf_disciplined
#print axioms LD.Trace.sysOf_readOnlyShared
#print axioms LD.Trace.traceOf_reads
#print axioms LD.Trace.map_initOf_reads
#print axioms LD.Trace.findFlag_eq_decode
#print axioms LD.Trace.bsGet_eq_decode
#print axioms LD.Trace.covering_covers

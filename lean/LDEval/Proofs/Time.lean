/-
  LDEval.Proofs.Time — correctness of the RFC 3339 parser model against the renderer of
  LDEval.Spec.TimeSpec, plus facts about `daysFromCivil` and `ofMillis`.
-/
import LDEval.Spec.TimeSpec

namespace LD.Time
open LD.Scan

/-! ### bytes -/

theorem isDigit_iff (b : UInt8) : isDigit b = true ↔ 48 ≤ b.toNat ∧ b.toNat ≤ 57 := by
  simp [isDigit, UInt8.le_iff_toNat_le]

/-- A predicate on bytes that no ASCII digit satisfies. -/
def NoDigit (p : UInt8 → Bool) : Prop := ∀ b, isDigit b = true → p b = false

theorem beq_lit_false {b : UInt8} {k : UInt8} (h : b.toNat ≠ k.toNat) : (b == k) = false := by
  rw [beq_eq_false_iff_ne]; intro e; exact h (by rw [e])

theorem c_hyphen : c '-' = 45 := by decide
theorem c_plus : c '+' = 43 := by decide
theorem c_dot : c '.' = 46 := by decide
theorem c_colon : c ':' = 58 := by decide
theorem c_T : c 'T' = 84 := by decide
theorem c_t : c 't' = 116 := by decide
theorem c_Z : c 'Z' = 90 := by decide
theorem c_z : c 'z' = 122 := by decide


theorem noDigit_isHyphen : NoDigit isHyphen := by
  intro b hb; rw [isDigit_iff] at hb
  simp only [isHyphen, c_hyphen]; apply beq_lit_false; simp; omega

theorem noDigit_isT : NoDigit isT := by
  intro b hb; rw [isDigit_iff] at hb
  simp only [isT, c_T, c_t, Bool.or_eq_false_iff]
  refine ⟨?_, ?_⟩ <;> apply beq_lit_false <;> simp <;> omega

theorem noDigit_isColon : NoDigit isColon := by
  intro b hb; rw [isDigit_iff] at hb
  simp only [isColon, c_colon]; apply beq_lit_false; simp; omega

theorem noDigit_isEndOfSeconds : NoDigit isEndOfSeconds := by
  intro b hb; rw [isDigit_iff] at hb
  simp only [isEndOfSeconds, c_dot, c_Z, c_z, c_plus, c_hyphen, Bool.or_eq_false_iff]
  refine ⟨⟨⟨⟨?_, ?_⟩, ?_⟩, ?_⟩, ?_⟩ <;> apply beq_lit_false <;> simp <;> omega

theorem noDigit_isEndOfFraction : NoDigit isEndOfFraction := by
  intro b hb; rw [isDigit_iff] at hb
  simp only [isEndOfFraction, c_Z, c_z, c_plus, c_hyphen, Bool.or_eq_false_iff]
  refine ⟨⟨⟨?_, ?_⟩, ?_⟩, ?_⟩ <;> apply beq_lit_false <;> simp <;> omega

theorem noDigit_noTerm : NoDigit noTerm := fun _ _ => rfl

/-- Digits are ASCII and non-NUL. -/
theorem digit_ascii {b : UInt8} (hb : isDigit b = true) : (b == 0 || b > 127) = false := by
  rw [isDigit_iff] at hb
  simp only [Bool.or_eq_false_iff, gt_iff_lt, decide_eq_false_iff_not, UInt8.not_lt]
  refine ⟨?_, ?_⟩
  · apply beq_lit_false; simp; omega
  · rw [UInt8.le_iff_toNat_le]; simp; omega

/-- A byte at which `readUntil` can stop as a terminator. -/
abbrev AsciiNZ (t : UInt8) : Prop := (t == 0 || t > 127) = false

/-! ### readUntil -/

theorem readUntil_digits_term {isTerm : UInt8 → Bool} (hnd : NoDigit isTerm)
    (ds : List UInt8) (hds : ds.all isDigit = true) (t : UInt8) (rest : List UInt8)
    (ht : isTerm t = true) (hta : AsciiNZ t) :
    readUntil isTerm (ds ++ t :: rest) = (ds, .ch t, rest) := by
  induction ds with
  | nil => simp only [List.nil_append, readUntil]; rw [hta]; simp [ht]
  | cons d ds ih =>
    simp only [List.all_cons, Bool.and_eq_true] at hds
    simp only [List.cons_append, readUntil]
    rw [digit_ascii hds.1, hnd d hds.1, ih hds.2]; simp

theorem readUntil_digits_eof {isTerm : UInt8 → Bool} (hnd : NoDigit isTerm)
    (ds : List UInt8) (hds : ds.all isDigit = true) :
    readUntil isTerm ds = (ds, .eof, []) := by
  induction ds with
  | nil => rfl
  | cons d ds ih =>
    simp only [List.all_cons, Bool.and_eq_true] at hds
    simp only [readUntil]
    rw [digit_ascii hds.1, hnd d hds.1, ih hds.2]; simp


/-! ### digitsN, digitsVal, parsePositive -/

theorem digitsN_length (w n : Nat) : (digitsN w n).length = w := by
  induction w generalizing n with
  | zero => rfl
  | succ w ih => simp [digitsN, ih]

theorem digitChar_toNat (n : Nat) : (UInt8.ofNat (48 + n % 10)).toNat = 48 + n % 10 := by
  simp only [UInt8.toNat_ofNat']; omega

theorem digitsN_all_digit (w n : Nat) : (digitsN w n).all isDigit = true := by
  induction w generalizing n with
  | zero => rfl
  | succ w ih =>
    simp only [digitsN, List.all_append, ih, List.all_cons, List.all_nil, Bool.and_true,
      Bool.true_and]
    rw [isDigit_iff, digitChar_toNat]; omega

theorem digitsVal_append (a b : List UInt8) (acc : Nat) :
    digitsVal (a ++ b) acc = digitsVal b (digitsVal a acc) := by
  induction a generalizing acc with
  | nil => rfl
  | cons x a ih => simp only [List.cons_append, digitsVal, ih]

theorem digitsVal_digitsN (w n : Nat) (h : n < 10 ^ w) : digitsVal (digitsN w n) 0 = n := by
  induction w generalizing n with
  | zero => simp at h; subst h; rfl
  | succ w ih =>
    have h' : n / 10 < 10 ^ w := by
      rw [Nat.pow_succ] at h; exact Nat.div_lt_of_lt_mul (by omega)
    simp only [digitsN, digitsVal_append, ih _ h', digitsVal, digitChar_toNat]; omega

theorem parsePositive_digits (ds : List UInt8) (hne : ds ≠ []) (hds : ds.all isDigit = true) :
    parsePositive ds = some (digitsVal ds 0) := by
  cases ds with
  | nil => exact absurd rfl hne
  | cons d ds => simp only [parsePositive, hds]; simp

theorem parsePositive_digitsN (w n : Nat) (hw : 0 < w) (h : n < 10 ^ w) :
    parsePositive (digitsN w n) = some n := by
  have hne : digitsN w n ≠ [] := by
    intro e; have := digitsN_length w n; rw [e] at this; simp at this; omega
  rw [parsePositive_digits _ hne (digitsN_all_digit w n), digitsVal_digitsN w n h]

/-! ### numField, fraction on rendered fields -/

theorem numField_digitsN {isTerm : UInt8 → Bool} (hnd : NoDigit isTerm) (eofOK : Bool)
    (minLen maxLen minV maxV w n : Nat) (t : UInt8) (rest : List UInt8)
    (hw : 0 < w) (hn : n < 10 ^ w) (hmin : minLen ≤ w) (hmax : w ≤ maxLen)
    (hv : minV ≤ n) (hV : n ≤ maxV) (ht : isTerm t = true) (hta : AsciiNZ t) :
    numField isTerm eofOK minLen maxLen minV maxV (digitsN w n ++ t :: rest)
      = some (n, .ch t, rest) := by
  have hne : (digitsN w n).isEmpty = false := by
    rw [List.isEmpty_eq_false_iff]
    intro e; have := digitsN_length w n; rw [e] at this; simp at this; omega
  unfold numField
  simp only [readUntil_digits_term hnd _ (digitsN_all_digit w n) t rest ht hta, hne,
    digitsN_length, parsePositive_digitsN w n hw hn, Term.isNeg]
  have h1 : ¬ (w < minLen) := by omega
  have h2 : ¬ (w > maxLen) := by omega
  have h3 : ¬ (n < minV) := by omega
  have h4 : ¬ (n > maxV) := by omega
  simp [h1, h2, h3, h4]

theorem numField_digitsN_eof {isTerm : UInt8 → Bool} (hnd : NoDigit isTerm)
    (minLen maxLen minV maxV w n : Nat)
    (hw : 0 < w) (hn : n < 10 ^ w) (hmin : minLen ≤ w) (hmax : w ≤ maxLen)
    (hv : minV ≤ n) (hV : n ≤ maxV) :
    numField isTerm true minLen maxLen minV maxV (digitsN w n) = some (n, .eof, []) := by
  have hne : (digitsN w n).isEmpty = false := by
    rw [List.isEmpty_eq_false_iff]
    intro e; have := digitsN_length w n; rw [e] at this; simp at this; omega
  unfold numField
  simp only [readUntil_digits_eof hnd _ (digitsN_all_digit w n), hne,
    digitsN_length, parsePositive_digitsN w n hw hn]
  have h1 : ¬ (w < minLen) := by omega
  have h2 : ¬ (w > maxLen) := by omega
  have h3 : ¬ (n < minV) := by omega
  have h4 : ¬ (n > maxV) := by omega
  simp [h1, h2, h3, h4]

theorem fraction_digits (ds : List UInt8) (hne : ds ≠ []) (hds : ds.all isDigit = true)
    (hlen : ds.length ≤ 9) (t : UInt8) (rest : List UInt8)
    (ht : isEndOfFraction t = true) (hta : AsciiNZ t) :
    fraction (ds ++ t :: rest) = some (digitsVal ds 0 * 10 ^ (9 - ds.length), .ch t, rest) := by
  unfold fraction
  simp only [readUntil_digits_term noDigit_isEndOfFraction ds hds t rest ht hta,
    parsePositive_digits ds hne hds, Term.isNeg]
  have h1 : ¬ (ds.length > 9) := by omega
  simp [h1]


/-! ### zone designator -/

theorem Term.is_ch (b : UInt8) (ch : Char) : Term.is (.ch b) ch = (b == c ch) := by
  simp only [Term.is, c]
  by_cases h : b = UInt8.ofNat ch.toNat
  · subst h; simp
  · have : (Term.ch b) ≠ Term.ch (UInt8.ofNat ch.toNat) := by
      intro e; exact h (Term.ch.inj e)
    rw [beq_eq_false_iff_ne.mpr this, beq_eq_false_iff_ne.mpr h]

theorem asciiNZ_colon : AsciiNZ (c ':') := by decide
theorem asciiNZ_hyphen : AsciiNZ (c '-') := by decide
theorem isColon_colon : isColon (c ':') = true := by decide
theorem isHyphen_hyphen : isHyphen (c '-') = true := by decide

theorem Zone.head_asciiNZ (z : Zone) : AsciiNZ z.head := by
  cases z with
  | utc l => cases l <;> simp only [Zone.head, ↓reduceIte, Bool.false_eq_true] <;> decide
  | offset p hh mm => cases p <;> simp only [Zone.head, ↓reduceIte, Bool.false_eq_true] <;> decide

theorem Zone.head_isEndOfFraction (z : Zone) : isEndOfFraction z.head = true := by
  cases z with
  | utc l => cases l <;> simp only [Zone.head, ↓reduceIte, Bool.false_eq_true] <;> decide
  | offset p hh mm => cases p <;> simp only [Zone.head, ↓reduceIte, Bool.false_eq_true] <;> decide

theorem Zone.head_isEndOfSeconds (z : Zone) : isEndOfSeconds z.head = true := by
  cases z with
  | utc l => cases l <;> simp only [Zone.head, ↓reduceIte, Bool.false_eq_true] <;> decide
  | offset p hh mm => cases p <;> simp only [Zone.head, ↓reduceIte, Bool.false_eq_true] <;> decide

theorem Zone.head_not_dot (z : Zone) : Term.is (.ch z.head) '.' = false := by
  rw [Term.is_ch]
  cases z with
  | utc l => cases l <;> simp only [Zone.head, ↓reduceIte, Bool.false_eq_true] <;> decide
  | offset p hh mm => cases p <;> simp only [Zone.head, ↓reduceIte, Bool.false_eq_true] <;> decide

/-- The parser's offset "to add" is minus the zone's offset east of UTC. -/
theorem tzOffset_zone (z : Zone) (hz : z.Valid) :
    tzOffset (.ch z.head) z.rest = some (- z.offsetSeconds) := by
  cases z with
  | utc l =>
    have h : (Term.is (.ch (Zone.utc l).head) '+' || Term.is (.ch (Zone.utc l).head) '-') = false := by
      rw [Term.is_ch, Term.is_ch]; cases l <;> simp only [Zone.head, ↓reduceIte, Bool.false_eq_true] <;> decide
    unfold tzOffset; rw [h]; simp [Zone.offsetSeconds]
  | offset p hh mm =>
    obtain ⟨hh99, mm59⟩ := hz
    have h : (Term.is (.ch (Zone.offset p hh mm).head) '+'
        || Term.is (.ch (Zone.offset p hh mm).head) '-') = true := by
      rw [Term.is_ch, Term.is_ch]; cases p <;> simp only [Zone.head, ↓reduceIte, Bool.false_eq_true] <;> decide
    have hp : Term.is (.ch (Zone.offset p hh mm).head) '+' = p := by
      rw [Term.is_ch]; cases p <;> simp only [Zone.head, ↓reduceIte, Bool.false_eq_true] <;> decide
    unfold tzOffset; rw [h, hp]
    simp only [Zone.rest, if_true]
    rw [numField_digitsN noDigit_isColon false 2 2 0 99 2 hh (c ':') _ (by omega) (by omega)
      (by omega) (by omega) (by omega) hh99 isColon_colon asciiNZ_colon]
    simp only []
    rw [numField_digitsN_eof noDigit_noTerm 2 2 0 59 2 mm (by omega) (by omega)
      (by omega) (by omega) (by omega) mm59]
    simp only [Zone.offsetSeconds]
    cases p <;> simp <;> omega


/-! ### T1: the main theorem -/

theorem Stamp.tSep_isT (s : Stamp) : isT s.tSep = true := by
  unfold Stamp.tSep; cases s.tLower <;> simp only [↓reduceIte, Bool.false_eq_true] <;> decide

theorem Stamp.tSep_asciiNZ (s : Stamp) : AsciiNZ s.tSep := by
  unfold Stamp.tSep; cases s.tLower <;> simp only [↓reduceIte, Bool.false_eq_true] <;> decide

theorem asciiNZ_dot : AsciiNZ (c '.') := by decide
theorem isEndOfSeconds_dot : isEndOfSeconds (c '.') = true := by decide
theorem dot_is_dot : Term.is (.ch (c '.')) '.' = true := by decide

/-- The rendering with the zone designator's tail (what follows `Z`/`z`/`+`/`-`) replaced by
arbitrary bytes.  `s.render = s.renderWith s.zone.rest` by definition. -/
def Stamp.renderWith (s : Stamp) (ztail : List UInt8) : List UInt8 :=
  digitsN 4 s.year ++ c '-' :: (digitsN 2 s.month ++ c '-' :: (digitsN 2 s.day ++ s.tSep ::
    (digitsN (if s.hour1 then 1 else 2) s.hour ++ c ':' :: (digitsN 2 s.minute ++ c ':' ::
      (digitsN 2 s.second ++
        ((if s.frac = [] then [] else c '.' :: s.frac) ++ s.zone.head :: ztail))))))

theorem Stamp.render_eq_renderWith (s : Stamp) : s.render = s.renderWith s.zone.rest := rfl

/-- Everything up to and including the first byte of the zone designator is parsed as rendered;
the result is then decided by `tzOffset` on whatever follows. -/
theorem parse_renderWith (s : Stamp) (h : s.Valid) (ztail : List UInt8) (off : Int)
    (htz : tzOffset (.ch s.zone.head) ztail = some off) :
    parseBytes (s.renderWith ztail) =
      some (instant s.year s.month s.day s.hour s.minute s.second s.nanos + off * 1000000000) := by
  obtain ⟨hy, ⟨hm1, hm12⟩, ⟨hd1, hd31⟩, hh, hmi, hs, hfl, hfd, hz, hh1⟩ := h
  unfold parseBytes Stamp.renderWith
  rw [numField_digitsN noDigit_isHyphen false 4 4 0 9999 4 s.year (c '-') _ (by omega) (by omega)
    (by omega) (by omega) (by omega) hy isHyphen_hyphen asciiNZ_hyphen]
  simp only []
  rw [numField_digitsN noDigit_isHyphen false 2 2 1 12 2 s.month (c '-') _ (by omega) (by omega)
    (by omega) (by omega) hm1 hm12 isHyphen_hyphen asciiNZ_hyphen]
  simp only []
  rw [numField_digitsN noDigit_isT false 2 2 1 31 2 s.day s.tSep _ (by omega) (by omega)
    (by omega) (by omega) hd1 hd31 s.tSep_isT s.tSep_asciiNZ]
  simp only []
  have hhour : s.hour < 10 ^ (if s.hour1 = true then 1 else 2) := by
    cases h1 : s.hour1
    · simp; omega
    · have := hh1 h1; simp; omega
  rw [numField_digitsN noDigit_isColon false 1 2 0 23 (if s.hour1 = true then 1 else 2) s.hour
    (c ':') _ (by split <;> omega) hhour (by split <;> omega) (by split <;> omega) (by omega) hh
    isColon_colon asciiNZ_colon]
  simp only []
  rw [numField_digitsN noDigit_isColon false 2 2 0 59 2 s.minute (c ':') _ (by omega) (by omega)
    (by omega) (by omega) (by omega) hmi isColon_colon asciiNZ_colon]
  simp only []
  by_cases hf : s.frac = []
  · -- no fraction: the seconds are terminated by the zone designator
    simp only [hf, if_true, List.nil_append]
    rw [numField_digitsN noDigit_isEndOfSeconds false 2 2 0 60 2 s.second s.zone.head _ (by omega)
      (by omega) (by omega) (by omega) (by omega) hs s.zone.head_isEndOfSeconds
      s.zone.head_asciiNZ]
    simp only [s.zone.head_not_dot, Bool.false_eq_true, if_false]
    rw [htz]
    simp only [Stamp.nanos, hf, digitsVal, Nat.zero_mul]
  · -- fraction
    simp only [hf, if_false, List.cons_append]
    rw [numField_digitsN noDigit_isEndOfSeconds false 2 2 0 60 2 s.second (c '.') _ (by omega)
      (by omega) (by omega) (by omega) (by omega) hs isEndOfSeconds_dot asciiNZ_dot]
    simp only [dot_is_dot, if_true]
    rw [fraction_digits s.frac hf hfd hfl _ _ s.zone.head_isEndOfFraction s.zone.head_asciiNZ]
    simp only []
    rw [htz]
    simp only [Stamp.nanos]

/-- **T1.** Every valid RFC 3339 rendering — any offset up to ±99:59, 0–9 fraction digits, either
letter case for `T`/`Z`, years 0000–9999, one- or two-digit hour — parses to the instant it
denotes. -/
theorem parse_render (s : Stamp) (h : s.Valid) : parseBytes s.render = some s.denotes := by
  rw [s.render_eq_renderWith, parse_renderWith s h _ _ (tzOffset_zone _ h.2.2.2.2.2.2.2.2.1)]
  simp only [Stamp.denotes, Int.neg_mul, Int.sub_eq_add_neg]

/-- Corollary at the `valueToTimestamp` level: a string whose UTF-8 bytes are a valid rendering
converts to the instant denoted. -/
theorem valueToTimestamp_render (str : String) (s : Stamp) (h : s.Valid)
    (hb : str.toUTF8.toList = s.render) : valueToTimestamp (.str str) = some s.denotes := by
  simp only [valueToTimestamp, parseRFC3339, hb, parse_render s h]

/-- **Finding (faithful to parse_time.go).** After a `Z`/`z` designator the parser never looks at
the rest of the input: a valid UTC rendering followed by *arbitrary* bytes still parses, to the
same instant.  (By contrast, after `±hh:mm` trailing bytes are rejected, and every proper prefix
is rejected — `parse_proper_prefix_fails`.) -/
theorem parse_render_utc_trailing (s : Stamp) (h : s.Valid) (l : Bool) (hz : s.zone = .utc l)
    (junk : List UInt8) : parseBytes (s.render ++ junk) = some s.denotes := by
  have e : s.render ++ junk = s.renderWith junk := by
    simp only [Stamp.render, Stamp.renderWith, Stamp.renderTail, Zone.render, hz, Zone.rest,
      List.append_assoc, List.cons_append, List.nil_append]
  have htz : tzOffset (.ch s.zone.head) junk = some 0 := by
    have hh : (Term.is (.ch s.zone.head) '+' || Term.is (.ch s.zone.head) '-') = false := by
      rw [Term.is_ch, Term.is_ch, hz]
      cases l <;> simp only [Zone.head, ↓reduceIte, Bool.false_eq_true] <;> decide
    unfold tzOffset; rw [hh]; simp
  rw [e, parse_renderWith s h junk 0 htz]
  simp only [Stamp.denotes, hz, Zone.offsetSeconds, Int.zero_mul, Int.add_zero, Int.sub_zero]

/-! ### T3: totality (by construction) -/

theorem parse_total (inp : List UInt8) : parseBytes inp = none ∨ ∃ t, parseBytes inp = some t := by
  cases parseBytes inp with
  | none => exact Or.inl rfl
  | some t => exact Or.inr ⟨t, rfl⟩

/-! ### T4: epoch-millisecond operands -/

theorem ratTrunc_intCast (m : Int) : ratTrunc (m : Rat) = m := by
  unfold ratTrunc
  split
  · exact Rat.floor_intCast m
  · rw [← Rat.intCast_neg, Rat.floor_intCast]; omega

/-- **T4.** An integral epoch-millisecond operand in the int64 range denotes m·10⁶ ns. -/
theorem ofMillis_exact (m : Int) (h : int64Min ≤ m ∧ m ≤ int64Max) :
    ofMillis (m : Rat) = m * 1000000 := by
  unfold ofMillis goInt
  simp only [ratTrunc_intCast]
  have : ¬ (m < int64Min ∨ m > int64Max) := by unfold int64Min int64Max at *; omega
  rw [if_neg this]

theorem valueToTimestamp_millis (m : Int) (h : int64Min ≤ m ∧ m ≤ int64Max) :
    valueToTimestamp (.num (m : Rat)) = some (m * 1000000) := by
  simp only [valueToTimestamp, ofMillis_exact m h]

/-! ### T5/T6: the calendar formula -/

/-- **T5.** `daysFromCivil` is linear in the day. -/
theorem daysFromCivil_succ_day (y m d : Int) :
    daysFromCivil y m (d + 1) = daysFromCivil y m d + 1 := by
  unfold daysFromCivil; simp only []; omega

theorem daysFromCivil_epoch : daysFromCivil 1970 1 1 = 0 := by decide
theorem daysFromCivil_0001_01_01 : daysFromCivil 1 1 1 = -719162 := by decide
theorem daysFromCivil_9999_12_31 : daysFromCivil 9999 12 31 = 2932896 := by decide
theorem daysFromCivil_2000_03_01 : daysFromCivil 2000 3 1 = 11017 := by decide
theorem instant_zeroTime : instant 1 1 1 0 0 0 0 = zeroTime := by decide

/-- **T6.** Month continuity, for every year: the first of the next month is `daysInMonth` days
after the first of this month. -/
theorem daysFromCivil_succ_month (y m : Int) (h1 : 1 ≤ m) (h11 : m ≤ 11) :
    daysFromCivil y (m + 1) 1 = daysFromCivil y m 1 + daysInMonth y m := by
  have hm : m = 1 ∨ m = 2 ∨ m = 3 ∨ m = 4 ∨ m = 5 ∨ m = 6 ∨ m = 7 ∨ m = 8 ∨ m = 9 ∨ m = 10
      ∨ m = 11 := by omega
  rcases hm with rfl | rfl | rfl | rfl | rfl | rfl | rfl | rfl | rfl | rfl | rfl <;>
    simp only [daysFromCivil, daysInMonth, isLeapYear, Int.reduceAdd, Int.reduceLE, Int.reduceGT,
      Int.reduceSub, Int.reduceMul, Int.reduceDiv, Int.reduceEq, ↓reduceIte, or_false,
      or_true] <;> (try split) <;> omega

/-- **T6.** Year continuity: January 1st follows December 1st by 31 days. -/
theorem daysFromCivil_succ_year (y : Int) :
    daysFromCivil (y + 1) 1 1 = daysFromCivil y 12 1 + 31 := by
  simp only [daysFromCivil]; omega

/-- Consequence: a year has 365 or 366 days according to the Gregorian leap rule. -/
theorem daysFromCivil_year_length (y : Int) :
    daysFromCivil (y + 1) 1 1 = daysFromCivil y 1 1 + daysInYear y := by
  simp only [daysFromCivil, daysInYear, isLeapYear]; split <;> omega

/-! ### T2: truncation -/

theorem all_take {ds : List UInt8} (hds : ds.all isDigit = true) (k : Nat) :
    (ds.take k).all isDigit = true := by
  rw [List.all_eq_true] at hds ⊢
  intro x hx; exact hds x (List.mem_of_mem_take hx)

/-- Cutting `ds ++ t :: rest` at `k`: either inside/at the end of `ds`, or past the terminator. -/
theorem take_field (ds : List UInt8) (t : UInt8) (rest : List UInt8) (k : Nat) :
    (k ≤ ds.length ∧ (ds ++ t :: rest).take k = ds.take k) ∨
    (∃ j, k = ds.length + 1 + j ∧ (ds ++ t :: rest).take k = ds ++ t :: rest.take j) := by
  by_cases h : k ≤ ds.length
  · exact Or.inl ⟨h, List.take_append_of_le_length h⟩
  · obtain ⟨j, hj⟩ : ∃ j, k = ds.length + 1 + j := ⟨k - ds.length - 1, by omega⟩
    subst hj
    refine Or.inr ⟨j, rfl, ?_⟩
    rw [List.take_append, List.take_of_length_le (by omega),
      show ds.length + 1 + j - ds.length = j + 1 by omega, List.take_succ_cons]

/-- A field cut before its terminator is rejected (end of input is not acceptable). -/
theorem numField_digits_noeof {isTerm : UInt8 → Bool} (hnd : NoDigit isTerm)
    (minLen maxLen minV maxV : Nat) (ds : List UInt8) (hds : ds.all isDigit = true) :
    numField isTerm false minLen maxLen minV maxV ds = none := by
  unfold numField
  simp [readUntil_digits_eof hnd ds hds, Term.isNeg]

/-- A field at the end of input that is too short is rejected. -/
theorem numField_digits_short {isTerm : UInt8 → Bool} (hnd : NoDigit isTerm) (eofOK : Bool)
    (minLen maxLen minV maxV : Nat) (ds : List UInt8) (hds : ds.all isDigit = true)
    (hlen : ds.length < minLen) :
    numField isTerm eofOK minLen maxLen minV maxV ds = none := by
  unfold numField
  simp [readUntil_digits_eof hnd ds hds, hlen]

theorem fraction_digits_noeof (ds : List UInt8) (hds : ds.all isDigit = true) :
    fraction ds = none := by
  unfold fraction
  simp [readUntil_digits_eof noDigit_isEndOfFraction ds hds, Term.isNeg]

/-- A zone designator cut anywhere after its first byte is rejected. -/
theorem tzOffset_take_none (z : Zone) (hz : z.Valid) (j : Nat) (hj : j < z.rest.length) :
    tzOffset (.ch z.head) (z.rest.take j) = none := by
  cases z with
  | utc l => simp [Zone.rest] at hj
  | offset p hh mm =>
    obtain ⟨hh99, mm59⟩ := hz
    have h : (Term.is (.ch (Zone.offset p hh mm).head) '+'
        || Term.is (.ch (Zone.offset p hh mm).head) '-') = true := by
      rw [Term.is_ch, Term.is_ch]
      cases p <;> simp only [Zone.head, ↓reduceIte, Bool.false_eq_true] <;> decide
    unfold tzOffset; rw [h]
    simp only [Zone.rest, if_true] at hj ⊢
    simp only [List.length_append, List.length_cons, digitsN_length] at hj
    rcases take_field (digitsN 2 hh) (c ':') (digitsN 2 mm) j with ⟨_, e⟩ | ⟨j', rfl, e⟩ <;> rw [e]
    · rw [numField_digits_noeof noDigit_isColon _ _ _ _ _ (all_take (digitsN_all_digit 2 hh) j)]
    · rw [numField_digitsN noDigit_isColon false 2 2 0 99 2 hh (c ':') _ (by omega) (by omega)
        (by omega) (by omega) (by omega) hh99 isColon_colon asciiNZ_colon]
      simp only [digitsN_length] at hj ⊢
      rw [numField_digits_short noDigit_noTerm true 2 2 0 59 _
        (all_take (digitsN_all_digit 2 mm) j')
        (by rw [List.length_take, digitsN_length]; omega)]

theorem Stamp.render_length (s : Stamp) :
    s.render.length = 17 + (if s.hour1 = true then 1 else 2) + s.renderTail.length := by
  simp only [Stamp.render, List.length_append, List.length_cons, digitsN_length]; omega

/-- **T2 (full form).** Every proper prefix of a valid rendering is rejected — whether the cut
falls in the date, the time, the fraction, or the zone designator. -/
theorem parse_proper_prefix_fails (s : Stamp) (h : s.Valid) (k : Nat) (hk : k < s.render.length) :
    parseBytes (s.render.take k) = none := by
  obtain ⟨hy, ⟨hm1, hm12⟩, ⟨hd1, hd31⟩, hh, hmi, hs, hfl, hfd, hz, hh1⟩ := h
  rw [Stamp.render_length] at hk
  unfold parseBytes Stamp.render
  -- year
  rcases take_field (digitsN 4 s.year) (c '-') _ k with ⟨_, e⟩ | ⟨k, rfl, e⟩ <;> rw [e]
  · rw [numField_digits_noeof noDigit_isHyphen _ _ _ _ _ (all_take (digitsN_all_digit _ _) _)]
  rw [numField_digitsN noDigit_isHyphen false 4 4 0 9999 4 s.year (c '-') _ (by omega) (by omega)
    (by omega) (by omega) (by omega) hy isHyphen_hyphen asciiNZ_hyphen]
  simp only []
  -- month
  rcases take_field (digitsN 2 s.month) (c '-') _ k with ⟨_, e⟩ | ⟨k, rfl, e⟩ <;> rw [e]
  · rw [numField_digits_noeof noDigit_isHyphen _ _ _ _ _ (all_take (digitsN_all_digit _ _) _)]
  rw [numField_digitsN noDigit_isHyphen false 2 2 1 12 2 s.month (c '-') _ (by omega) (by omega)
    (by omega) (by omega) hm1 hm12 isHyphen_hyphen asciiNZ_hyphen]
  simp only []
  -- day
  rcases take_field (digitsN 2 s.day) s.tSep _ k with ⟨_, e⟩ | ⟨k, rfl, e⟩ <;> rw [e]
  · rw [numField_digits_noeof noDigit_isT _ _ _ _ _ (all_take (digitsN_all_digit _ _) _)]
  rw [numField_digitsN noDigit_isT false 2 2 1 31 2 s.day s.tSep _ (by omega) (by omega)
    (by omega) (by omega) hd1 hd31 s.tSep_isT s.tSep_asciiNZ]
  simp only []
  -- hour
  have hhour : s.hour < 10 ^ (if s.hour1 = true then 1 else 2) := by
    cases h1 : s.hour1
    · simp; omega
    · have := hh1 h1; simp; omega
  rcases take_field (digitsN (if s.hour1 = true then 1 else 2) s.hour) (c ':') _ k
    with ⟨_, e⟩ | ⟨k, rfl, e⟩ <;> rw [e]
  · rw [numField_digits_noeof noDigit_isColon _ _ _ _ _ (all_take (digitsN_all_digit _ _) _)]
  rw [numField_digitsN noDigit_isColon false 1 2 0 23 (if s.hour1 = true then 1 else 2) s.hour
    (c ':') _ (by split <;> omega) hhour (by split <;> omega) (by split <;> omega) (by omega) hh
    isColon_colon asciiNZ_colon]
  simp only []
  -- minute
  rcases take_field (digitsN 2 s.minute) (c ':') _ k with ⟨_, e⟩ | ⟨k, rfl, e⟩ <;> rw [e]
  · rw [numField_digits_noeof noDigit_isColon _ _ _ _ _ (all_take (digitsN_all_digit _ _) _)]
  rw [numField_digitsN noDigit_isColon false 2 2 0 59 2 s.minute (c ':') _ (by omega) (by omega)
    (by omega) (by omega) (by omega) hmi isColon_colon asciiNZ_colon]
  simp only []
  simp only [digitsN_length] at hk
  unfold Stamp.renderTail Zone.render at hk ⊢
  by_cases hf : s.frac = []
  · simp only [hf, if_true, List.nil_append, List.length_cons] at hk ⊢
    rcases take_field (digitsN 2 s.second) s.zone.head _ k with ⟨_, e⟩ | ⟨k, rfl, e⟩ <;> rw [e]
    · rw [numField_digits_noeof noDigit_isEndOfSeconds _ _ _ _ _
        (all_take (digitsN_all_digit _ _) _)]
    rw [numField_digitsN noDigit_isEndOfSeconds false 2 2 0 60 2 s.second s.zone.head _ (by omega)
      (by omega) (by omega) (by omega) (by omega) hs s.zone.head_isEndOfSeconds
      s.zone.head_asciiNZ]
    simp only [s.zone.head_not_dot, Bool.false_eq_true, if_false]
    rw [tzOffset_take_none _ hz _ (by simp only [digitsN_length] at hk; omega)]
  · simp only [hf, if_false, List.cons_append, List.length_cons, List.length_append] at hk ⊢
    rcases take_field (digitsN 2 s.second) (c '.') _ k with ⟨_, e⟩ | ⟨k, rfl, e⟩ <;> rw [e]
    · rw [numField_digits_noeof noDigit_isEndOfSeconds _ _ _ _ _
        (all_take (digitsN_all_digit _ _) _)]
    rw [numField_digitsN noDigit_isEndOfSeconds false 2 2 0 60 2 s.second (c '.') _ (by omega)
      (by omega) (by omega) (by omega) (by omega) hs isEndOfSeconds_dot asciiNZ_dot]
    simp only [dot_is_dot, if_true]
    rcases take_field s.frac s.zone.head s.zone.rest k with ⟨_, e⟩ | ⟨k, rfl, e⟩ <;> rw [e]
    · rw [fraction_digits_noeof _ (all_take hfd _)]
    rw [fraction_digits s.frac hf hfd hfl _ _ s.zone.head_isEndOfFraction s.zone.head_asciiNZ]
    simp only []
    rw [tzOffset_take_none _ hz _ (by simp only [digitsN_length] at hk; omega)]

/-- **T2.** Truncation inside the mandatory part `YYYY-MM-DDTHH:MM:SS` + seconds terminator is
rejected (a special case of `parse_proper_prefix_fails`, which needs no `hmin`). -/
theorem parse_prefix_fails (s : Stamp) (h : s.Valid) (k : Nat) (hk : k < s.render.length)
    (_hmin : k < minimalLength s) : parseBytes (s.render.take k) = none :=
  parse_proper_prefix_fails s h k hk

/-- `minimalLength` is what its name says: no valid rendering is shorter. -/
theorem minimalLength_le (s : Stamp) : minimalLength s ≤ s.render.length := by
  rw [Stamp.render_length]; unfold minimalLength Stamp.renderTail Zone.render
  simp only [List.length_append, List.length_cons]; split <;> omega

#print axioms parse_render
#print axioms parse_render_utc_trailing
#print axioms valueToTimestamp_render
#print axioms parse_proper_prefix_fails
#print axioms parse_prefix_fails
#print axioms parse_total
#print axioms ofMillis_exact
#print axioms daysFromCivil_succ_day
#print axioms daysFromCivil_epoch
#print axioms daysFromCivil_succ_month
#print axioms daysFromCivil_succ_year
#print axioms daysFromCivil_year_length

end LD.Time

/-
  LDEval.Proofs.Total — C01 (every result of `evaluate` is well-formed) and C10 (the fuel handed
  out by `evaluate` suffices for every store, i.e. for every prerequisite / segment reference graph,
  including self-loops and long cycles).
-/
import LDEval.Proofs.EvalWF
import Mathlib.Data.List.Nodup
import Mathlib.Data.List.Perm.Subperm

namespace LD

/-! ## Part 1 — well-formedness -/

/-- Well-formed and not USER_NOT_SPECIFIED (which only `evaluate` itself produces). -/
def Good (f : Flag) (d : Detail) : Prop :=
  WellFormed f d ∧ d.reason.errorKind ≠ some .userNotSpecified

theorem good_forError_malformed (f : Flag) : Good f (Detail.forError .malformedFlag) :=
  ⟨wf_forError_malformed f, by simp [Detail.forError, Reason.error]⟩

theorem getVariation_errorKind (env : Env) (f : Flag) (i : Int) (r : Reason) (st : St)
    (hr : r.NonError) : (getVariation env f i r st).1.reason.errorKind ≠ some .userNotSpecified := by
  unfold getVariation
  split
  · simp [Detail.forError, Reason.error]
  · simp [hr.2]

theorem good_getVariation (env : Env) (f : Flag) (i : Int) (r : Reason) (st : St)
    (hr : r.NonError) : Good f (getVariation env f i r st).1 :=
  ⟨wf_getVariation env f i r st hr, getVariation_errorKind env f i r st hr⟩

theorem good_getOffValue (env : Env) (f : Flag) (r : Reason) (st : St) (hr : r.NonError)
    (hw : WellFormed f (getOffValue env f r st).1) : Good f (getOffValue env f r st).1 := by
  refine ⟨hw, ?_⟩
  unfold getOffValue
  split
  · simp [hr.2]
  · exact getVariation_errorKind _ _ _ _ _ hr

theorem good_getValueForVR (env : Env) (f : Flag) (vr : VariationOrRollout) (r : Reason) (st : St)
    (hr : r.NonError) : Good f (getValueForVR env f vr r st).1 := by
  refine ⟨wf_getValueForVR env f vr r st hr, ?_⟩
  unfold getValueForVR
  split
  · rename_i e he
    simp [Detail.forError, Reason.error, variationOrRollout_err_kind he]
  · apply getVariation_errorKind
    split
    · exact nonError_toExperiment hr
    · exact hr

/-- What an aborted evaluation (`ok = false`) looks like. -/
def AbortSpec (d : Detail) (ok : Bool) : Prop := ok = false → d = Detail.forError .malformedFlag

theorem rulesLoop_spec {n env f} : ∀ {rules i st d ok st'},
    rulesLoop (segContains n env) env f rules i st = (.done d ok, st') →
    Good f d ∧ AbortSpec d ok := by
  intro rules
  induction rules with
  | nil =>
    intro i st d ok st' h
    unfold rulesLoop at h
    have hw := good_getValueForVR env f f.fallthrough .fallthrough st nonError_fallthrough
    generalize getValueForVR env f f.fallthrough .fallthrough st = x at h hw
    obtain ⟨d1, st1⟩ := x
    simp only [Prod.mk.injEq, FlagOut.done.injEq] at h
    obtain ⟨⟨rfl, rfl⟩, _⟩ := h
    exact ⟨hw, fun h => by cases h⟩
  | cons r rs ih =>
    intro i st d ok st' h
    unfold rulesLoop at h
    split at h
    · rename_i e st1 heq
      simp only [Prod.mk.injEq, FlagOut.done.injEq] at h
      obtain ⟨⟨rfl, rfl⟩, _⟩ := h
      have hk := flag_clauses_err_kind heq
      rw [hk]
      exact ⟨good_forError_malformed f, fun _ => rfl⟩
    · cases h
    · rename_i st1 heq
      have hw := good_getValueForVR env f r.vr (.ruleMatch i r.id) st1 (nonError_ruleMatch i r.id)
      generalize getValueForVR env f r.vr (.ruleMatch i r.id) st1 = x at h hw
      obtain ⟨d1, st2⟩ := x
      simp only [Prod.mk.injEq, FlagOut.done.injEq] at h
      obtain ⟨⟨rfl, rfl⟩, _⟩ := h
      exact ⟨hw, fun h => by cases h⟩
    · exact ih h

/-- W1 -/
theorem rulesLoop_wf {n env f rules i st d ok st'}
    (h : rulesLoop (segContains n env) env f rules i st = (.done d ok, st')) : WellFormed f d :=
  (rulesLoop_spec h).1.1

theorem evalBody_spec {rec : FlagRec} {n env f chain st d ok st'}
    (h : evalBody rec (segContains n env) env f chain st = (.done d ok, st')) :
    Good f d ∧ AbortSpec d ok := by
  unfold evalBody at h
  split at h
  · have hw := good_getOffValue env f .off st nonError_off (wf_getOffValue_off env f st)
    generalize getOffValue env f .off st = x at h hw
    obtain ⟨d1, st1⟩ := x
    simp only [Prod.mk.injEq, FlagOut.done.injEq] at h
    obtain ⟨⟨rfl, rfl⟩, _⟩ := h
    exact ⟨hw, fun h => by cases h⟩
  · split at h
    · cases h
    · simp only [Prod.mk.injEq, FlagOut.done.injEq] at h
      obtain ⟨⟨rfl, rfl⟩, _⟩ := h
      exact ⟨good_forError_malformed f, fun _ => rfl⟩
    · rename_i k st1 _
      have hw := good_getOffValue env f (.prereqFailed k) st1 (nonError_prereqFailed k)
        (wf_getOffValue_prereqFailed env f k st1)
      generalize getOffValue env f (.prereqFailed k) st1 = x at h hw
      obtain ⟨d1, st2⟩ := x
      simp only [Prod.mk.injEq, FlagOut.done.injEq] at h
      obtain ⟨⟨rfl, rfl⟩, _⟩ := h
      exact ⟨hw, fun h => by cases h⟩
    · rename_i st1 _
      split at h
      · rename_i v _
        have hw := good_getVariation env f v .targetMatch st1 nonError_targetMatch
        generalize getVariation env f v .targetMatch st1 = x at h hw
        obtain ⟨d1, st2⟩ := x
        simp only [Prod.mk.injEq, FlagOut.done.injEq] at h
        obtain ⟨⟨rfl, rfl⟩, _⟩ := h
        exact ⟨hw, fun h => by cases h⟩
      · exact rulesLoop_spec h

/-- W2 -/
theorem evalBody_wf {rec : FlagRec} {n env f chain st d ok st'}
    (h : evalBody rec (segContains n env) env f chain st = (.done d ok, st')) : WellFormed f d :=
  (evalBody_spec h).1.1

theorem evalFlag_spec {sf n env f chain st d ok st'}
    (h : evalFlag sf n env f chain st = (.done d ok, st')) : Good f d ∧ AbortSpec d ok := by
  cases n with
  | zero => simp [evalFlag] at h
  | succ n => exact evalBody_spec h

/-- W3 -/
theorem evalFlag_wf {sf n env f chain st d ok st'}
    (h : evalFlag sf n env f chain st = (.done d ok, st')) : WellFormed f d :=
  (evalFlag_spec h).1.1

/-- The evaluator proper never produces USER_NOT_SPECIFIED. -/
theorem evalFlag_not_userNotSpecified {sf n env f chain st d ok st'}
    (h : evalFlag sf n env f chain st = (.done d ok, st')) :
    d.reason.errorKind ≠ some .userNotSpecified :=
  (evalFlag_spec h).1.2

/-- W4: an aborted evaluation is always MALFORMED_FLAG. -/
theorem abort_is_malformed {sf n env f chain st d st'}
    (h : evalFlag sf n env f chain st = (.done d false, st')) :
    d.reason = Reason.error .malformedFlag ∧ d.index = none ∧ d.value = .null := by
  have := (evalFlag_spec h).2 rfl
  subst this
  exact ⟨rfl, rfl, rfl⟩

/-! ### `evaluate` -/

/-- Attaching the big-segments status. -/
def withStatus (d : Detail) : Option Status → Detail
  | some s => { d with reason := { d.reason with bigSegmentsStatus := some s } }
  | none => d

theorem wf_withStatus {f d} (s : Option Status) (h : WellFormed f d) :
    WellFormed f (withStatus d s) := by
  cases s with
  | none => exact h
  | some s => exact h

theorem withStatus_errorKind (d : Detail) (s) :
    (withStatus d s).reason.errorKind = d.reason.errorKind := by
  cases s <;> rfl

theorem withStatus_kind (d : Detail) (s) : (withStatus d s).reason.kind = d.reason.kind := by
  cases s <;> rfl

theorem evaluate_invalid {env : Env} (f : Flag) (h : env.ctx = .invalid) :
    (evaluate env f).outcome = .done ∧
    (evaluate env f).result.detail = Detail.forError .userNotSpecified := by
  unfold evaluate
  rw [h]
  exact ⟨rfl, rfl⟩

theorem evaluate_valid {env : Env} (f : Flag) (h : env.ctx ≠ .invalid) {out st}
    (he : evalFlag (segFuel env.store) (flagFuel env.store) env f [] {} = (out, st)) :
    (∃ d ok, out = .done d ok ∧ (evaluate env f).outcome = .done ∧
      (evaluate env f).result.detail = withStatus d st.status) ∨
    (out = .oof ∧ (evaluate env f).outcome = .outOfFuel) := by
  unfold evaluate
  split
  · rename_i hc; exact absurd hc h
  · rw [he]
    cases out with
    | done d ok =>
      left
      refine ⟨d, ok, rfl, rfl, ?_⟩
      simp only
      cases st.status <;> rfl
    | oof => right; exact ⟨rfl, rfl⟩

/-- W5 -/
theorem evaluate_wf (env : Env) (f : Flag) (h : (evaluate env f).outcome = .done) :
    WellFormed f (evaluate env f).result.detail := by
  by_cases hc : env.ctx = .invalid
  · rw [(evaluate_invalid f hc).2]
    right; left; simp [Detail.forError, Reason.error]
  · generalize he : evalFlag (segFuel env.store) (flagFuel env.store) env f [] {} = x
    obtain ⟨out, st⟩ := x
    rcases evaluate_valid f hc he with ⟨d, ok, rfl, _, hd⟩ | ⟨_, ho⟩
    · rw [hd]; exact wf_withStatus _ (evalFlag_wf he)
    · rw [ho] at h; cases h

/-- W6 -/
theorem evaluate_error_kinds (env : Env) (f : Flag) (h : (evaluate env f).outcome = .done)
    (he : (evaluate env f).result.detail.reason.kind = .error) :
    (evaluate env f).result.detail.reason.errorKind = some .malformedFlag ∨
    (evaluate env f).result.detail.reason.errorKind = some .userNotSpecified := by
  rcases evaluate_wf env f h with ⟨_, _, _, _, hk, _⟩ | ⟨_, _, _, hk⟩ | ⟨_, _, _, _, hk⟩
  · exact absurd he hk
  · exact hk
  · rw [he] at hk; rcases hk with hk | hk <;> cases hk

theorem evaluate_userNotSpecified_iff (env : Env) (f : Flag)
    (h : (evaluate env f).outcome = .done) :
    (evaluate env f).result.detail.reason.errorKind = some .userNotSpecified ↔
      env.ctx = .invalid := by
  constructor
  · intro hk
    by_contra hc
    generalize he : evalFlag (segFuel env.store) (flagFuel env.store) env f [] {} = x at *
    obtain ⟨out, st⟩ := x
    rcases evaluate_valid f hc he with ⟨d, ok, rfl, _, hd⟩ | ⟨_, ho⟩
    · rw [hd, withStatus_errorKind] at hk
      exact evalFlag_not_userNotSpecified he hk
    · rw [ho] at h; cases h
  · intro hc
    rw [(evaluate_invalid f hc).2]; rfl

/-! ## Part 2 — the fuel suffices -/

/-- Pigeonhole: a duplicate-free list drawn from `L` is no longer than `L`. -/
theorem nodup_length_le {chain L : List String} (hnd : chain.Nodup) (hsub : ∀ k ∈ chain, k ∈ L) :
    chain.length ≤ L.length :=
  (List.subperm_of_subset hnd hsub).length_le

/-- The item returned for lookup key `k` is the second component of an entry of the store filed under
`k`.  (Its OWN key may be anything.) -/
theorem findSegment_key {s : Store} {k seg} (h : s.findSegment k = some seg) :
    (k, seg) ∈ s.segments ∧ seg ∈ s.segments.map (·.2) :=
  ⟨Store.mem_of_findSegment h, Store.findSegment_mem h⟩

theorem findFlag_key {s : Store} {k pf} (h : s.findFlag k = some pf) :
    (k, pf) ∈ s.flags ∧ pf ∈ s.flags.map (·.2) :=
  ⟨Store.mem_of_findFlag h, Store.findFlag_mem h⟩

theorem mem_map_snd_of_mem {α β γ : Type} {l : List (α × β)} (g : β → γ) {x : β}
    (h : x ∈ l.map (·.2)) : g x ∈ l.map (fun e => g e.2) := by
  obtain ⟨e, he, rfl⟩ := List.mem_map.mp h
  exact List.mem_map.mpr ⟨e, he, rfl⟩

/-- In a consistent store the returned item's own key is the lookup key. -/
theorem findFlag_key_consistent {s : Store} (hs : StoreConsistent s) {k pf}
    (h : s.findFlag k = some pf) : pf.key = k :=
  (hs.1 _ (findFlag_key h).1).symm

theorem findSegment_key_consistent {s : Store} (hs : StoreConsistent s) {k seg}
    (h : s.findSegment k = some seg) : seg.key = k :=
  (hs.2 _ (findSegment_key h).1).symm

/-- `rec` never runs out of fuel on a segment of the store, at this chain. -/
def SegRecOK (rec : SegRec) (env : Env) (chain : List String) : Prop :=
  ∀ k seg st, env.store.findSegment k = some seg → (rec seg chain st).1 ≠ .oof

theorem segMatchValues_no_oof {rec : SegRec} {env negate chain} (hrec : SegRecOK rec env chain) :
    ∀ vs st, (segMatchValues rec env negate chain vs st).1 ≠ .oof := by
  intro vs
  induction vs with
  | nil => intro st; simp [segMatchValues]
  | cons v vs ih =>
    intro st
    cases v with
    | str k =>
      unfold segMatchValues
      simp only
      split
      · exact ih _
      · rename_i seg hfind
        split
        · simp
        · exact ih _
        · simp
        · rename_i st2 heq
          exact absurd (by rw [heq]) (hrec k seg _ hfind)
    | null => unfold segMatchValues; exact ih _
    | bool b => unfold segMatchValues; exact ih _
    | num q => unfold segMatchValues; exact ih _
    | arr xs => unfold segMatchValues; exact ih _
    | obj kvs => unfold segMatchValues; exact ih _
    | raw w => unfold segMatchValues; exact ih _

theorem clauseMatch_no_oof {rec : SegRec} {env chain} (hrec : SegRecOK rec env chain) (c st) :
    (clauseMatch rec env chain c st).1 ≠ .oof := by
  unfold clauseMatch
  split
  · exact segMatchValues_no_oof hrec _ _
  · cases clauseMatchNoSeg env.rx env.ctx c <;> simp [Res.ofExcept]

theorem clausesMatch_no_oof {rec : SegRec} {env chain} (hrec : SegRecOK rec env chain) :
    ∀ cs st, (clausesMatch rec env chain cs st).1 ≠ .oof := by
  intro cs
  induction cs with
  | nil => intro st; simp [clausesMatch]
  | cons c cs ih =>
    intro st
    unfold clausesMatch
    split
    · exact ih _
    · exact clauseMatch_no_oof hrec c st

theorem segRuleMatch_no_oof {rec : SegRec} {env chain} (hrec : SegRecOK rec env chain)
    (key salt r st) : (segRuleMatch rec env chain key salt r st).1 ≠ .oof := by
  unfold segRuleMatch
  split
  · split
    · simp
    · split
      · simp
      · split <;> simp
  · simp
  · exact clausesMatch_no_oof hrec _ _

theorem segRules_no_oof {rec : SegRec} {env chain s} (hrec : SegRecOK rec env chain) :
    ∀ rs st, (segRules rec env chain s rs st).1 ≠ .oof := by
  intro rs
  induction rs with
  | nil => intro st; simp [segRules]
  | cons r rs ih =>
    intro st
    unfold segRules
    split
    · simp
    · exact ih _
    · simp
    · rename_i st1 heq
      exact absurd (by rw [heq]) (segRuleMatch_no_oof hrec s.key s.salt r st)

theorem segBody_no_oof {rec : SegRec} {env s chain}
    (hrec : s.key ∉ chain → SegRecOK rec env (chain ++ [s.key])) (st) :
    (segBody rec env s chain st).1 ≠ .oof := by
  unfold segBody
  split
  · simp
  · rename_i hc
    have hrec' := hrec (by simpa using hc)
    simp only
    split
    · split
      · simp
      · split
        · simp
        · split
          · exact segRules_no_oof hrec' _ _
          · split
            · simp
            · exact segRules_no_oof hrec' _ _
    · split
      · simp
      · exact segRules_no_oof hrec' _ _

/-- General form: `L` is any list of keys containing all segment keys of the store. -/
theorem segContains_no_oof_gen (env : Env) (L : List String)
    (hL : ∀ seg ∈ env.store.segments.map (·.2), seg.key ∈ L) :
    ∀ n (s : Segment) (chain : List String) (st : St), chain.Nodup → (∀ k ∈ chain, k ∈ L) →
      s.key ∈ L → L.length + 1 ≤ n + chain.length → (segContains n env s chain st).1 ≠ .oof := by
  intro n
  induction n with
  | zero =>
    intro s chain st hnd hsub _ hlen
    have := nodup_length_le hnd hsub
    omega
  | succ n ih =>
    intro s chain st hnd hsub hs hlen
    unfold segContains
    apply segBody_no_oof
    intro hnotin k seg st1 hfind
    have hk := findSegment_key hfind
    apply ih
    · exact List.nodup_append.mpr ⟨hnd, List.nodup_singleton _, by
        intro a ha b hb; simp at hb; subst hb; intro hab; subst hab; exact hnotin ha⟩
    · intro k' hk'
      rcases List.mem_append.mp hk' with h | h
      · exact hsub _ h
      · simp at h; subst h; exact hs
    · exact hL _ hk.2
    · simp; omega

theorem mem_eraseDups_keys {l : List String} {k : String} : k ∈ l.eraseDups ↔ k ∈ l :=
  List.mem_eraseDups

/-- F1 -/
theorem segContains_no_oof (env : Env) :
    ∀ n (s : Segment) (chain : List String) (st : St), chain.Nodup →
      (∀ k ∈ chain, k ∈ env.store.segments.map (·.2.key)) →
      s.key ∈ env.store.segments.map (·.2.key) →
      distinctCount (env.store.segments.map (·.2.key)) + 1 ≤ n + chain.length →
      (segContains n env s chain st).1 ≠ .oof := by
  intro n s chain st hnd hsub hs hlen
  apply segContains_no_oof_gen env (env.store.segments.map (·.2.key)).eraseDups
  · intro seg hseg
    exact List.mem_eraseDups.mpr (mem_map_snd_of_mem (·.key) hseg)
  · exact hnd
  · intro k hk; exact List.mem_eraseDups.mpr (hsub k hk)
  · exact List.mem_eraseDups.mpr hs
  · exact hlen

/-- F2 -/
theorem flag_level_seg_no_oof (env : Env) (seg : Segment) (st : St)
    (hk : seg.key ∈ env.store.segments.map (·.2.key)) :
    (segContains (segFuel env.store) env seg [] st).1 ≠ .oof := by
  apply segContains_no_oof env _ _ _ _ List.nodup_nil (by simp) hk
  unfold segFuel; simp

theorem flag_level_segRecOK (env : Env) : SegRecOK (segContains (segFuel env.store) env) env [] := by
  intro k seg st hfind
  exact flag_level_seg_no_oof env seg st (mem_map_snd_of_mem (·.key) (findSegment_key hfind).2)

theorem flag_level_clausesMatch_no_oof (env : Env) (cs : List Clause) (st : St) :
    (clausesMatch (segContains (segFuel env.store) env) env [] cs st).1 ≠ .oof :=
  clausesMatch_no_oof (flag_level_segRecOK env) cs st

/-! ### Flags -/

/-- `rec` never runs out of fuel on a flag of the store not yet on the chain. -/
def FlagRecOK (rec : FlagRec) (env : Env) (chain : List String) : Prop :=
  ∀ k pf st, env.store.findFlag k = some pf → pf.key ∉ chain → (rec pf chain st).1 ≠ .oof

theorem prereqLoop_no_oof {rec : FlagRec} {env f chain} (hrec : FlagRecOK rec env chain) :
    ∀ ps st, (prereqLoop rec env f chain ps st).1 ≠ .oof := by
  intro ps
  induction ps with
  | nil => intro st; simp [prereqLoop]
  | cons p ps ih =>
    intro st
    unfold prereqLoop
    simp only
    split
    · simp
    · rename_i pf hfind
      split
      · simp
      · rename_i hc
        split
        · rename_i st2 heq
          exact absurd (by rw [heq]) (hrec p.key pf _ hfind (by simpa using hc))
        · split
          · simp
          · split
            · simp
            · exact ih _

theorem checkPrereqs_no_oof {rec : FlagRec} {env f chain}
    (hrec : FlagRecOK rec env (chain ++ [f.key])) (st) :
    (checkPrereqs rec env f chain st).1 ≠ .oof := by
  unfold checkPrereqs
  split
  · simp
  · exact prereqLoop_no_oof hrec _ _

theorem rulesLoop_no_oof {seg : SegRec} {env f} (hseg : SegRecOK seg env []) :
    ∀ rules i st, (rulesLoop seg env f rules i st).1 ≠ .oof := by
  intro rules
  induction rules with
  | nil => intro i st; simp [rulesLoop]
  | cons r rs ih =>
    intro i st
    unfold rulesLoop
    split
    · simp
    · rename_i st1 heq
      exact absurd (by rw [heq]) (clausesMatch_no_oof hseg r.clauses st)
    · simp
    · exact ih _ _

theorem evalBody_no_oof {rec : FlagRec} {seg : SegRec} {env f chain}
    (hrec : FlagRecOK rec env (chain ++ [f.key])) (hseg : SegRecOK seg env []) (st) :
    (evalBody rec seg env f chain st).1 ≠ .oof := by
  unfold evalBody
  split
  · simp
  · split
    · rename_i st1 heq
      exact absurd (by rw [heq]) (checkPrereqs_no_oof hrec st)
    · simp
    · simp
    · split
      · simp
      · exact rulesLoop_no_oof hseg _ _ _

/-- F3, general form: `L` is any list of keys containing all flag keys of the store (and the key of
the root flag, which need not be in the store). -/
theorem evalFlag_no_oof_gen (env : Env) (L : List String)
    (hL : ∀ pf ∈ env.store.flags.map (·.2), pf.key ∈ L) :
    ∀ n (f : Flag) (chain : List String) (st : St), chain.Nodup → f.key ∉ chain →
      (∀ k ∈ chain, k ∈ L) → f.key ∈ L → L.length + 1 ≤ n + chain.length →
      (evalFlag (segFuel env.store) n env f chain st).1 ≠ .oof := by
  intro n
  induction n with
  | zero =>
    intro f chain st hnd _ hsub _ hlen
    have := nodup_length_le hnd hsub
    omega
  | succ n ih =>
    intro f chain st hnd hnotin hsub hf hlen
    unfold evalFlag
    apply evalBody_no_oof _ (flag_level_segRecOK env)
    intro k pf st1 hfind hpf
    have hk := findFlag_key hfind
    apply ih
    · exact List.nodup_append.mpr ⟨hnd, List.nodup_singleton _, by
        intro a ha b hb; simp at hb; subst hb; intro hab; subst hab; exact hnotin ha⟩
    · exact hpf
    · intro k' hk'
      rcases List.mem_append.mp hk' with h | h
      · exact hsub _ h
      · simp at h; subst h; exact hf
    · exact hL _ hk.2
    · simp; omega

/-- F3 in the intended form: `root` is the key of the flag passed to `evaluate`. -/
theorem evalFlag_no_oof (env : Env) (root : String) :
    ∀ n (f : Flag) (chain : List String) (st : St), chain.Nodup → f.key ∉ chain →
      (∀ k ∈ chain ++ [f.key], k = root ∨ k ∈ env.store.flags.map (·.2.key)) →
      distinctCount (env.store.flags.map (·.2.key)) + 2 ≤ n + chain.length →
      (evalFlag (segFuel env.store) n env f chain st).1 ≠ .oof := by
  intro n f chain st hnd hnotin hsub hlen
  apply evalFlag_no_oof_gen env (root :: (env.store.flags.map (·.2.key)).eraseDups)
  · intro pf hpf
    exact List.mem_cons_of_mem _ (List.mem_eraseDups.mpr (mem_map_snd_of_mem (·.key) hpf))
  · exact hnd
  · exact hnotin
  · intro k hk
    rcases hsub k (List.mem_append_left _ hk) with h | h
    · subst h; exact List.mem_cons_self
    · exact List.mem_cons_of_mem _ (List.mem_eraseDups.mpr h)
  · rcases hsub f.key (by simp) with h | h
    · rw [h]; exact List.mem_cons_self
    · exact List.mem_cons_of_mem _ (List.mem_eraseDups.mpr h)
  · simp only [List.length_cons]; exact hlen

/-- F4 (C10): `evaluate` never runs out of fuel, whatever the store. -/
theorem evaluate_total (env : Env) (f : Flag) : (evaluate env f).outcome = .done := by
  by_cases hc : env.ctx = .invalid
  · exact (evaluate_invalid f hc).1
  · generalize he : evalFlag (segFuel env.store) (flagFuel env.store) env f [] {} = x
    obtain ⟨out, st⟩ := x
    rcases evaluate_valid f hc he with ⟨d, ok, _, h, _⟩ | ⟨ho, _⟩
    · exact h
    · exfalso
      have := evalFlag_no_oof env f.key (flagFuel env.store) f [] {} List.nodup_nil (by simp)
        (by simp) (by unfold flagFuel; simp)
      rw [he, ho] at this
      exact this rfl

/-- F5 (C01): every result of `evaluate` is well-formed. -/
theorem evaluate_wellformed (env : Env) (f : Flag) :
    WellFormed f (evaluate env f).result.detail :=
  evaluate_wf env f (evaluate_total env f)

/-- Unconditional corollaries. -/
theorem evaluate_error_kinds_total (env : Env) (f : Flag)
    (he : (evaluate env f).result.detail.reason.kind = .error) :
    (evaluate env f).result.detail.reason.errorKind = some .malformedFlag ∨
    (evaluate env f).result.detail.reason.errorKind = some .userNotSpecified :=
  evaluate_error_kinds env f (evaluate_total env f) he

theorem evaluate_userNotSpecified_iff_total (env : Env) (f : Flag) :
    (evaluate env f).result.detail.reason.errorKind = some .userNotSpecified ↔
      env.ctx = .invalid :=
  evaluate_userNotSpecified_iff env f (evaluate_total env f)

/-- `evaluate` never reports EXCEPTION (in particular not for segment cycles reached from a flag,
nor for running out of fuel). -/
theorem evaluate_never_exception (env : Env) (f : Flag) :
    (evaluate env f).result.detail.reason.errorKind ≠ some .exception := by
  rcases evaluate_wellformed env f with ⟨_, _, _, _, _, hk⟩ | ⟨_, _, _, hk⟩ | ⟨_, _, _, hk, _⟩
  · rw [hk]; simp
  · rcases hk with hk | hk <;> rw [hk] <;> simp
  · rw [hk]; simp

end LD

#print axioms LD.evaluate_total
#print axioms LD.evaluate_wellformed
#print axioms LD.abort_is_malformed
#print axioms LD.evaluate_userNotSpecified_iff
#print axioms LD.evaluate_never_exception

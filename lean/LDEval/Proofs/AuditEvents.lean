/-
  LDEval.Proofs.AuditEvents — theorem audit, findings #29 / #30 (C09).

  A GLOBAL specification of what one evaluation records and looks up, written as a plain recursion
  over the prerequisite graph of the store (no state, no side channels), and the proof that the
  code-shaped model (`Model/Eval.lean`) produces exactly that.

    `EventSpec.edges sf n env f chain : List Edge`     the evaluated prerequisite edges, post-order
    `EventSpec.lookups sf n env f chain : List String` the keys handed to the data store, pre-order
    `EventSpec.expectedEvents env f : List Event`      what `evaluate env f` must record

  The statements about `evaluate` are in `Properties/C09.lean`.
-/
import LDEval.Proofs.Prereq

namespace LD

/-- One EVALUATED PREREQUISITE EDGE of the store graph: flag `dep` lists the prerequisite `prereq`,
the data store answered the lookup of `prereq.key` with the flag `pf`, and the nested evaluation of
`pf` completed with the detail `d`. -/
structure Edge where
  dep : Flag
  prereq : Prereq
  pf : Flag
  d : Detail

/-- The event the recorder receives for an evaluated edge (`prereqEvent`: target key = `dep.key`,
prerequisite key / version / summary exclusion = those of `pf`, result = `d`). -/
def Edge.event (e : Edge) : Event := prereqEvent e.dep e.pf e.d

namespace EventSpec

/-! ### The specification -/

/-- The edges evaluated for the prerequisites `ps` of flag `f`, in the order in which their events
are due.  `res pf chain` is what the nested evaluation of `pf` returns (`Spec.evalFlag`), `nested pf
chain` the edges evaluated inside it.  For each listed prerequisite, in order:
* the store has no flag for the key: nothing, and the loop ends;
* the returned flag is already on the path (cycle): nothing, and the loop ends;
* otherwise FIRST everything evaluated inside the nested evaluation (depth first), THEN — iff that
  evaluation completed (`ok = true`) — exactly ONE edge for the prerequisite itself with its result;
  the loop goes on to the next prerequisite iff this one was met. -/
def edgesLoop (res : Spec.FlagRec) (nested : Flag → List String → List Edge) (env : Env) (f : Flag)
    (chain : List String) : List Prereq → List Edge
  | [] => []
  | p :: ps =>
    match env.store.findFlag p.key with
    | none => []
    | some pf =>
      if chain.contains pf.key then []
      else
        nested pf chain ++
          match res pf chain with
          | some (d, true) =>
            ⟨f, p, pf, d⟩ :: (if prereqMet pf p d then edgesLoop res nested env f chain ps else [])
          | _ => []

/-- A flag that is off evaluates no prerequisite; a flag that is on walks its list with its own key
appended to the path. -/
def edgesBody (res : Spec.FlagRec) (nested : Flag → List String → List Edge) (env : Env) (f : Flag)
    (chain : List String) : List Edge :=
  if f.on then edgesLoop res nested env f (chain ++ [f.key]) f.prerequisites else []

/-- The evaluated prerequisite edges of one evaluation of `f`, in depth-first POST-order. -/
def edges (sf : Nat) : Nat → Env → Flag → List String → List Edge
  | 0, _, _, _ => []
  | n+1, env, f, chain => edgesBody (Spec.evalFlag sf n env) (edges sf n env) env f chain

/-- The keys handed to `GetFeatureFlag`, in call order (PRE-order): the key of each listed
prerequisite up to and including the first one that is missing, cyclic, aborted or unmet, each
followed by the lookups of its nested evaluation. -/
def lookupsLoop (res : Spec.FlagRec) (nested : Flag → List String → List String) (env : Env)
    (chain : List String) : List Prereq → List String
  | [] => []
  | p :: ps =>
    p.key ::
      match env.store.findFlag p.key with
      | none => []
      | some pf =>
        if chain.contains pf.key then []
        else
          nested pf chain ++
            match res pf chain with
            | some (d, true) => if prereqMet pf p d then lookupsLoop res nested env chain ps else []
            | _ => []

def lookupsBody (res : Spec.FlagRec) (nested : Flag → List String → List String) (env : Env)
    (f : Flag) (chain : List String) : List String :=
  if f.on then lookupsLoop res nested env (chain ++ [f.key]) f.prerequisites else []

def lookups (sf : Nat) : Nat → Env → Flag → List String → List String
  | 0, _, _, _ => []
  | n+1, env, f, chain => lookupsBody (Spec.evalFlag sf n env) (lookups sf n env) env f chain

/-- The evaluated edges of the call `Evaluate(f, ctx)` (empty path, the fuel `evaluate` hands out). -/
def evaluatedEdges (env : Env) (f : Flag) : List Edge :=
  edges (segFuel env.store) (flagFuel env.store) env f []

/-- The event list `Evaluate(f, ctx)` must hand to the recorder: one event per evaluated edge, in
the same (post-)order. -/
def expectedEvents (env : Env) (f : Flag) : List Event := (evaluatedEdges env f).map Edge.event

/-- The lookup keys `Evaluate(f, ctx)` must hand to `GetFeatureFlag`, in call order. -/
def expectedLookups (env : Env) (f : Flag) : List String :=
  lookups (segFuel env.store) (flagFuel env.store) env f []

/-! ### One-step unfoldings of the specification -/

section Unfold
variable {res : Spec.FlagRec} {nested : Flag → List String → List Edge}
  {nestedL : Flag → List String → List String} {env : Env} {f : Flag} {chain : List String}
  {p : Prereq} {ps : List Prereq} {pf : Flag}

theorem edgesLoop_missing (hfind : env.store.findFlag p.key = none) :
    edgesLoop res nested env f chain (p :: ps) = [] := by
  simp only [edgesLoop, hfind]

theorem edgesLoop_cycle (hfind : env.store.findFlag p.key = some pf)
    (hc : chain.contains pf.key = true) :
    edgesLoop res nested env f chain (p :: ps) = [] := by
  simp only [edgesLoop, hfind, hc, if_true]

theorem edgesLoop_done {d : Detail} (hfind : env.store.findFlag p.key = some pf)
    (hc : chain.contains pf.key = false) (hres : res pf chain = some (d, true)) :
    edgesLoop res nested env f chain (p :: ps) =
      nested pf chain ++ ⟨f, p, pf, d⟩ ::
        (if prereqMet pf p d then edgesLoop res nested env f chain ps else []) := by
  simp only [edgesLoop, hfind, hc, hres, Bool.false_eq_true, if_false]

theorem edgesLoop_abort {d : Detail} (hfind : env.store.findFlag p.key = some pf)
    (hc : chain.contains pf.key = false) (hres : res pf chain = some (d, false)) :
    edgesLoop res nested env f chain (p :: ps) = nested pf chain := by
  simp only [edgesLoop, hfind, hc, hres, Bool.false_eq_true, if_false, List.append_nil]

theorem edgesLoop_oof (hfind : env.store.findFlag p.key = some pf)
    (hc : chain.contains pf.key = false) (hres : res pf chain = none) :
    edgesLoop res nested env f chain (p :: ps) = nested pf chain := by
  simp only [edgesLoop, hfind, hc, hres, Bool.false_eq_true, if_false, List.append_nil]

theorem lookupsLoop_missing (hfind : env.store.findFlag p.key = none) :
    lookupsLoop res nestedL env chain (p :: ps) = [p.key] := by
  simp only [lookupsLoop, hfind]

theorem lookupsLoop_cycle (hfind : env.store.findFlag p.key = some pf)
    (hc : chain.contains pf.key = true) :
    lookupsLoop res nestedL env chain (p :: ps) = [p.key] := by
  simp only [lookupsLoop, hfind, hc, if_true]

theorem lookupsLoop_done {d : Detail} (hfind : env.store.findFlag p.key = some pf)
    (hc : chain.contains pf.key = false) (hres : res pf chain = some (d, true)) :
    lookupsLoop res nestedL env chain (p :: ps) =
      p.key :: (nestedL pf chain ++
        (if prereqMet pf p d then lookupsLoop res nestedL env chain ps else [])) := by
  simp only [lookupsLoop, hfind, hc, hres, Bool.false_eq_true, if_false]

theorem lookupsLoop_abort {d : Detail} (hfind : env.store.findFlag p.key = some pf)
    (hc : chain.contains pf.key = false) (hres : res pf chain = some (d, false)) :
    lookupsLoop res nestedL env chain (p :: ps) = p.key :: nestedL pf chain := by
  simp only [lookupsLoop, hfind, hc, hres, Bool.false_eq_true, if_false, List.append_nil]

theorem lookupsLoop_oof (hfind : env.store.findFlag p.key = some pf)
    (hc : chain.contains pf.key = false) (hres : res pf chain = none) :
    lookupsLoop res nestedL env chain (p :: ps) = p.key :: nestedL pf chain := by
  simp only [lookupsLoop, hfind, hc, hres, Bool.false_eq_true, if_false, List.append_nil]

end Unfold

/-! ### The model computes the specification -/

/-- The events for a list of edges, if the recorder is on. -/
def evOf (env : Env) (es : List Edge) : List Event :=
  if env.opts.recorder then es.map Edge.event else []

theorem evOf_nil (env : Env) : evOf env [] = [] := by
  unfold evOf; split <;> rfl

theorem evOf_append (env : Env) (a b : List Edge) : evOf env (a ++ b) = evOf env a ++ evOf env b := by
  unfold evOf; split
  · exact List.map_append
  · rfl

theorem evOf_cons (env : Env) (e : Edge) (es : List Edge) :
    evOf env (e :: es) = evOf env [e] ++ evOf env es := by
  rw [← evOf_append]; rfl

theorem afterPrereq_events_evOf (env : Env) (f pf : Flag) (p : Prereq) (old : Option Status)
    (d : Detail) (st2 : St) :
    (afterPrereq env f pf old d st2).events = st2.events ++ evOf env [⟨f, p, pf, d⟩] := by
  cases h : env.opts.recorder with
  | true => rw [afterPrereq_events_on _ _ _ _ _ h]; simp [evOf, h, Edge.event]
  | false => rw [afterPrereq_events_off _ _ _ _ _ h]; simp [evOf, h]

/-- What the parametric lemmas assume about the open recursion: it refines `res`, keeps the cache
consistent, and appends exactly the specified events and lookups. -/
def FlagRecTrace (env : Env) (rec : FlagRec) (res : Spec.FlagRec)
    (nested : Flag → List String → List Edge) (nestedL : Flag → List String → List String) : Prop :=
  ∀ pf c st, Consistent env st →
    (rec pf c st).1.toSpec = res pf c ∧ Consistent env (rec pf c st).2 ∧
    (rec pf c st).2.events = st.events ++ evOf env (nested pf c) ∧
    (rec pf c st).2.flagLookups = st.flagLookups ++ nestedL pf c

theorem prereqLoop_trace {env : Env} {rec : FlagRec} {res : Spec.FlagRec}
    {nested : Flag → List String → List Edge} {nestedL : Flag → List String → List String}
    (hrec : FlagRecTrace env rec res nested nestedL) (f : Flag) (chain : List String) :
    ∀ ps st, Consistent env st →
      (prereqLoop rec env f chain ps st).2.events =
        st.events ++ evOf env (edgesLoop res nested env f chain ps) ∧
      (prereqLoop rec env f chain ps st).2.flagLookups =
        st.flagLookups ++ lookupsLoop res nestedL env chain ps := by
  intro ps
  induction ps with
  | nil =>
    intro st _
    simp [prereqLoop, edgesLoop, lookupsLoop, evOf_nil]
  | cons p ps ih =>
    intro st hcons
    have hcons1 : Consistent env (lookedUp st p.key) := hcons.of_cache_eq rfl
    cases hfind : env.store.findFlag p.key with
    | none =>
      rw [prereqLoop_missing hfind, edgesLoop_missing hfind, lookupsLoop_missing hfind, evOf_nil]
      exact ⟨(List.append_nil _).symm, rfl⟩
    | some pf =>
      cases hc : chain.contains pf.key with
      | true =>
        rw [prereqLoop_cycle hfind hc, edgesLoop_cycle hfind hc, lookupsLoop_cycle hfind hc,
          evOf_nil, logErr_events, logErr_flagLookups]
        exact ⟨(List.append_nil _).symm, rfl⟩
      | false =>
        obtain ⟨h1, h2, h3, h4⟩ := hrec pf chain (lookedUp st p.key) hcons1
        generalize hr : rec pf chain (lookedUp st p.key) = r at h1 h2 h3 h4
        obtain ⟨out, st2⟩ := r
        simp only at h1 h2 h3 h4
        have h3' : st2.events = st.events ++ evOf env (nested pf chain) := h3
        have h4' : st2.flagLookups = st.flagLookups ++ p.key :: nestedL pf chain := by
          rw [h4]; simp [lookedUp]
        cases out with
        | oof =>
          have hres : res pf chain = none := h1.symm
          rw [prereqLoop_oof hfind hc hr, edgesLoop_oof hfind hc hres, lookupsLoop_oof hfind hc hres]
          exact ⟨h3', h4'⟩
        | done d ok =>
          cases ok with
          | false =>
            have hres : res pf chain = some (d, false) := h1.symm
            rw [prereqLoop_abort hfind hc hr, edgesLoop_abort hfind hc hres,
              lookupsLoop_abort hfind hc hres]
            exact ⟨h3', h4'⟩
          | true =>
            have hres : res pf chain = some (d, true) := h1.symm
            have hcons4 : Consistent env (afterPrereq env f pf st.status d st2) := by
              apply h2.of_cache_eq
              unfold afterPrereq; split <;> rfl
            have he4 : (afterPrereq env f pf st.status d st2).events =
                st.events ++ evOf env (nested pf chain) ++ evOf env [⟨f, p, pf, d⟩] := by
              rw [afterPrereq_events_evOf env f pf p, h3']
            have hl4 : (afterPrereq env f pf st.status d st2).flagLookups =
                st.flagLookups ++ p.key :: nestedL pf chain := by
              rw [afterPrereq_flagLookups, h4']
            rw [prereqLoop_done hfind hc hr, edgesLoop_done hfind hc hres,
              lookupsLoop_done hfind hc hres, evOf_append, evOf_cons]
            cases hm : prereqMet pf p d with
            | true =>
              simp only [if_true]
              obtain ⟨i1, i2⟩ := ih _ hcons4
              rw [i1, i2, he4, hl4]
              simp [List.append_assoc]
            | false =>
              simp only [Bool.false_eq_true, if_false, evOf_nil, List.append_nil]
              rw [he4, hl4]
              simp [List.append_assoc]

theorem evalBody_trace {env : Env} {rec : FlagRec} {res : Spec.FlagRec} {seg : SegRec}
    {nested : Flag → List String → List Edge} {nestedL : Flag → List String → List String}
    (hrec : FlagRecTrace env rec res nested nestedL) (hseg : SegRecSameEv seg)
    (f : Flag) (chain : List String) (st : St) (hcons : Consistent env st) :
    (evalBody rec seg env f chain st).2.events =
        st.events ++ evOf env (edgesBody res nested env f chain) ∧
    (evalBody rec seg env f chain st).2.flagLookups =
        st.flagLookups ++ lookupsBody res nestedL env f chain := by
  unfold evalBody edgesBody lookupsBody
  cases hon : f.on with
  | false =>
    simp only [Bool.not_false, if_true, Bool.false_eq_true, if_false, evOf_nil, List.append_nil]
    have h := getOffValue_sameEv env f .off st
    generalize getOffValue env f .off st = x at h
    obtain ⟨d, st1⟩ := x
    exact h
  | true =>
    simp only [Bool.not_true, Bool.false_eq_true, if_false, if_true]
    have h1 : (checkPrereqs rec env f chain st).2.events =
          st.events ++ evOf env (edgesLoop res nested env f (chain ++ [f.key]) f.prerequisites) ∧
        (checkPrereqs rec env f chain st).2.flagLookups =
          st.flagLookups ++ lookupsLoop res nestedL env (chain ++ [f.key]) f.prerequisites := by
      unfold checkPrereqs
      split
      · rename_i he
        have : f.prerequisites = [] := by simpa using he
        rw [this]
        simp [edgesLoop, lookupsLoop, evOf_nil]
      · exact prereqLoop_trace hrec f _ _ st hcons
    generalize checkPrereqs rec env f chain st = r at h1
    obtain ⟨out, st1⟩ := r
    simp only at h1
    obtain ⟨h1e, h1l⟩ := h1
    rw [← h1e, ← h1l]
    cases out with
    | oof => exact ⟨rfl, rfl⟩
    | malformed => exact ⟨rfl, rfl⟩
    | failed k =>
      simp only
      have h := getOffValue_sameEv env f (.prereqFailed k) st1
      generalize getOffValue env f (.prereqFailed k) st1 = x at h
      obtain ⟨d, st2⟩ := x
      exact h
    | ok =>
      simp only
      split
      · rename_i v _
        have h := getVariation_sameEv env f v .targetMatch st1
        generalize getVariation env f v .targetMatch st1 = x at h
        obtain ⟨d, st2⟩ := x
        exact h
      · exact rulesLoop_sameEv hseg f _ _ _

/-- THE INVARIANT: from any state whose membership cache is consistent with the provider, one
evaluation of `f` appends exactly the specified events (if the recorder is on) and exactly the
specified lookups, whatever the fuel and the path. -/
theorem evalFlag_trace (sf : Nat) (env : Env) :
    ∀ n f chain st, Consistent env st →
      (evalFlag sf n env f chain st).2.events = st.events ++ evOf env (edges sf n env f chain) ∧
      (evalFlag sf n env f chain st).2.flagLookups = st.flagLookups ++ lookups sf n env f chain := by
  intro n
  induction n with
  | zero =>
    intro f chain st _
    simp [evalFlag, edges, lookups, evOf_nil]
  | succ n ih =>
    intro f chain st hcons
    show (evalBody (evalFlag sf n env) (segContains sf env) env f chain st).2.events = _ ∧
      (evalBody (evalFlag sf n env) (segContains sf env) env f chain st).2.flagLookups = _
    apply evalBody_trace _ (segContains_sameEv sf env) f chain st hcons
    intro pf c st1 hc1
    obtain ⟨r1, r2⟩ := evalFlag_refines sf n env pf c st1 hc1
    obtain ⟨i1, i2⟩ := ih pf c st1 hc1
    exact ⟨r1, r2, i1, i2⟩

/-! ### Every specified edge is an edge of the store graph with a completed standalone evaluation -/

/-- `e` is an edge of the store graph below `root`: the dependent flag is the root flag or a flag of
the store, it lists the prerequisite, the store answers the lookup of the listed key with `e.pf`,
and `e.d` is what `e.pf` evaluates to on its own (empty path, full fuel) — a COMPLETED evaluation. -/
def EdgeOK (env : Env) (root : Flag) (e : Edge) : Prop :=
  (e.dep = root ∨ e.dep ∈ env.store.flags.map (·.2)) ∧ e.prereq ∈ e.dep.prerequisites ∧
  env.store.findFlag e.prereq.key = some e.pf ∧
  Spec.evalFlag (segFuel env.store) (flagFuel env.store) env e.pf [] = some (e.d, true)

theorem edgesLoop_ok {res : Spec.FlagRec} {nested : Flag → List String → List Edge} {env : Env}
    {root f : Flag} {chain : List String}
    (hres : ∀ pf c d, res pf c = some (d, true) →
      Spec.evalFlag (segFuel env.store) (flagFuel env.store) env pf [] = some (d, true))
    (hnested : ∀ pf c, pf ∈ env.store.flags.map (·.2) → ∀ e ∈ nested pf c, EdgeOK env root e)
    (hf : f = root ∨ f ∈ env.store.flags.map (·.2)) :
    ∀ ps, (∀ p ∈ ps, p ∈ f.prerequisites) →
      ∀ e ∈ edgesLoop res nested env f chain ps, EdgeOK env root e := by
  intro ps
  induction ps with
  | nil => intro _ e he; simp [edgesLoop] at he
  | cons p ps ih =>
    intro hps e he
    cases hfind : env.store.findFlag p.key with
    | none => rw [edgesLoop_missing hfind] at he; cases he
    | some pf =>
      cases hc : chain.contains pf.key with
      | true => rw [edgesLoop_cycle hfind hc] at he; cases he
      | false =>
        have hpf := (findFlag_key hfind).2
        cases hr : res pf chain with
        | none => rw [edgesLoop_oof hfind hc hr] at he; exact hnested pf chain hpf e he
        | some r =>
          obtain ⟨d, ok⟩ := r
          cases ok with
          | false => rw [edgesLoop_abort hfind hc hr] at he; exact hnested pf chain hpf e he
          | true =>
            rw [edgesLoop_done hfind hc hr, List.mem_append, List.mem_cons] at he
            rcases he with he | he | he
            · exact hnested pf chain hpf e he
            · subst he
              exact ⟨hf, hps p (List.mem_cons_self ..), hfind, hres pf chain d hr⟩
            · split at he
              · exact ih (fun q hq => hps q (List.mem_cons_of_mem _ hq)) e he
              · cases he

theorem edges_ok (env : Env) (root : Flag) :
    ∀ n, n ≤ flagFuel env.store → ∀ f chain, (f = root ∨ f ∈ env.store.flags.map (·.2)) →
      ∀ e ∈ edges (segFuel env.store) n env f chain, EdgeOK env root e := by
  intro n
  induction n with
  | zero => intro _ f chain _ e he; simp [edges] at he
  | succ n ih =>
    intro hn f chain hf e he
    simp only [edges, edgesBody] at he
    split at he
    · refine edgesLoop_ok ?_ ?_ hf _ (fun _ h => h) e he
      · intro pf c d h
        exact Spec.evalFlag_weaken_le _ env (Nat.le_of_succ_le hn) (Spec.SubChain.nil c) h
      · intro pf c hpf e he
        exact ih (Nat.le_of_succ_le hn) pf c (.inr hpf) e he
    · cases he

/-! ### A completed evaluation records the same whatever the path and the fuel -/

theorem loop_weaken {res res' : Spec.FlagRec} {nested nested' : Flag → List String → List Edge}
    {nestedL nestedL' : Flag → List String → List String} {env : Env} {f : Flag}
    {c c' : List String} (hsub : Spec.SubChain c' c)
    (hres : ∀ pf d, res pf c = some (d, true) → res' pf c' = some (d, true))
    (hnest : ∀ pf d, res pf c = some (d, true) →
      nested' pf c' = nested pf c ∧ nestedL' pf c' = nestedL pf c) :
    ∀ ps, (Spec.prereqLoop res env c ps).Completed →
      edgesLoop res' nested' env f c' ps = edgesLoop res nested env f c ps ∧
      lookupsLoop res' nestedL' env c' ps = lookupsLoop res nestedL env c ps := by
  intro ps
  induction ps with
  | nil => intro _; exact ⟨rfl, rfl⟩
  | cons p ps ih =>
    intro hcomp
    cases hfind : env.store.findFlag p.key with
    | none =>
      rw [edgesLoop_missing hfind, edgesLoop_missing hfind, lookupsLoop_missing hfind,
        lookupsLoop_missing hfind]
      exact ⟨rfl, rfl⟩
    | some pf =>
      simp only [Spec.prereqLoop, hfind] at hcomp
      cases hc : c.contains pf.key with
      | true => rw [hc] at hcomp; simp [Spec.PrereqOut.Completed] at hcomp
      | false =>
        have hc' : c'.contains pf.key = false := by
          cases hx : c'.contains pf.key with
          | false => rfl
          | true => rw [hsub _ hx] at hc; cases hc
        rw [hc] at hcomp
        simp only [Bool.false_eq_true, if_false] at hcomp
        cases hr : res pf c with
        | none => rw [hr] at hcomp; simp [Spec.PrereqOut.Completed] at hcomp
        | some r =>
          obtain ⟨d, ok⟩ := r
          rw [hr] at hcomp
          cases ok with
          | false => simp [Spec.PrereqOut.Completed] at hcomp
          | true =>
            obtain ⟨n1, n2⟩ := hnest pf d hr
            rw [edgesLoop_done hfind hc hr, edgesLoop_done hfind hc' (hres pf d hr),
              lookupsLoop_done hfind hc hr, lookupsLoop_done hfind hc' (hres pf d hr), n1, n2]
            simp only [Bool.not_true, Bool.false_eq_true, if_false] at hcomp
            cases hm : prereqMet pf p d with
            | true =>
              have hm' : (pf.on && d.index.isSome && d.index == some p.variation) = true := hm
              rw [if_pos hm'] at hcomp
              obtain ⟨i1, i2⟩ := ih hcomp
              simp only [if_true, i1, i2, and_self]
            | false => simp only [Bool.false_eq_true, if_false, and_self]

/-- An evaluation that completed without abort (`ok = true`) evaluates the same edges and looks the
same keys up under any sub-path and with any larger fuel: a completed evaluation never failed a
cycle test and never ran out of fuel, anywhere below it. -/
theorem trace_weaken_le (sf : Nat) (env : Env) :
    ∀ n m f c c' d, n ≤ m → Spec.SubChain c' c → Spec.evalFlag sf n env f c = some (d, true) →
      edges sf m env f c' = edges sf n env f c ∧ lookups sf m env f c' = lookups sf n env f c := by
  intro n
  induction n with
  | zero => intro m f c c' d _ _ h; cases h
  | succ n ih =>
    intro m f c c' d hnm hsub h
    obtain ⟨m, rfl⟩ : ∃ m', m = m' + 1 := ⟨m - 1, by omega⟩
    have hnm' : n ≤ m := by omega
    simp only [edges, lookups, edgesBody, lookupsBody]
    cases hon : f.on with
    | false => simp
    | true =>
      simp only [if_true]
      simp only [Spec.evalFlag, Spec.evalBody, hon, Bool.not_true, Bool.false_eq_true, if_false,
        Spec.checkPrereqs] at h
      apply loop_weaken (hsub.snoc f.key)
      · intro pf d' h'
        exact Spec.evalFlag_weaken_le sf env hnm' (hsub.snoc f.key) h'
      · intro pf d' h'
        exact ih m pf _ _ d' hnm' (hsub.snoc f.key) h'
      · cases he : f.prerequisites.isEmpty with
        | true =>
          have : f.prerequisites = [] := by simpa using he
          rw [this]; trivial
        | false =>
          rw [he] at h
          simp only [Bool.false_eq_true, if_false] at h
          generalize Spec.prereqLoop (Spec.evalFlag sf n env) env (c ++ [f.key]) f.prerequisites
            = out at h
          cases out with
          | ok => trivial
          | failed k => trivial
          | malformed => simp at h
          | oof => simp at h

/-- In particular: what a completed nested evaluation of `pf` records is what `pf` records when it
is evaluated on its own. -/
theorem trace_standalone {env : Env} {n : Nat} {pf : Flag} {c : List String} {d : Detail}
    (hn : n ≤ flagFuel env.store)
    (h : Spec.evalFlag (segFuel env.store) n env pf c = some (d, true)) :
    edges (segFuel env.store) n env pf c = evaluatedEdges env pf ∧
    lookups (segFuel env.store) n env pf c = expectedLookups env pf := by
  obtain ⟨h1, h2⟩ := trace_weaken_le (segFuel env.store) env n (flagFuel env.store) pf c [] d hn
    (Spec.SubChain.nil c) h
  exact ⟨h1.symm, h2.symm⟩

/-! ### `evaluate` -/

/-- `evaluate` records exactly the specified events (recorder on) and looks exactly the specified
keys up. -/
theorem evaluate_trace (env : Env) (f : Flag) (hctx : env.ctx ≠ .invalid) :
    (evaluate env f).events = evOf env (evaluatedEdges env f) ∧
    (evaluate env f).flagLookups = expectedLookups env f := by
  have h := evalFlag_trace (segFuel env.store) env (flagFuel env.store) f [] {}
    (Consistent.empty env)
  unfold evaluate
  split
  · rename_i hc; exact absurd hc hctx
  · generalize evalFlag (segFuel env.store) (flagFuel env.store) env f [] {} = r at h
    obtain ⟨out, st⟩ := r
    simpa [evaluatedEdges, expectedLookups] using h

theorem evaluate_invalid_trace (env : Env) (f : Flag) (hctx : env.ctx = .invalid) :
    (evaluate env f).events = [] ∧ (evaluate env f).flagLookups = [] := by
  unfold evaluate
  rw [hctx]
  exact ⟨rfl, rfl⟩

/-! ### Post-order of the whole list -/

/-- Every edge of `L`, wherever the list is split at it, is IMMEDIATELY preceded by the complete
edge list of evaluating its prerequisite flag on its own. -/
def PostOrdered (env : Env) (L : List Edge) : Prop :=
  ∀ pre e post, L = pre ++ e :: post → evaluatedEdges env e.pf <:+ pre

theorem PostOrdered.nil (env : Env) : PostOrdered env [] := by
  intro pre e post h
  cases pre <;> cases h

theorem PostOrdered.node {env : Env} {a b : List Edge} {e : Edge} (ha : PostOrdered env a)
    (he : evaluatedEdges env e.pf <:+ a) (hb : PostOrdered env b) :
    PostOrdered env (a ++ e :: b) := by
  intro pre x post h
  rcases List.append_eq_append_iff.mp h with ⟨a', h1, h2⟩ | ⟨c', h1, h2⟩
  · cases a' with
    | nil =>
      simp only [List.nil_append, List.cons.injEq] at h2
      rw [h1, List.append_nil, ← h2.1]; exact he
    | cons y a'' =>
      simp only [List.cons_append, List.cons.injEq] at h2
      obtain ⟨rfl, h2⟩ := h2
      have := hb a'' x post h2
      rw [h1]
      exact this.trans ((List.suffix_cons _ _).trans (List.suffix_append _ _))
  · cases c' with
    | nil =>
      simp only [List.nil_append, List.cons.injEq] at h2
      rw [List.append_nil] at h1
      rw [← h1, h2.1]; exact he
    | cons y c'' =>
      simp only [List.cons_append, List.cons.injEq] at h2
      obtain ⟨rfl, _⟩ := h2
      exact ha pre x c'' h1

theorem edgesLoop_postOrdered {res : Spec.FlagRec} {nested : Flag → List String → List Edge}
    {env : Env} {f : Flag} {chain : List String}
    (hnested : ∀ pf c, PostOrdered env (nested pf c))
    (hstand : ∀ pf d, res pf chain = some (d, true) → nested pf chain = evaluatedEdges env pf) :
    ∀ ps, PostOrdered env (edgesLoop res nested env f chain ps) := by
  intro ps
  induction ps with
  | nil => exact .nil env
  | cons p ps ih =>
    cases hfind : env.store.findFlag p.key with
    | none => rw [edgesLoop_missing hfind]; exact .nil env
    | some pf =>
      cases hc : chain.contains pf.key with
      | true => rw [edgesLoop_cycle hfind hc]; exact .nil env
      | false =>
        cases hr : res pf chain with
        | none => rw [edgesLoop_oof hfind hc hr]; exact hnested pf chain
        | some r =>
          obtain ⟨d, ok⟩ := r
          cases ok with
          | false => rw [edgesLoop_abort hfind hc hr]; exact hnested pf chain
          | true =>
            rw [edgesLoop_done hfind hc hr]
            refine .node (hnested pf chain) ?_ ?_
            · show evaluatedEdges env pf <:+ nested pf chain
              rw [hstand pf d hr]; exact List.suffix_refl _
            · split
              · exact ih
              · exact .nil env

theorem edges_postOrdered (env : Env) :
    ∀ n, n ≤ flagFuel env.store → ∀ f chain,
      PostOrdered env (edges (segFuel env.store) n env f chain) := by
  intro n
  induction n with
  | zero => intro _ f chain; exact .nil env
  | succ n ih =>
    intro hn f chain
    simp only [edges, edgesBody]
    split
    · apply edgesLoop_postOrdered
      · intro pf c; exact ih (Nat.le_of_succ_le hn) pf c
      · intro pf d h; exact (trace_standalone (Nat.le_of_succ_le hn) h).1
    · exact .nil env

/-! ### Never more events than lookups -/

theorem loop_length_le {res : Spec.FlagRec} {nested : Flag → List String → List Edge}
    {nestedL : Flag → List String → List String} {env : Env} {f : Flag} {chain : List String}
    (hn : ∀ pf c, (nested pf c).length ≤ (nestedL pf c).length) :
    ∀ ps, (edgesLoop res nested env f chain ps).length ≤
      (lookupsLoop res nestedL env chain ps).length := by
  intro ps
  induction ps with
  | nil => exact Nat.le_refl _
  | cons p ps ih =>
    cases hfind : env.store.findFlag p.key with
    | none => rw [edgesLoop_missing hfind]; exact Nat.zero_le _
    | some pf =>
      cases hc : chain.contains pf.key with
      | true => rw [edgesLoop_cycle hfind hc]; exact Nat.zero_le _
      | false =>
        have := hn pf chain
        cases hr : res pf chain with
        | none =>
          rw [edgesLoop_oof hfind hc hr, lookupsLoop_oof hfind hc hr, List.length_cons]; omega
        | some r =>
          obtain ⟨d, ok⟩ := r
          cases ok with
          | false =>
            rw [edgesLoop_abort hfind hc hr, lookupsLoop_abort hfind hc hr, List.length_cons]; omega
          | true =>
            rw [edgesLoop_done hfind hc hr, lookupsLoop_done hfind hc hr]
            simp only [List.length_append, List.length_cons]
            split
            · omega
            · simp only [List.length_nil]; omega

theorem edges_length_le (sf : Nat) (env : Env) :
    ∀ n f chain, (edges sf n env f chain).length ≤ (lookups sf n env f chain).length := by
  intro n
  induction n with
  | zero => intro f chain; exact Nat.le_refl _
  | succ n ih =>
    intro f chain
    simp only [edges, lookups, edgesBody, lookupsBody]
    split
    · exact loop_length_le ih _
    · exact Nat.le_refl _

/-! ### The fuel-free, path-free recursion equation of a completed evaluation -/

/-- What `pf` evaluates to on its own. -/
def standaloneRes (env : Env) : Spec.FlagRec :=
  fun pf _ => Spec.evalFlag (segFuel env.store) (flagFuel env.store) env pf []

/-- For an evaluation that completed without abort, `evaluatedEdges` and `expectedLookups` satisfy
the plain recursion over the store graph in which the nested evaluation of a prerequisite is
replaced by the evaluation of that prerequisite on its own — no fuel, no path. -/
theorem trace_unfold {env : Env} {f : Flag} {d : Detail}
    (h : Spec.evalFlag (segFuel env.store) (flagFuel env.store) env f [] = some (d, true)) :
    evaluatedEdges env f =
      (if f.on then
        edgesLoop (standaloneRes env) (fun pf _ => evaluatedEdges env pf) env f [] f.prerequisites
      else []) ∧
    expectedLookups env f =
      (if f.on then
        lookupsLoop (standaloneRes env) (fun pf _ => expectedLookups env pf) env [] f.prerequisites
      else []) := by
  obtain ⟨n, hff⟩ : ∃ n, flagFuel env.store = n + 1 := ⟨_, rfl⟩
  have hn : n ≤ flagFuel env.store := by omega
  have e1 : evaluatedEdges env f =
      edgesBody (Spec.evalFlag (segFuel env.store) n env) (edges (segFuel env.store) n env)
        env f [] := by
    unfold evaluatedEdges; rw [hff]; rfl
  have e2 : expectedLookups env f =
      lookupsBody (Spec.evalFlag (segFuel env.store) n env) (lookups (segFuel env.store) n env)
        env f [] := by
    unfold expectedLookups; rw [hff]; rfl
  rw [hff] at h
  rw [e1, e2]
  unfold edgesBody lookupsBody
  cases hon : f.on with
  | false => simp
  | true =>
    simp only [if_true]
    simp only [Spec.evalFlag, Spec.evalBody, hon, Bool.not_true, Bool.false_eq_true, if_false,
      Spec.checkPrereqs] at h
    have key := loop_weaken (env := env) (f := f) (res := Spec.evalFlag (segFuel env.store) n env)
      (res' := standaloneRes env) (nested := edges (segFuel env.store) n env)
      (nested' := fun pf _ => evaluatedEdges env pf)
      (nestedL := lookups (segFuel env.store) n env)
      (nestedL' := fun pf _ => expectedLookups env pf)
      (Spec.SubChain.nil ([] ++ [f.key])) ?_ ?_ f.prerequisites ?_
    · exact ⟨key.1.symm, key.2.symm⟩
    · intro pf d' h'
      exact Spec.evalFlag_weaken_le _ env hn (Spec.SubChain.nil _) h'
    · intro pf d' h'
      exact ⟨(trace_standalone hn h').1.symm, (trace_standalone hn h').2.symm⟩
    · cases he : f.prerequisites.isEmpty with
      | true =>
        have : f.prerequisites = [] := by simpa using he
        rw [this]; trivial
      | false =>
        rw [he] at h
        simp only [Bool.false_eq_true, if_false] at h
        generalize Spec.prereqLoop (Spec.evalFlag (segFuel env.store) n env) env
          ([] ++ [f.key]) f.prerequisites = out at h
        cases out with
        | ok => trivial
        | failed k => trivial
        | malformed => simp at h
        | oof => simp at h

theorem evaluatedEdges_unfold {env : Env} {f : Flag} {d : Detail}
    (h : Spec.evalFlag (segFuel env.store) (flagFuel env.store) env f [] = some (d, true)) :
    evaluatedEdges env f =
      if f.on then
        edgesLoop (standaloneRes env) (fun pf _ => evaluatedEdges env pf) env f [] f.prerequisites
      else [] :=
  (trace_unfold h).1

end EventSpec

end LD

/-
  LDEval.Proofs.AuditClauseEval — helper lemmas for the strengthened statements of C04 / C05
  (theorem audit, findings #10 and #16): how the outcome of ONE rule of a flag — and of one clause
  of that rule — shows in what `evaluate` returns.

  * `ReachesRules env f`: the evaluation of `f` gets as far as the rule list (valid context,
    targeting on, prerequisites met, no individual target).
  * `AtRule env f pre r post`: … and arrives at rule `r` (every earlier rule is a plain non-match).
  * `AtClause …`: … and arrives at clause `c` of that rule (every earlier clause matches).
  * `AtRule.matched` / `AtRule.errored` / `AtRule.ruleMatch_iff`: what `evaluate` returns when the
    clauses of `r` match / err, and "RULE_MATCH at this rule ⇔ its clauses match".
  * fuel: the membership function `evaluate` hands to the rules, `topSeg env`, and the functions it
    uses for nested segment references are the same relation (`segContains_fuel_irrelevant`).
-/
import LDEval.Proofs.Prereq

namespace LD.ClauseEval

/-- The segment-membership function `evaluate` hands to the rules of the flag it evaluates. -/
abbrev topSeg (env : Env) : Spec.SegRec := Spec.segContains (segFuel env.store) env

/-- The prerequisite-evaluation function `evaluate` uses for the prerequisites of the top flag. -/
abbrev topFlag (env : Env) : Spec.FlagRec :=
  Spec.evalFlag (segFuel env.store) (distinctCount (env.store.flags.map (·.2.key)) + 1) env

/-- The evaluation of `f` gets as far as its rule list: the context is valid, targeting is on,
every prerequisite is met and no individual target matches. -/
structure ReachesRules (env : Env) (f : Flag) : Prop where
  ctx : env.ctx ≠ .invalid
  on : f.on = true
  prereqs : Spec.checkPrereqs (topFlag env) env f [] = .ok
  targets : anyTargetMatch env.ctx f = none

/-- A flag without prerequisites passes the prerequisite stage. -/
theorem ReachesRules.of_no_prereqs {env : Env} {f : Flag} (hc : env.ctx ≠ .invalid)
    (hon : f.on = true) (hp : f.prerequisites = []) (ht : anyTargetMatch env.ctx f = none) :
    ReachesRules env f :=
  ⟨hc, hon, by simp [Spec.checkPrereqs, hp], ht⟩

theorem evalFlag_eq_rulesLoop {env : Env} {f : Flag} (h : ReachesRules env f) :
    Spec.evalFlag (segFuel env.store) (flagFuel env.store) env f [] =
      Spec.rulesLoop (topSeg env) env f f.rules 0 := by
  show Spec.evalBody (topFlag env) (topSeg env) env f [] = _
  simp [Spec.evalBody, h.on, h.prereqs, h.targets]

/-! ### The rule loop -/

section loop
variable {seg : Spec.SegRec} {env : Env} {f : Flag}

theorem rulesLoop_skip (pre rest : List FlagRule) (i : Nat)
    (hpre : ∀ q ∈ pre, Spec.clausesMatch seg env [] q.clauses = .ok false) :
    Spec.rulesLoop seg env f (pre ++ rest) i = Spec.rulesLoop seg env f rest (i + pre.length) := by
  induction pre generalizing i with
  | nil => simp
  | cons q pre ih =>
    simp only [List.cons_append, Spec.rulesLoop, hpre q (List.mem_cons_self ..), List.length_cons]
    rw [ih (i + 1) (fun q' hq' => hpre q' (List.mem_cons_of_mem _ hq'))]
    congr 1; omega

theorem getVariation_reason (f : Flag) (i : Int) (r : Reason) :
    (Spec.getVariation f i r).reason = r ∨
      (Spec.getVariation f i r).reason = Reason.error .malformedFlag := by
  unfold Spec.getVariation
  split
  · right; rfl
  · left; rfl

/-- The detail a rule or the fallthrough produces carries the reason it was asked for (possibly
marked "in experiment"), or is an error. -/
theorem getValueForVR_reason (env : Env) (f : Flag) (vr : VariationOrRollout) (r : Reason) :
    (Spec.getValueForVR env f vr r).reason.kind = .error ∨
      ((Spec.getValueForVR env f vr r).reason.kind = r.kind ∧
       (Spec.getValueForVR env f vr r).reason.ruleIndex = r.ruleIndex ∧
       (Spec.getValueForVR env f vr r).reason.ruleId = r.ruleId) := by
  unfold Spec.getValueForVR
  split
  · left; rfl
  · rename_i index inExp _
    have hte : r.toExperiment.kind = r.kind ∧ r.toExperiment.ruleIndex = r.ruleIndex ∧
        r.toExperiment.ruleId = r.ruleId := by
      unfold Reason.toExperiment; split <;> exact ⟨rfl, rfl, rfl⟩
    rcases getVariation_reason f index (if inExp = true then r.toExperiment else r) with h | h
    · right; rw [h]; split
      · exact hte
      · exact ⟨rfl, rfl, rfl⟩
    · left; rw [h]; rfl

/-- A RULE_MATCH produced by the rule loop started at index `i` names a rule at index `≥ i`. -/
theorem rulesLoop_ruleIndex_ge (rs : List FlagRule) (i : Nat) (d : Detail) (ok : Bool)
    (h : Spec.rulesLoop seg env f rs i = some (d, ok)) (hk : d.reason.kind = .ruleMatch) :
    (i : Int) ≤ d.reason.ruleIndex := by
  induction rs generalizing i with
  | nil =>
    simp only [Spec.rulesLoop, Option.some.injEq, Prod.mk.injEq] at h
    obtain ⟨rfl, -⟩ := h
    rcases getValueForVR_reason env f f.fallthrough .fallthrough with h1 | ⟨h1, -, -⟩
    · rw [h1] at hk; cases hk
    · rw [h1] at hk; cases hk
  | cons r rs ih =>
    simp only [Spec.rulesLoop] at h
    split at h
    · simp only [Option.some.injEq, Prod.mk.injEq] at h
      obtain ⟨rfl, -⟩ := h; cases hk
    · cases h
    · simp only [Option.some.injEq, Prod.mk.injEq] at h
      obtain ⟨rfl, -⟩ := h
      rcases getValueForVR_reason env f r.vr (.ruleMatch i r.id) with h1 | ⟨-, h1, -⟩
      · rw [h1] at hk; cases hk
      · rw [h1]; exact Int.le_refl _
    · have := ih (i + 1) h
      omega

end loop

/-! ### Clause lists -/

section clauses
variable {rec : Spec.SegRec} {env : Env} {chain : List String}

/-- Clauses are tested left to right: once every earlier clause matched, clause `c` decides whether
the later ones are looked at at all. -/
theorem clausesMatch_at (cpre : List Clause) (c : Clause) (cpost : List Clause)
    (hcpre : ∀ q ∈ cpre, Spec.clauseMatch rec env chain q = .ok true) :
    Spec.clausesMatch rec env chain (cpre ++ c :: cpost) =
      match Spec.clauseMatch rec env chain c with
      | .ok true => Spec.clausesMatch rec env chain cpost
      | r => r := by
  induction cpre with
  | nil => rfl
  | cons q cpre ih =>
    simp only [List.cons_append, Spec.clausesMatch, hcpre q (List.mem_cons_self ..)]
    exact ih (fun q' hq' => hcpre q' (List.mem_cons_of_mem _ hq'))

theorem clausesMatch_all (cs : List Clause)
    (h : ∀ q ∈ cs, Spec.clauseMatch rec env chain q = .ok true) :
    Spec.clausesMatch rec env chain cs = .ok true := by
  induction cs with
  | nil => rfl
  | cons q cs ih =>
    simp only [Spec.clausesMatch, h q (List.mem_cons_self ..)]
    exact ih (fun q' hq' => h q' (List.mem_cons_of_mem _ hq'))

theorem clausesMatch_at_err (cpre : List Clause) (c : Clause) (cpost : List Clause) (e : EvalErr)
    (hcpre : ∀ q ∈ cpre, Spec.clauseMatch rec env chain q = .ok true)
    (hc : Spec.clauseMatch rec env chain c = .err e) :
    Spec.clausesMatch rec env chain (cpre ++ c :: cpost) = .err e := by
  rw [clausesMatch_at cpre c cpost hcpre, hc]

theorem clausesMatch_at_false (cpre : List Clause) (c : Clause) (cpost : List Clause)
    (hcpre : ∀ q ∈ cpre, Spec.clauseMatch rec env chain q = .ok true)
    (hc : Spec.clauseMatch rec env chain c = .ok false) :
    Spec.clausesMatch rec env chain (cpre ++ c :: cpost) = .ok false := by
  rw [clausesMatch_at cpre c cpost hcpre, hc]

/-- With every other clause of the list matching, the list matches iff clause `c` does. -/
theorem clausesMatch_at_iff (cpre : List Clause) (c : Clause) (cpost : List Clause)
    (hcpre : ∀ q ∈ cpre, Spec.clauseMatch rec env chain q = .ok true)
    (hcpost : ∀ q ∈ cpost, Spec.clauseMatch rec env chain q = .ok true) :
    Spec.clausesMatch rec env chain (cpre ++ c :: cpost) = .ok true ↔
      Spec.clauseMatch rec env chain c = .ok true := by
  rw [clausesMatch_at cpre c cpost hcpre]
  cases hc : Spec.clauseMatch rec env chain c with
  | ok b => cases b <;> simp [clausesMatch_all cpost hcpost]
  | err e => simp
  | oof => simp

end clauses

/-! ### Fuel: the top-level membership function never runs out, and nested levels agree with it -/

/-- The chain is a duplicate-free list of own keys of stored segments, and `n` units of fuel are
enough to walk through every stored segment not yet on it. -/
structure FuelOK (env : Env) (n : Nat) (chain : List String) : Prop where
  nodup : chain.Nodup
  sub : ∀ k ∈ chain, k ∈ env.store.segments.map (·.2.key)
  bound : distinctCount (env.store.segments.map (·.2.key)) + 1 ≤ n + chain.length

theorem FuelOK.top (env : Env) : FuelOK env (segFuel env.store) [] :=
  ⟨List.nodup_nil, by simp, by simp [segFuel]⟩

/-- One level down: the key of a stored segment not yet on the chain is appended, one unit of fuel
is spent. -/
theorem FuelOK.snoc {env : Env} {n : Nat} {chain : List String} (h : FuelOK env (n + 1) chain)
    {k : String} (hk : k ∈ env.store.segments.map (·.2.key)) (hnot : chain.contains k = false) :
    FuelOK env n (chain ++ [k]) := by
  have hnot' : k ∉ chain := by simpa using hnot
  refine ⟨List.nodup_append.mpr ⟨h.nodup, List.nodup_singleton _, ?_⟩, ?_, ?_⟩
  · intro a ha b hb; simp at hb; subst hb; intro hab; subst hab; exact hnot' ha
  · intro k' hk'
    rcases List.mem_append.mp hk' with h' | h'
    · exact h.sub _ h'
    · simp at h'; subst h'; exact hk
  · have := h.bound; simp only [List.length_append, List.length_cons, List.length_nil]; omega

theorem findSegment_ownKey {env : Env} {k : String} {seg : Segment}
    (h : env.store.findSegment k = some seg) : seg.key ∈ env.store.segments.map (·.2.key) :=
  mem_map_snd_of_mem (·.key) (findSegment_key h).2

/-- With enough fuel the Spec's membership function does not run out on a stored segment. -/
theorem spec_segContains_ne_oof {env : Env} {n : Nat} {chain : List String} (h : FuelOK env n chain)
    (s : Segment) (hs : s.key ∈ env.store.segments.map (·.2.key)) :
    Spec.segContains n env s chain ≠ .oof := by
  have := segContains_no_oof env n s chain {} h.nodup h.sub hs h.bound
  rwa [(segContains_refines n env s chain {} (Consistent.empty env)).1] at this

theorem segRecOK_of_fuelOK {env : Env} {n : Nat} {chain : List String} (h : FuelOK env n chain) :
    SegRecOK (segContains n env) env chain := by
  intro k seg st hfind
  exact segContains_no_oof env n seg chain st h.nodup h.sub (findSegment_ownKey hfind) h.bound

theorem spec_clausesMatch_ne_oof {env : Env} {n : Nat} {chain : List String}
    (h : FuelOK env n chain) (cs : List Clause) :
    Spec.clausesMatch (Spec.segContains n env) env chain cs ≠ .oof := by
  have := clausesMatch_no_oof (segRecOK_of_fuelOK h) cs {}
  rwa [(clausesMatch_refines (segContains_refines n env) chain cs {} (Consistent.empty env)).1]
    at this

theorem spec_segRules_ne_oof {env : Env} {n : Nat} {chain : List String}
    (h : FuelOK env n chain) (s : Segment) (rs : List SegmentRule) :
    Spec.segRules (Spec.segContains n env) env chain s rs ≠ .oof := by
  have := segRules_no_oof (s := s) (segRecOK_of_fuelOK h) rs {}
  rwa [(segRules_refines (segContains_refines n env) chain s rs {} (Consistent.empty env)).1]
    at this

/-- FUEL IS IRRELEVANT: with enough fuel for the chain, the rule list of a segment gives the same
answer whether the nested references are followed with `n` or with any larger amount of fuel.
(Go has no fuel; this says the model's nested membership function is one relation, not a family.) -/
theorem segRules_fuel_irrelevant {env : Env} {n m : Nat} {chain : List String}
    (h : FuelOK env n chain) (hnm : n ≤ m) (s : Segment) (rs : List SegmentRule) :
    Spec.segRules (Spec.segContains m env) env chain s rs =
      Spec.segRules (Spec.segContains n env) env chain s rs :=
  Spec.segRules_mono (Spec.segContains_le env hnm) rs (spec_segRules_ne_oof h s rs)

theorem clausesMatch_fuel_irrelevant {env : Env} {n m : Nat} {chain : List String}
    (h : FuelOK env n chain) (hnm : n ≤ m) (cs : List Clause) :
    Spec.clausesMatch (Spec.segContains m env) env chain cs =
      Spec.clausesMatch (Spec.segContains n env) env chain cs :=
  Spec.clausesMatch_mono (Spec.segContains_le env hnm) cs (spec_clausesMatch_ne_oof h cs)

theorem segContains_fuel_irrelevant {env : Env} {n m : Nat} {chain : List String}
    (h : FuelOK env n chain) (hnm : n ≤ m) (s : Segment)
    (hs : s.key ∈ env.store.segments.map (·.2.key)) :
    Spec.segContains m env s chain = Spec.segContains n env s chain :=
  Spec.segContains_le env hnm s chain (spec_segContains_ne_oof h s hs)

/-- THE MEMBERSHIP FUNCTION IS A FIXPOINT OF ONE LEVEL OF `segmentContainsContext`: with at least
the fuel `evaluate` hands out, on any duplicate-free chain of stored segments, the answer for a
stored segment is one level of the segment body in which every nested reference is answered by the
SAME function (same fuel).  The fuel parameter of the model therefore never shows. -/
theorem segContains_fixpoint {env : Env} {n : Nat} (hn : segFuel env.store ≤ n)
    {chain : List String} (hnd : chain.Nodup)
    (hsub : ∀ k ∈ chain, k ∈ env.store.segments.map (·.2.key))
    (s : Segment) (hs : s.key ∈ env.store.segments.map (·.2.key)) :
    Spec.segContains n env s chain = Spec.segBody (Spec.segContains n env) env s chain := by
  obtain ⟨n', rfl⟩ : ∃ n', n = n' + 1 := ⟨n - 1, by unfold segFuel at hn; omega⟩
  have hf : FuelOK env (n' + 1) chain := ⟨hnd, hsub, by unfold segFuel at hn; omega⟩
  have hne := spec_segContains_ne_oof hf s hs
  exact (Spec.segBody_mono (Spec.segContains_succ env n') s chain hne).symm

/-- The same for the function `evaluate` itself uses. -/
theorem topSeg_fixpoint (env : Env) {chain : List String} (hnd : chain.Nodup)
    (hsub : ∀ k ∈ chain, k ∈ env.store.segments.map (·.2.key))
    (s : Segment) (hs : s.key ∈ env.store.segments.map (·.2.key)) :
    topSeg env s chain = Spec.segBody (topSeg env) env s chain :=
  segContains_fixpoint (Nat.le_refl _) hnd hsub s hs

/-! ### A membership answer never depended on the chain

The chain is only consulted by the cycle test.  An evaluation that ended with an answer (`.ok b`)
never failed that test, so it gives the same answer under any sub-chain — in particular under the
empty chain: the relation asked about a segment referenced from a segment rule is the top-level
relation. -/

/-- Whatever `rec` answers under chain `c` it answers under `c'`. -/
def RecWeak (rec : Spec.SegRec) (c c' : List String) : Prop :=
  ∀ seg b, rec seg c = .ok b → rec seg c' = .ok b

section weaken
variable {rec : Spec.SegRec} {env : Env} {c c' : List String}

theorem segMatchValues_weaken (h : RecWeak rec c c') (negate : Bool) :
    ∀ vs b, Spec.segMatchValues rec env negate c vs = .ok b →
      Spec.segMatchValues rec env negate c' vs = .ok b := by
  intro vs
  induction vs with
  | nil => intro b hb; exact hb
  | cons v vs ih =>
    intro b hb
    cases v with
    | str k =>
      simp only [Spec.segMatchValues] at hb ⊢
      cases hf : env.store.findSegment k with
      | none => rw [hf] at hb; exact ih b hb
      | some seg =>
        rw [hf] at hb
        simp only at hb ⊢
        cases hr : rec seg c with
        | oof => rw [hr] at hb; cases hb
        | err e => rw [hr] at hb; cases hb
        | ok b' =>
          rw [hr] at hb
          rw [h seg b' hr]
          cases b' with
          | true => exact hb
          | false => exact ih b hb
    | null => simp only [Spec.segMatchValues] at hb ⊢; exact ih b hb
    | bool x => simp only [Spec.segMatchValues] at hb ⊢; exact ih b hb
    | num q => simp only [Spec.segMatchValues] at hb ⊢; exact ih b hb
    | arr xs => simp only [Spec.segMatchValues] at hb ⊢; exact ih b hb
    | obj kvs => simp only [Spec.segMatchValues] at hb ⊢; exact ih b hb
    | raw w => simp only [Spec.segMatchValues] at hb ⊢; exact ih b hb

theorem clauseMatch_weaken (h : RecWeak rec c c') (cl : Clause) (b : Bool)
    (hb : Spec.clauseMatch rec env c cl = .ok b) : Spec.clauseMatch rec env c' cl = .ok b := by
  unfold Spec.clauseMatch at hb ⊢
  split
  · rename_i hop; rw [if_pos hop] at hb; exact segMatchValues_weaken h _ _ b hb
  · rename_i hop; rw [if_neg hop] at hb; exact hb

theorem clausesMatch_weaken (h : RecWeak rec c c') :
    ∀ cs b, Spec.clausesMatch rec env c cs = .ok b → Spec.clausesMatch rec env c' cs = .ok b := by
  intro cs
  induction cs with
  | nil => intro b hb; exact hb
  | cons cl cs ih =>
    intro b hb
    simp only [Spec.clausesMatch] at hb ⊢
    cases hr : Spec.clauseMatch rec env c cl with
    | oof => rw [hr] at hb; cases hb
    | err e => rw [hr] at hb; cases hb
    | ok b' =>
      rw [hr] at hb
      rw [clauseMatch_weaken h cl b' hr]
      cases b' with
      | true => exact ih b hb
      | false => exact hb

theorem segRuleMatch_weaken (h : RecWeak rec c c') (key salt : String) (r : SegmentRule) (b : Bool)
    (hb : Spec.segRuleMatch rec env c key salt r = .ok b) :
    Spec.segRuleMatch rec env c' key salt r = .ok b := by
  unfold Spec.segRuleMatch at hb ⊢
  cases hr : Spec.clausesMatch rec env c r.clauses with
  | oof => rw [hr] at hb; cases hb
  | err e => rw [hr] at hb; cases hb
  | ok b' => rw [hr] at hb; rw [clausesMatch_weaken h _ b' hr]; exact hb

theorem segRules_weaken (h : RecWeak rec c c') (s : Segment) :
    ∀ rs b, Spec.segRules rec env c s rs = .ok b → Spec.segRules rec env c' s rs = .ok b := by
  intro rs
  induction rs with
  | nil => intro b hb; exact hb
  | cons r rs ih =>
    intro b hb
    simp only [Spec.segRules] at hb ⊢
    cases hr : Spec.segRuleMatch rec env c s.key s.salt r with
    | oof => rw [hr] at hb; cases hb
    | err e => rw [hr] at hb; cases hb
    | ok b' =>
      rw [hr] at hb
      rw [segRuleMatch_weaken h _ _ r b' hr]
      cases b' with
      | true => exact hb
      | false => exact ih b hb

theorem segBody_weaken (hsub : Spec.SubChain c' c) (s : Segment)
    (h : RecWeak rec (c ++ [s.key]) (c' ++ [s.key])) (b : Bool)
    (hb : Spec.segBody rec env s c = .ok b) : Spec.segBody rec env s c' = .ok b := by
  unfold Spec.segBody at hb ⊢
  by_cases hc : c.contains s.key = true
  · rw [if_pos hc] at hb; cases hb
  · have hc' : ¬ c'.contains s.key = true := fun h' => hc (hsub _ h')
    rw [if_neg hc] at hb
    rw [if_neg hc']
    simp only at hb ⊢
    split
    · rename_i hu
      rw [if_pos hu] at hb
      split
      · simpa [*] using hb
      · split
        · simpa [*] using hb
        · split
          · rename_i hm; simp only [*] at hb; exact segRules_weaken h s _ b hb
          · split
            · simpa [*] using hb
            · rename_i hm; simp only [*] at hb; exact segRules_weaken h s _ b hb
    · rename_i hu
      rw [if_neg hu] at hb
      split
      · simpa [*] using hb
      · rename_i hl; simp only [hl] at hb; exact segRules_weaken h s _ b hb

/-- CHAIN WEAKENING for segments: an answer obtained under a chain is the answer under every
sub-chain. -/
theorem segContains_weaken (env : Env) (n : Nat) :
    ∀ (c c' : List String), Spec.SubChain c' c →
      RecWeak (Spec.segContains n env) c c' := by
  induction n with
  | zero => intro c c' _ seg b hb; cases hb
  | succ n ih =>
    intro c c' hsub seg b hb
    exact segBody_weaken hsub seg (ih _ _ (hsub.snoc seg.key)) b hb

end weaken

/-- What `evaluate` answers about a segment referenced from inside another segment's rule (any
chain) — when it answers at all — is what it answers about that segment at top level. -/
theorem topSeg_nested_eq_top (env : Env) (s : Segment) (chain : List String) (b : Bool)
    (h : topSeg env s chain = .ok b) : topSeg env s [] = .ok b :=
  segContains_weaken env _ chain [] (Spec.SubChain.nil chain) s b h

/-- At flag level a rule's clauses never run out of fuel. -/
theorem top_clausesMatch_ne_oof (env : Env) (cs : List Clause) :
    Spec.clausesMatch (topSeg env) env [] cs ≠ .oof :=
  spec_clausesMatch_ne_oof (FuelOK.top env) cs

/-- An error leaving a flag rule's clauses is of kind MALFORMED_FLAG (a segment cycle arrives
wrapped in `malformedSegment`). -/
theorem top_clausesMatch_err_kind (env : Env) (cs : List Clause) (e : EvalErr)
    (h : Spec.clausesMatch (topSeg env) env [] cs = .err e) : e.kind = .malformedFlag := by
  have hr := (clausesMatch_refines (segContains_refines (segFuel env.store) env) [] cs {}
    (Consistent.empty env)).1
  rw [h] at hr
  exact flag_clauses_err_kind (n := segFuel env.store) (env := env) (cs := cs) (st := {})
    (st' := (clausesMatch (segContains (segFuel env.store) env) env [] cs {}).2)
    (Prod.ext hr rfl)

/-! ### One rule of a flag, seen from `evaluate` -/

/-- The evaluation of `f` arrives at rule `r`: it reaches the rule list, and every rule listed
before `r` is a plain non-match. -/
structure AtRule (env : Env) (f : Flag) (pre : List FlagRule) (r : FlagRule) (post : List FlagRule) :
    Prop where
  reaches : ReachesRules env f
  rules : f.rules = pre ++ r :: post
  skipped : ∀ q ∈ pre, Spec.clausesMatch (topSeg env) env [] q.clauses = .ok false

/-- `evaluate` answered RULE_MATCH for the rule at index `i`. -/
def RuleMatchAt (env : Env) (f : Flag) (i : Nat) : Prop :=
  (evaluate env f).result.detail.reason.kind = .ruleMatch ∧
  (evaluate env f).result.detail.reason.ruleIndex = i

/-- `evaluate` answered MALFORMED_FLAG: error reason, no variation index, null value. -/
def Malformed (env : Env) (f : Flag) : Prop :=
  (evaluate env f).result.detail.reason.kind = .error ∧
  (evaluate env f).result.detail.reason.errorKind = some .malformedFlag ∧
  (evaluate env f).result.detail.index = none ∧
  (evaluate env f).result.detail.value = .null

section atRule
variable {env : Env} {f : Flag} {pre : List FlagRule} {r : FlagRule} {post : List FlagRule}

theorem AtRule.spec (h : AtRule env f pre r post) :
    Spec.evalFlag (segFuel env.store) (flagFuel env.store) env f [] =
      Spec.rulesLoop (topSeg env) env f (r :: post) pre.length := by
  rw [evalFlag_eq_rulesLoop h.reaches, h.rules, rulesLoop_skip pre _ 0 h.skipped, Nat.zero_add]

/-- The clauses of the rule match: `evaluate` serves that rule's variation or rollout with
RULE_MATCH carrying the rule's index and id. -/
theorem AtRule.matched (h : AtRule env f pre r post)
    (hm : Spec.clausesMatch (topSeg env) env [] r.clauses = .ok true) :
    let d := Spec.getValueForVR env f r.vr (.ruleMatch pre.length r.id)
    (evaluate env f).result.detail.value = d.value ∧
    (evaluate env f).result.detail.index = d.index ∧
    (evaluate env f).result.detail.reason.kind = d.reason.kind ∧
    (evaluate env f).result.detail.reason.ruleIndex = d.reason.ruleIndex ∧
    (evaluate env f).result.detail.reason.ruleId = d.reason.ruleId ∧
    (evaluate env f).result.detail.reason.errorKind = d.reason.errorKind ∧
    (evaluate env f).result.detail.reason.inExperiment = d.reason.inExperiment := by
  have hs : Spec.evalFlag (segFuel env.store) (flagFuel env.store) env f [] =
      some (Spec.getValueForVR env f r.vr (.ruleMatch pre.length r.id), true) := by
    rw [h.spec]; simp only [Spec.rulesLoop, hm]
  obtain ⟨-, h1, h2, h3, h4, h5, -, h7, h8⟩ := evaluate_detail_spec env f h.reaches.ctx _ _ hs
  exact ⟨h1, h2, h3, h4, h5, h7, h8⟩

/-- … in particular with a fixed, valid variation: exactly that variation, RULE_MATCH, the rule's
index and id. -/
theorem AtRule.matched_fixed (h : AtRule env f pre r post)
    (hm : Spec.clausesMatch (topSeg env) env [] r.clauses = .ok true)
    {v : Int} (hv : r.vr.variation = some v) (h0 : 0 ≤ v) (h1 : v < f.variations.length) :
    (evaluate env f).result.detail.value = f.variations.getD v.toNat .null ∧
    (evaluate env f).result.detail.index = some v ∧
    (evaluate env f).result.detail.reason.kind = .ruleMatch ∧
    (evaluate env f).result.detail.reason.ruleIndex = pre.length ∧
    (evaluate env f).result.detail.reason.ruleId = r.id := by
  have hd : Spec.getValueForVR env f r.vr (.ruleMatch pre.length r.id) =
      { value := f.variations.getD v.toNat .null, index := some v,
        reason := .ruleMatch pre.length r.id } := by
    simp only [Spec.getValueForVR, variationOrRollout, hv, Spec.getVariation]
    rw [if_neg (by omega)]; rfl
  have := h.matched hm
  rw [hd] at this
  obtain ⟨a, b, c, d, e, -, -⟩ := this
  exact ⟨a, b, c, d, e⟩

/-- The clauses of the rule err (undefined / invalid attribute reference, malformed or cyclic
segment): the whole evaluation is MALFORMED_FLAG; later rules and the fallthrough are not used. -/
theorem AtRule.errored (h : AtRule env f pre r post) {e : EvalErr}
    (he : Spec.clausesMatch (topSeg env) env [] r.clauses = .err e) : Malformed env f := by
  have hk := top_clausesMatch_err_kind env r.clauses e he
  have hs : Spec.evalFlag (segFuel env.store) (flagFuel env.store) env f [] =
      some (Detail.forError .malformedFlag, false) := by
    rw [h.spec]; simp only [Spec.rulesLoop, he, hk]
  obtain ⟨-, h1, h2, h3, -, -, -, h7, -⟩ := evaluate_detail_spec env f h.reaches.ctx _ _ hs
  exact ⟨h3, h7, h2, h1⟩

/-- The clauses of the rule do not match: whatever `evaluate` answers, it is not RULE_MATCH for
this rule (it is what the later rules or the fallthrough give). -/
theorem AtRule.not_matched (h : AtRule env f pre r post)
    (hm : Spec.clausesMatch (topSeg env) env [] r.clauses = .ok false) :
    ¬ RuleMatchAt env f pre.length := by
  rintro ⟨hk, hi⟩
  have hs := h.spec
  simp only [Spec.rulesLoop, hm] at hs
  cases hrl : Spec.rulesLoop (topSeg env) env f post (pre.length + 1) with
  | none =>
    rw [hrl] at hs
    have := evaluate_oof_spec env f h.reaches.ctx hs
    rw [evaluate_total env f] at this; cases this
  | some p =>
    obtain ⟨d, ok⟩ := p
    rw [hrl] at hs
    obtain ⟨-, -, -, h3, h4, -⟩ := evaluate_detail_spec env f h.reaches.ctx _ _ hs
    have := rulesLoop_ruleIndex_ge post (pre.length + 1) d ok hrl (by rw [← h3]; exact hk)
    rw [← h4, hi] at this
    omega

/-- RULE_MATCH AT THIS RULE ⇔ ITS CLAUSES MATCH (for a rule with a fixed, valid variation). -/
theorem AtRule.ruleMatch_iff (h : AtRule env f pre r post)
    {v : Int} (hv : r.vr.variation = some v) (h0 : 0 ≤ v) (h1 : v < f.variations.length) :
    RuleMatchAt env f pre.length ↔
      Spec.clausesMatch (topSeg env) env [] r.clauses = .ok true := by
  constructor
  · intro hrm
    cases hc : Spec.clausesMatch (topSeg env) env [] r.clauses with
    | ok b =>
      cases b with
      | true => rfl
      | false => exact absurd hrm (h.not_matched hc)
    | err e =>
      obtain ⟨hk, -⟩ := h.errored hc
      rw [hrm.1] at hk; cases hk
    | oof => exact absurd hc (top_clausesMatch_ne_oof env r.clauses)
  · intro hm
    obtain ⟨-, -, c, d, -⟩ := h.matched_fixed hm hv h0 h1
    exact ⟨c, d⟩

end atRule

/-! ### One clause of that rule -/

/-- The evaluation of `f` arrives at clause `c` of rule `r`: it arrives at the rule, and every
clause listed before `c` matches. -/
structure AtClause (env : Env) (f : Flag) (pre : List FlagRule) (r : FlagRule) (post : List FlagRule)
    (cpre : List Clause) (c : Clause) (cpost : List Clause) : Prop extends AtRule env f pre r post where
  clauses : r.clauses = cpre ++ c :: cpost
  before : ∀ q ∈ cpre, Spec.clauseMatch (topSeg env) env [] q = .ok true

section atClause
variable {env : Env} {f : Flag} {pre : List FlagRule} {r : FlagRule} {post : List FlagRule}
  {cpre : List Clause} {c : Clause} {cpost : List Clause}

/-- The clause errs: MALFORMED_FLAG. -/
theorem AtClause.errored (h : AtClause env f pre r post cpre c cpost) {e : EvalErr}
    (he : Spec.clauseMatch (topSeg env) env [] c = .err e) : Malformed env f :=
  h.toAtRule.errored (e := e) (by rw [h.clauses]; exact clausesMatch_at_err cpre c cpost e h.before he)

/-- The clause does not match: no RULE_MATCH for this rule. -/
theorem AtClause.not_matched (h : AtClause env f pre r post cpre c cpost)
    (hc : Spec.clauseMatch (topSeg env) env [] c = .ok false) : ¬ RuleMatchAt env f pre.length :=
  h.toAtRule.not_matched (by rw [h.clauses]; exact clausesMatch_at_false cpre c cpost h.before hc)

/-- With every other clause of the rule matching and a fixed, valid variation:
RULE_MATCH AT THIS RULE ⇔ THE CLAUSE MATCHES. -/
theorem AtClause.ruleMatch_iff (h : AtClause env f pre r post cpre c cpost)
    (hafter : ∀ q ∈ cpost, Spec.clauseMatch (topSeg env) env [] q = .ok true)
    {v : Int} (hv : r.vr.variation = some v) (h0 : 0 ≤ v) (h1 : v < f.variations.length) :
    RuleMatchAt env f pre.length ↔ Spec.clauseMatch (topSeg env) env [] c = .ok true := by
  rw [h.toAtRule.ruleMatch_iff hv h0 h1, h.clauses]
  exact clausesMatch_at_iff cpre c cpost h.before hafter

end atClause

end LD.ClauseEval

/-
  LDEval.Proofs.ClauseLemmas — helper lemmas about the clause accessors, the preprocessed tables
  and the operator dispatch, shared by the property files C04 / C05 / C14.  Core Lean only.
-/
import LDEval.Spec.EvalSpec

namespace LD

/-! ### The equality-set table -/

/-- On primitives, key equality is `primEq` (`asPrimKey` is injective on primitives and keeps the
type tag: `1` and `"1"` have different keys). -/
theorem asPrimKey_beq (v cv : J) (hv : (asPrimKey v).isValid = true)
    (hcv : (asPrimKey cv).isValid = true) : (asPrimKey v == asPrimKey cv) = v.primEq cv := by
  rw [Bool.eq_iff_iff]
  cases v <;> cases cv <;> simp_all [asPrimKey, PrimKey.isValid, J.primEq]

theorem contains_primKey (v : J) (hv : (asPrimKey v).isValid = true) (vals : List J)
    (hall : vals.all (fun v => (asPrimKey v).isValid) = true) :
    (vals.map asPrimKey).contains (asPrimKey v) = vals.any (fun cv => v.primEq cv) := by
  induction vals with
  | nil => simp
  | cons a l ih =>
    simp only [List.all_cons, Bool.and_eq_true] at hall
    simp only [List.map_cons, List.contains_cons, List.any_cons, ih hall.2,
      asPrimKey_beq v a hv hall.1]

/-- The typed linear search of `ClauseFindValue` (no table). -/
def linearFind (vals : List J) (v : J) : Bool :=
  match v with
  | .bool _ | .num _ | .str _ => vals.any (fun cv => v.primEq cv)
  | _ => false

theorem findValue_plain (c : Clause) (h : c.pre.valuesMap = none) (v : J) :
    c.findValue v = linearFind c.values v := by
  unfold Clause.findValue linearFind
  simp only [h]
  cases v <;> rfl

theorem linearFind_of_invalid (vals : List J) (v : J) (h : (asPrimKey v).isValid = false) :
    linearFind vals v = false := by
  cases v <;> simp_all [linearFind, asPrimKey, PrimKey.isValid]

theorem linearFind_of_valid (vals : List J) (v : J) (h : (asPrimKey v).isValid = true) :
    linearFind vals v = vals.any (fun cv => v.primEq cv) := by
  cases v <;> simp_all [linearFind, asPrimKey, PrimKey.isValid]

/-- A table that holds exactly the keys of the (all-primitive) values answers like the search. -/
theorem findValue_table (c : Clause) (h : c.pre.valuesMap = some (c.values.map asPrimKey))
    (hall : c.values.all (fun v => (asPrimKey v).isValid) = true) (v : J) :
    c.findValue v = linearFind c.values v := by
  unfold Clause.findValue
  simp only [h]
  cases hv : (asPrimKey v).isValid with
  | true =>
    simp only [if_true]
    rw [contains_primKey v hv _ hall, linearFind_of_valid _ _ hv]
  | false =>
    simp only [Bool.false_eq_true, if_false]
    cases v <;> simp_all [linearFind, asPrimKey, PrimKey.isValid]

/-! ### What `preprocessClause` builds -/

theorem preprocessClause_valuesMap (rx : RegexOracle) (c : Clause) :
    (preprocessClause rx c).valuesMap = none ∨
    ((preprocessClause rx c).valuesMap = some (c.values.map asPrimKey) ∧
      c.values.all (fun v => (asPrimKey v).isValid) = true) := by
  unfold preprocessClause
  split
  · split
    · rename_i h; right; simp only [Bool.and_eq_true] at h; exact ⟨rfl, h.2⟩
    · left; rfl
  · split
    · left; rfl
    · split
      · left; rfl
      · split <;> (left; rfl)

theorem preprocessClause_values_matches (rx : RegexOracle) (c : Clause) (h : c.op = "matches") :
    (preprocessClause rx c).values = some (c.values.map fun v =>
        match parseRegexp rx v with
        | some p => { valid := true, regex := some p }
        | none => { valid := false }) := by
  unfold preprocessClause; simp [h]
  intro a _; cases parseRegexp rx a <;> rfl

theorem preprocessClause_values_date (rx : RegexOracle) (c : Clause)
    (h : c.op = "before" ∨ c.op = "after") :
    (preprocessClause rx c).values = some (c.values.map fun v =>
        match Time.valueToTimestamp v with
        | some t => { valid := true, time := t }
        | none => { valid := false }) := by
  unfold preprocessClause
  rcases h with h | h <;> simp [h] <;> (intro a _; cases Time.valueToTimestamp a <;> rfl)

theorem preprocessClause_values_semver (rx : RegexOracle) (c : Clause)
    (h : c.op = "semVerEqual" ∨ c.op = "semVerLessThan" ∨ c.op = "semVerGreaterThan") :
    (preprocessClause rx c).values = some (c.values.map fun v =>
        match parseSemVer v with
        | some s => { valid := true, semver := s }
        | none => { valid := false }) := by
  unfold preprocessClause
  rcases h with h | h | h <;> simp [h] <;> (intro a _; cases parseSemVer a <;> rfl)

/-! ### `doOp` only looks at the operator and the three typed accessors -/

theorem doOp_congr (rx : RegexOracle) (c c' : Clause) (u cv : J) (i : Nat)
    (hop : c.op = c'.op)
    (hre : c.op = "matches" → c.valueAsRegexp rx i = c'.valueAsRegexp rx i)
    (hts : c.op = "before" ∨ c.op = "after" → c.valueAsTimestamp i = c'.valueAsTimestamp i)
    (hsv : c.op = "semVerEqual" ∨ c.op = "semVerLessThan" ∨ c.op = "semVerGreaterThan" →
      c.valueAsSemVer i = c'.valueAsSemVer i) :
    doOp rx c u cv i = doOp rx c' u cv i := by
  unfold doOp
  simp only [← hop]
  by_cases h1 : c.op = "matches"
  · simp [h1, hre h1]
  by_cases h2 : c.op = "before"
  · simp [h2, hts (.inl h2)]
  by_cases h3 : c.op = "after"
  · simp [h3, hts (.inr h3)]
  by_cases h4 : c.op = "semVerEqual"
  · simp [h4, hsv (.inl h4)]
  by_cases h5 : c.op = "semVerLessThan"
  · simp [h5, hsv (.inr (.inl h5))]
  by_cases h6 : c.op = "semVerGreaterThan"
  · simp [h6, hsv (.inr (.inr h6))]
  simp [h1, h2, h3, h4, h5, h6]

theorem anyIdx_congr (p q : J → Nat → Bool) (vs : List J) (k : Nat)
    (h : ∀ j (hj : j < vs.length), p vs[j] (k + j) = q vs[j] (k + j)) :
    anyIdx p vs k = anyIdx q vs k := by
  induction vs generalizing k with
  | nil => rfl
  | cons a l ih =>
    simp only [anyIdx]
    have h0 := h 0 (by simp)
    simp only [List.getElem_cons_zero, Nat.add_zero] at h0
    rw [h0, ih (k + 1)]
    intro j hj
    have := h (j + 1) (by simp; omega)
    simpa [Nat.add_assoc, Nat.add_comm 1 j] using this

theorem anyIdx_iff (p : J → Nat → Bool) (vs : List J) (k : Nat) :
    anyIdx p vs k = true ↔ ∃ j, ∃ hj : j < vs.length, p vs[j] (k + j) = true := by
  induction vs generalizing k with
  | nil => simp [anyIdx]
  | cons a l ih =>
    simp only [anyIdx, Bool.or_eq_true, ih]
    constructor
    · rintro (h | ⟨j, hj, h⟩)
      · exact ⟨0, by simp, by simpa using h⟩
      · exact ⟨j + 1, by simp; omega, by simpa [Nat.add_assoc, Nat.add_comm 1 j] using h⟩
    · rintro ⟨j, hj, h⟩
      cases j with
      | zero => left; simpa using h
      | succ j =>
        right
        exact ⟨j, by simpa using hj, by simpa [Nat.add_assoc, Nat.add_comm 1 j] using h⟩

end LD

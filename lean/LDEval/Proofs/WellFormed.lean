/-
  Lemmas for C01: every Detail the evaluator can produce is well-formed.
-/
import LDEval.Spec.WellFormed

namespace LD

theorem wf_forError_malformed (f : Flag) : WellFormed f (Detail.forError .malformedFlag) := by
  right; left; simp [Detail.forError, Reason.error]

/-- The reasons the evaluator passes to `getVariation`: never an error reason. -/
def Reason.NonError (r : Reason) : Prop := r.kind ≠ .error ∧ r.errorKind = none

theorem nonError_off : Reason.off.NonError := by simp [Reason.NonError, Reason.off]
theorem nonError_fallthrough : Reason.fallthrough.NonError := by simp [Reason.NonError, Reason.fallthrough]
theorem nonError_targetMatch : Reason.targetMatch.NonError := by simp [Reason.NonError, Reason.targetMatch]
theorem nonError_ruleMatch (i : Nat) (id : String) : (Reason.ruleMatch i id).NonError := by
  simp [Reason.NonError, Reason.ruleMatch]
theorem nonError_prereqFailed (k : String) : (Reason.prereqFailed k).NonError := by
  simp [Reason.NonError, Reason.prereqFailed]

theorem nonError_toExperiment {r : Reason} (h : r.NonError) : r.toExperiment.NonError := by
  unfold Reason.toExperiment
  split <;> simp_all [Reason.NonError]

theorem wf_getVariation (env : Env) (f : Flag) (i : Int) (r : Reason) (st : St) (hr : r.NonError) :
    WellFormed f (getVariation env f i r st).1 := by
  unfold getVariation
  split
  · exact wf_forError_malformed f
  · rename_i h
    have h0 : 0 ≤ i := by omega
    have h1 : i < f.variations.length := by omega
    left
    refine ⟨i.toNat, ?_, ?_, ?_, hr.1, hr.2⟩
    · simp [Int.toNat_of_nonneg h0]
    · omega
    · rfl

theorem wf_getOffValue_off (env : Env) (f : Flag) (st : St) :
    WellFormed f (getOffValue env f .off st).1 := by
  unfold getOffValue
  split
  · rename_i h; right; right; simp [h, Reason.off]
  · exact wf_getVariation _ _ _ _ _ nonError_off

theorem wf_getOffValue_prereqFailed (env : Env) (f : Flag) (k : String) (st : St) :
    WellFormed f (getOffValue env f (.prereqFailed k) st).1 := by
  unfold getOffValue
  split
  · rename_i h; right; right; simp [h, Reason.prereqFailed]
  · exact wf_getVariation _ _ _ _ _ (nonError_prereqFailed k)

/-- The only error bucketing can raise is an invalid bucket-by reference. -/
theorem bucketInput_err {sec ctx isExp seed ck key attr salt} {e : EvalErr}
    (h : bucketInput sec ctx isExp seed ck key attr salt = .error e) : e = .badAttrRef attr.raw := by
  unfold bucketInput at h
  simp only at h
  split at h
  · exact (Except.error.inj h).symm
  · split at h
    · cases h
    · split at h
      · cases h
      · split at h
        · split at h <;> cases h
        · cases h

theorem computeBucket_err {sec ctx isExp seed ck key attr salt} {e : EvalErr}
    (h : computeBucket sec ctx isExp seed ck key attr salt = .error e) : e = .badAttrRef attr.raw := by
  unfold computeBucket at h
  split at h
  · rename_i e' he; cases h; exact bucketInput_err he
  · cases h
  · cases h

theorem computeBucket_err_kind {sec ctx isExp seed ck key attr salt} {e : EvalErr}
    (h : computeBucket sec ctx isExp seed ck key attr salt = .error e) : e.kind = .malformedFlag := by
  rw [computeBucket_err h]; rfl

theorem variationOrRollout_err_kind {env : Env} {vr : VariationOrRollout} {key salt : String}
    {e : EvalErr} (h : variationOrRollout env vr key salt = .error e) : e.kind = .malformedFlag := by
  unfold variationOrRollout at h
  split at h
  · simp at h
  · split at h
    · cases h; rfl
    · simp only at h
      split at h
      · rename_i e' he; cases h; exact computeBucket_err_kind he
      · split at h <;> simp at h

theorem wf_getValueForVR (env : Env) (f : Flag) (vr : VariationOrRollout) (r : Reason) (st : St)
    (hr : r.NonError) : WellFormed f (getValueForVR env f vr r st).1 := by
  unfold getValueForVR
  split
  · rename_i e he
    have := variationOrRollout_err_kind he
    right; left; simp [Detail.forError, Reason.error, this]
  · rename_i index inExp _
    apply wf_getVariation
    split
    · exact nonError_toExperiment hr
    · exact hr

end LD

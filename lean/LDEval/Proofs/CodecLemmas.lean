/-
  LDEval.Proofs.CodecLemmas — generic facts about the member loop `objLoop`, the `Except Unit`
  monad, and named versions of the anonymous element handlers of `LDEval/Model/Codec.lean`
  (each `read…_eq` below is `rfl`: the named handler IS the lambda of the model).
-/
import LDEval.Model.Codec

namespace LD.Codec

/-! ### `Except Unit` -/

theorem D_error_eq {α} (e : Unit) : (Except.error e : D α) = .error () := rfl

theorem D_cases {α} (x : D α) : x = .error () ∨ ∃ a, x = .ok a := by
  cases x with
  | error e => exact .inl rfl
  | ok a => exact .inr ⟨a, rfl⟩

@[simp] theorem D_error_bind {α β} (f : α → D β) : ((Except.error () : D α) >>= f) = .error () := rfl
@[simp] theorem D_ok_bind {α β} (a : α) (f : α → D β) : ((Except.ok a : D α) >>= f) = f a := rfl
@[simp] theorem D_fail_bind {α β} (f : α → D β) : ((fail : D α) >>= f) = .error () := rfl
theorem D_pure_eq {α} (a : α) : (pure a : D α) = .ok a := rfl

/-- Two independent computations commute (there is only one error value). -/
theorem D_bind_comm {α β γ} (m1 : D α) (m2 : D β) (k : α → β → D γ) :
    (m1 >>= fun x => m2 >>= fun y => k x y) = (m2 >>= fun y => m1 >>= fun x => k x y) := by
  cases m1 <;> cases m2 <;> rfl

/-! ### The member loop -/

theorem objLoop_nil {σ} (h : σ → String → J → D σ) (init : σ) : objLoop h init [] = pure init := rfl

theorem objLoop_cons {σ} (h : σ → String → J → D σ) (init : σ) (n : String) (v : J)
    (rest : List (String × J)) :
    objLoop h init ((n, v) :: rest) = h init n v >>= fun s => objLoop h s rest := by
  unfold objLoop; rw [List.foldlM_cons]

theorem objLoop_append {σ} (h : σ → String → J → D σ) (init : σ) (l1 l2 : List (String × J)) :
    objLoop h init (l1 ++ l2) = objLoop h init l1 >>= fun s => objLoop h s l2 := by
  unfold objLoop; rw [List.foldlM_append]

/-- A member whose handler is the identity on every accumulator can be dropped. -/
theorem objLoop_skip {σ} (h : σ → String → J → D σ) (name : String) (v : J)
    (hskip : ∀ s, h s name v = pure s) (init : σ) (pre post : List (String × J)) :
    objLoop h init (pre ++ (name, v) :: post) = objLoop h init (pre ++ post) := by
  rw [objLoop_append, objLoop_append]
  congr 1; funext s
  rw [objLoop_cons, hskip s]; rfl

/-- Handlers for two names commute on every accumulator. -/
def CommOn {σ} (h : σ → String → J → D σ) (n1 n2 : String) : Prop :=
  ∀ s v1 v2, (h s n1 v1 >>= fun s' => h s' n2 v2) = (h s n2 v2 >>= fun s' => h s' n1 v1)

/-- Handlers for different names commute. -/
def Comm {σ} (h : σ → String → J → D σ) : Prop := ∀ n1 n2, n1 ≠ n2 → CommOn h n1 n2

/-- A member can be moved to the front past members with other names. -/
theorem objLoop_move_front {σ} (h : σ → String → J → D σ) (hc : Comm h) (name : String) (v : J)
    (pre : List (String × J)) (hpre : name ∉ pre.map (·.1)) (init : σ) (post : List (String × J)) :
    objLoop h init (pre ++ (name, v) :: post) = objLoop h init ((name, v) :: (pre ++ post)) := by
  induction pre generalizing init with
  | nil => rfl
  | cons p pre ih =>
    obtain ⟨n, w⟩ := p
    have hn : name ≠ n := by intro e; apply hpre; simp [e]
    have hpre' : name ∉ pre.map (·.1) := by intro e; apply hpre; simp [e]
    show objLoop h init ((n, w) :: (pre ++ (name, v) :: post)) =
      objLoop h init ((name, v) :: (n, w) :: (pre ++ post))
    rw [objLoop_cons, objLoop_cons]
    have : ∀ s, objLoop h s (pre ++ (name, v) :: post) =
        h s name v >>= fun s' => objLoop h s' (pre ++ post) := by
      intro s; rw [ih hpre' s, objLoop_cons]
    simp only [this, objLoop_cons]
    have hcomm := hc n name (Ne.symm hn) init w v
    calc (h init n w >>= fun s => h s name v >>= fun s' => objLoop h s' (pre ++ post))
        = ((h init n w >>= fun s => h s name v) >>= fun s' => objLoop h s' (pre ++ post)) := by
          rw [bind_assoc]
      _ = ((h init name v >>= fun s => h s n w) >>= fun s' => objLoop h s' (pre ++ post)) := by
          rw [hcomm]
      _ = _ := by rw [bind_assoc]

/-- A loop whose handlers for different names commute does not depend on the order of members
with pairwise different names. -/
theorem objLoop_perm {σ} (h : σ → String → J → D σ) (hc : Comm h) {l l' : List (String × J)}
    (hp : l.Perm l') (hnd : (l.map (·.1)).Nodup) (init : σ) :
    objLoop h init l = objLoop h init l' := by
  induction hp generalizing init with
  | nil => rfl
  | cons x _ ih =>
    obtain ⟨n, v⟩ := x
    rw [objLoop_cons, objLoop_cons]
    have hnd' := (List.nodup_cons.mp hnd).2
    congr 1; funext s; exact ih hnd' s
  | swap x y l =>
    obtain ⟨n1, v1⟩ := x
    obtain ⟨n2, v2⟩ := y
    have hne : n2 ≠ n1 := by
      intro e
      have := (List.nodup_cons.mp hnd).1
      apply this; simp [e]
    simp only [objLoop_cons]
    rw [← bind_assoc, ← bind_assoc, hc n2 n1 hne init v2 v1]
  | trans hp1 _ ih1 ih2 =>
    rw [ih1 hnd init]
    exact ih2 ((hp1.map (·.1)).nodup_iff.mp hnd) init

/-- Invariants: a property preserved by every successful step holds at the end. -/
theorem objLoop_inv {σ} (h : σ → String → J → D σ) (P : σ → Prop)
    (hstep : ∀ s n v s', P s → h s n v = .ok s' → P s')
    (kvs : List (String × J)) (init s : σ) (hi : P init) (hr : objLoop h init kvs = .ok s) : P s := by
  induction kvs generalizing init with
  | nil => cases hr; exact hi
  | cons p kvs ih =>
    obtain ⟨n, v⟩ := p
    rw [objLoop_cons] at hr
    cases hs : h init n v with
    | error e => rw [hs] at hr; cases hr
    | ok s1 => rw [hs] at hr; exact ih s1 (hstep _ _ _ _ hi hs) hr

/-! ### `mapM` in `Except Unit` -/

theorem mapM_nil' {α β} (f : α → D β) : List.mapM f [] = .ok [] := rfl

theorem mapM_cons' {α β} (f : α → D β) (x : α) (xs : List α) :
    List.mapM f (x :: xs) = f x >>= fun y => List.mapM f xs >>= fun ys => pure (y :: ys) := by
  rw [List.mapM_cons]

/-- Replacing one element by another with the same image does not change the `mapM`. -/
theorem mapM_replace {α β} (f : α → D β) (x x' : α) (hx : f x = f x') (l1 l2 : List α) :
    List.mapM f (l1 ++ x :: l2) = List.mapM f (l1 ++ x' :: l2) := by
  rw [List.mapM_append, List.mapM_append, List.mapM_cons, List.mapM_cons, hx]

/-- Reading back the encodings of a list, element by element. -/
theorem mapM_enc {α β} (f : β → D α) (g : α → β) (l : List α) (h : ∀ x ∈ l, f (g x) = .ok x) :
    List.mapM f (l.map g) = .ok l := by
  induction l with
  | nil => rfl
  | cons x l ih =>
    rw [List.map_cons, mapM_cons', h x (by simp), ih (fun y hy => h y (by simp [hy]))]
    rfl

theorem mapM_ok_mem {α β} (f : α → D β) (xs : List α) (ys : List β)
    (h : List.mapM f xs = .ok ys) : ∀ y ∈ ys, ∃ x ∈ xs, f x = .ok y := by
  induction xs generalizing ys with
  | nil => cases h; intro y hy; cases hy
  | cons x xs ih =>
    rw [mapM_cons'] at h
    cases hx : f x with
    | error e => rw [hx] at h; cases h
    | ok y0 =>
      rw [hx] at h
      cases hxs : List.mapM f xs with
      | error e => rw [hxs] at h; cases h
      | ok ys0 =>
        rw [hxs] at h; cases h
        intro y hy
        rcases List.mem_cons.mp hy with rfl | hy
        · exact ⟨x, by simp, hx⟩
        · obtain ⟨x', hx', hfx⟩ := ih ys0 hxs y hy
          exact ⟨x', by simp [hx'], hfx⟩

/-! ### Named element handlers (definitionally the lambdas of the model) -/

def prereqH (p : Prereq) (name : String) (val : J) : D Prereq :=
  if name == "key" then do pure { p with key := ← rString val }
  else if name == "variation" then do pure { p with variation := ← rInt val }
  else pure p

def readPrereq (x : J) : D Prereq := do
  let kvs ← rObject x
  objLoop prereqH { key := "", variation := 0 } kvs

theorem readPrerequisites_eq (acc : List Prereq) (v : J) :
    readPrerequisites acc v = (do
      let xs ← rArrayOrNull v
      let ps ← xs.mapM readPrereq
      pure (acc ++ ps)) := rfl

def targetH (t : Target) (name : String) (val : J) : D Target :=
  if name == "contextKind" then do pure { t with contextKind := ← rString val }
  else if name == "values" then do pure { t with values := ← readStringList t.values val }
  else if name == "variation" then do pure { t with variation := ← rInt val }
  else pure t

def readTarget (x : J) : D Target := do
  let kvs ← rObject x
  objLoop targetH {} kvs

theorem readTargets_eq (acc : List Target) (v : J) :
    readTargets acc v = (do
      let xs ← rArrayOrNull v
      let ts ← xs.mapM readTarget
      pure (acc ++ ts)) := rfl

def clauseH (s : Clause × String) (name : String) (val : J) : D (Clause × String) :=
  if name == "contextKind" then do pure ({ s.1 with contextKind := ← rString val }, s.2)
  else if name == "attribute" then do pure (s.1, (← rStringOrNull val).getD "")
  else if name == "op" then do pure ({ s.1 with op := ← rString val }, s.2)
  else if name == "values" then do pure ({ s.1 with values := ← readValueList s.1.values val }, s.2)
  else if name == "negate" then do pure ({ s.1 with negate := ← rBool val }, s.2)
  else pure s

def readClause (x : J) : D Clause := do
  let kvs ← rObject x
  let r ← objLoop clauseH (({} : Clause), "") kvs
  pure { r.1 with attr := attrNameOrRef r.2 r.1.contextKind }

theorem readClauses_eq (acc : List Clause) (v : J) :
    readClauses acc v = (do
      let xs ← rArrayOrNull v
      let cs ← xs.mapM readClause
      pure (acc ++ cs)) := rfl

def wvH (w : WeightedVariation) (name : String) (val : J) : D WeightedVariation :=
  if name == "variation" then do pure { w with variation := ← rInt val }
  else if name == "weight" then do pure { w with weight := ← rInt val }
  else if name == "untracked" then do pure { w with untracked := ← rBool val }
  else pure w

def readWV (x : J) : D WeightedVariation := do
  let kvs ← rObject x
  objLoop wvH { variation := 0, weight := 0 } kvs

theorem readWeightedVariations_eq (acc : List WeightedVariation) (v : J) :
    readWeightedVariations acc v = (do
      let xs ← rArray v
      let ws ← xs.mapM readWV
      pure (acc ++ ws)) := rfl

def rolloutH (s : Rollout × String) (name : String) (val : J) : D (Rollout × String) :=
  if name == "kind" then do pure ({ s.1 with kind := ← rString val }, s.2)
  else if name == "contextKind" then do pure ({ s.1 with contextKind := ← rString val }, s.2)
  else if name == "variations" then do
    pure ({ s.1 with variations := ← readWeightedVariations s.1.variations val }, s.2)
  else if name == "bucketBy" then do pure (s.1, (← rStringOrNull val).getD "")
  else if name == "seed" then do
    match ← rIntOrNull val with
    | some n => pure ({ s.1 with seed := some n }, s.2)
    | none => pure s
  else pure s

theorem readRollout_eq (out : Rollout) (v : J) :
    readRollout out v = (do
      match ← rObjectOrNull v with
      | none => pure {}
      | some kvs =>
        let r ← objLoop rolloutH (out, "") kvs
        pure { r.1 with bucketBy := attrNameOrRef r.2 r.1.contextKind }) := rfl

def vrH (o : VariationOrRollout) (name : String) (val : J) : D VariationOrRollout :=
  if name == "variation" then do pure { o with variation := ← rIntOrNull val }
  else if name == "rollout" then do pure { o with rollout := ← readRollout o.rollout val }
  else pure o

theorem readVariationOrRollout_eq (out : VariationOrRollout) (v : J) :
    readVariationOrRollout out v = (do
      let kvs ← rObject v
      objLoop vrH out kvs) := rfl

def ruleH (r : FlagRule) (name : String) (val : J) : D FlagRule :=
  if name == "id" then do pure { r with id := ← rString val }
  else if name == "variation" then do pure { r with vr := { r.vr with variation := ← rIntOrNull val } }
  else if name == "rollout" then do pure { r with vr := { r.vr with rollout := ← readRollout r.vr.rollout val } }
  else if name == "clauses" then do pure { r with clauses := ← readClauses r.clauses val }
  else if name == "trackEvents" then do pure { r with trackEvents := ← rBool val }
  else pure r

def readFlagRule (x : J) : D FlagRule := do
  let kvs ← rObject x
  objLoop ruleH {} kvs

theorem readFlagRules_eq (acc : List FlagRule) (v : J) :
    readFlagRules acc v = (do
      let xs ← rArrayOrNull v
      let rs ← xs.mapM readFlagRule
      pure (acc ++ rs)) := rfl

def csaH (c : ClientSideAvailability) (name : String) (val : J) : D ClientSideAvailability :=
  if name == "usingEnvironmentId" then do pure { c with usingEnvironmentID := ← rBool val }
  else if name == "usingMobileKey" then do pure { c with usingMobileKey := ← rBool val }
  else pure c

theorem readClientSideAvailability_eq (out : ClientSideAvailability) (v : J) :
    readClientSideAvailability out v = (do
      match ← rObjectOrNull v with
      | none => pure { out with explicit := false }
      | some kvs => objLoop csaH { out with explicit := true } kvs) := rfl

def migrationH (c : Option Int) (name : String) (val : J) : D (Option Int) :=
  if name == "checkRatio" then do pure (some (← rInt val)) else pure c

theorem readMigration_eq (v : J) :
    readMigration v = (do
      match ← rObjectOrNull v with
      | none => pure (some none)
      | some kvs =>
        let cr ← objLoop migrationH none kvs
        pure (some cr)) := rfl

def segTargetH (t : SegmentTarget) (name : String) (val : J) : D SegmentTarget :=
  if name == "contextKind" then do pure { t with contextKind := ← rString val }
  else if name == "values" then do pure { t with values := ← readStringList t.values val }
  else pure t

def readSegTarget (x : J) : D SegmentTarget := do
  let kvs ← rObject x
  objLoop segTargetH {} kvs

theorem readSegmentTargets_eq (acc : List SegmentTarget) (v : J) :
    readSegmentTargets acc v = (do
      let xs ← rArrayOrNull v
      let ts ← xs.mapM readSegTarget
      pure (acc ++ ts)) := rfl

def segRuleH (s : SegmentRule × String) (name : String) (val : J) : D (SegmentRule × String) :=
  if name == "id" then do pure ({ s.1 with id := ← rString val }, s.2)
  else if name == "clauses" then do pure ({ s.1 with clauses := ← readClauses s.1.clauses val }, s.2)
  else if name == "weight" then do
    match ← rIntOrNull val with
    | some n => pure ({ s.1 with weight := some n }, s.2)
    | none => pure s
  else if name == "bucketBy" then do pure (s.1, (← rStringOrNull val).getD "")
  else if name == "rolloutContextKind" then do pure ({ s.1 with rolloutContextKind := ← rString val }, s.2)
  else pure s

def readSegRule (x : J) : D SegmentRule := do
  let kvs ← rObject x
  let r ← objLoop segRuleH (({} : SegmentRule), "") kvs
  pure { r.1 with bucketBy := attrNameOrRef r.2 r.1.rolloutContextKind }

theorem readSegmentRules_eq (acc : List SegmentRule) (v : J) :
    readSegmentRules acc v = (do
      let xs ← rArrayOrNull v
      let rs ← xs.mapM readSegRule
      pure (acc ++ rs)) := rfl

/-! ### Handler tables: a loop body as "name ↦ (read a component, write a component)" -/

structure Handler (σ : Type) where
  α : Type
  get : σ → J → D α
  set : σ → α → σ

def Handler.run {σ} (H : Handler σ) (s : σ) (v : J) : D σ := H.get s v >>= fun x => pure (H.set s x)

def runTable {σ} (tbl : List (String × Handler σ)) (s : σ) (name : String) (v : J) : D σ :=
  match tbl.lookup name with
  | some H => H.run s v
  | none => pure s

/-- Two handlers touch independent components. -/
structure Indep {σ} (H1 H2 : Handler σ) : Prop where
  g12 : ∀ s x v, H2.get (H1.set s x) v = H2.get s v
  g21 : ∀ s y v, H1.get (H2.set s y) v = H1.get s v
  comm : ∀ s x y, H2.set (H1.set s x) y = H1.set (H2.set s y) x

theorem Indep.symm {σ} {H1 H2 : Handler σ} (h : Indep H1 H2) : Indep H2 H1 :=
  ⟨h.g21, h.g12, fun s x y => (h.comm s y x).symm⟩

theorem Indep.run_comm {σ} {H1 H2 : Handler σ} (h : Indep H1 H2) (s : σ) (v1 v2 : J) :
    (H1.run s v1 >>= fun s' => H2.run s' v2) = (H2.run s v2 >>= fun s' => H1.run s' v1) := by
  unfold Handler.run
  simp only [bind_assoc, pure_bind, h.g12, h.g21, h.comm]
  exact D_bind_comm _ _ _

theorem lookup_mem {β} (tbl : List (String × β)) (n : String) (b : β) (h : tbl.lookup n = some b) :
    (n, b) ∈ tbl := by
  induction tbl with
  | nil => cases h
  | cons p tbl ih =>
    obtain ⟨k, c⟩ := p
    rw [List.lookup_cons] at h
    by_cases hk : n = k
    · subst hk; simp at h; subst h; simp
    · have : (n == k) = false := by simpa using hk
      rw [this] at h
      exact List.mem_cons_of_mem _ (ih h)

theorem pairwise_mem {α} (R : α → α → Prop) (l : List α) (hp : l.Pairwise R) (x y : α)
    (hx : x ∈ l) (hy : y ∈ l) : x = y ∨ R x y ∨ R y x := by
  induction l with
  | nil => cases hx
  | cons a l ih =>
    rw [List.pairwise_cons] at hp
    rcases List.mem_cons.mp hx with rfl | hx' <;> rcases List.mem_cons.mp hy with rfl | hy'
    · exact .inl rfl
    · exact .inr (.inl (hp.1 y hy'))
    · exact .inr (.inr (hp.1 x hx'))
    · exact ih hp.2 hx' hy'

theorem runTable_comm {σ} (tbl : List (String × Handler σ))
    (hp : tbl.Pairwise fun p q => Indep p.2 q.2) : Comm (runTable tbl) := by
  intro n1 n2 hne s v1 v2
  unfold runTable
  cases h1 : tbl.lookup n1 with
  | none =>
    cases h2 : tbl.lookup n2 with
    | none => rfl
    | some H2 => simp only [pure_bind, bind_pure]
  | some H1 =>
    cases h2 : tbl.lookup n2 with
    | none => simp only [pure_bind, bind_pure]
    | some H2 =>
      have hi : Indep H1 H2 := by
        rcases pairwise_mem _ tbl hp (n1, H1) (n2, H2) (lookup_mem _ _ _ h1) (lookup_mem _ _ _ h2)
          with e | h | h
        · exact absurd (congrArg Prod.fst e) hne
        · exact h
        · exact h.symm
      exact hi.run_comm s v1 v2

/-- The top-level flag properties as a handler table. -/
def flagTable : List (String × Handler FlagAcc) := [
  ("key", ⟨String, fun _ v => rString v, fun a x => { a with flag := { a.flag with key := x } }⟩),
  ("on", ⟨Bool, fun _ v => rBool v, fun a x => { a with flag := { a.flag with on := x } }⟩),
  ("prerequisites", ⟨_, fun a v => readPrerequisites a.flag.prerequisites v,
      fun a x => { a with flag := { a.flag with prerequisites := x } }⟩),
  ("targets", ⟨_, fun a v => readTargets a.flag.targets v,
      fun a x => { a with flag := { a.flag with targets := x } }⟩),
  ("contextTargets", ⟨_, fun a v => readTargets a.flag.contextTargets v,
      fun a x => { a with flag := { a.flag with contextTargets := x } }⟩),
  ("rules", ⟨_, fun a v => readFlagRules a.flag.rules v,
      fun a x => { a with flag := { a.flag with rules := x } }⟩),
  ("fallthrough", ⟨_, fun a v => readVariationOrRollout a.flag.fallthrough v,
      fun a x => { a with flag := { a.flag with fallthrough := x } }⟩),
  ("offVariation", ⟨_, fun _ v => rIntOrNull v,
      fun a x => { a with flag := { a.flag with offVariation := x } }⟩),
  ("variations", ⟨_, fun a v => readValueList a.flag.variations v,
      fun a x => { a with flag := { a.flag with variations := x } }⟩),
  ("clientSideAvailability", ⟨_, fun a v => readClientSideAvailability a.flag.fmeta.clientSide v,
      fun a x => { a with flag := { a.flag with fmeta := { a.flag.fmeta with clientSide := x } } }⟩),
  ("clientSide", ⟨Bool, fun _ v => rBool v, fun a x => { a with deprecatedClientSide := x }⟩),
  ("salt", ⟨String, fun _ v => rString v, fun a x => { a with flag := { a.flag with salt := x } }⟩),
  ("trackEvents", ⟨Bool, fun _ v => rBool v,
      fun a x => { a with flag := { a.flag with fmeta := { a.flag.fmeta with trackEvents := x } } }⟩),
  ("trackEventsFallthrough", ⟨Bool, fun _ v => rBool v,
      fun a x => { a with flag := { a.flag with trackEventsFallthrough := x } }⟩),
  ("debugEventsUntilDate", ⟨_, fun _ v => rFloatOrNull v,
      fun a x => { a with flag := { a.flag with fmeta :=
        { a.flag.fmeta with debugEventsUntilDate := goUint64 (x.getD 0) } } }⟩),
  ("version", ⟨Int, fun _ v => rInt v,
      fun a x => { a with flag := { a.flag with fmeta := { a.flag.fmeta with version := x } } }⟩),
  ("deleted", ⟨Bool, fun _ v => rBool v,
      fun a x => { a with flag := { a.flag with fmeta := { a.flag.fmeta with deleted := x } } }⟩),
  ("excludeFromSummaries", ⟨Bool, fun _ v => rBool v,
      fun a x => { a with flag := { a.flag with excludeFromSummaries := x } }⟩),
  ("samplingRatio", ⟨Int, fun _ v => rInt v,
      fun a x => { a with flag := { a.flag with fmeta := { a.flag.fmeta with samplingRatio := some x } } }⟩),
  ("migration", ⟨_, fun _ v => readMigration v,
      fun a x => { a with flag := { a.flag with fmeta := { a.flag.fmeta with migration := x } } }⟩)]

theorem readFlagProp_eq_table (a : FlagAcc) (name : String) (v : J) :
    readFlagProp a name v = runTable flagTable a name v := by
  by_cases h1 : name = "key"; · subst h1; rfl
  by_cases h2 : name = "on"; · subst h2; rfl
  by_cases h3 : name = "prerequisites"; · subst h3; rfl
  by_cases h4 : name = "targets"; · subst h4; rfl
  by_cases h5 : name = "contextTargets"; · subst h5; rfl
  by_cases h6 : name = "rules"; · subst h6; rfl
  by_cases h7 : name = "fallthrough"; · subst h7; rfl
  by_cases h8 : name = "offVariation"; · subst h8; rfl
  by_cases h9 : name = "variations"; · subst h9; rfl
  by_cases h10 : name = "clientSideAvailability"; · subst h10; rfl
  by_cases h11 : name = "clientSide"; · subst h11; rfl
  by_cases h12 : name = "salt"; · subst h12; rfl
  by_cases h13 : name = "trackEvents"; · subst h13; rfl
  by_cases h14 : name = "trackEventsFallthrough"; · subst h14; rfl
  by_cases h15 : name = "debugEventsUntilDate"; · subst h15; rfl
  by_cases h16 : name = "version"; · subst h16; rfl
  by_cases h17 : name = "deleted"; · subst h17; rfl
  by_cases h18 : name = "excludeFromSummaries"; · subst h18; rfl
  by_cases h19 : name = "samplingRatio"; · subst h19; rfl
  by_cases h20 : name = "migration"; · subst h20; rfl
  have hb : ∀ k : String, name ≠ k → (name == k) = false := fun k h => by simpa using h
  simp [readFlagProp, runTable, flagTable, List.lookup, hb _ h1, hb _ h2, hb _ h3, hb _ h4, hb _ h5,
    hb _ h6, hb _ h7, hb _ h8, hb _ h9, hb _ h10, hb _ h11, hb _ h12, hb _ h13, hb _ h14, hb _ h15,
    hb _ h16, hb _ h17, hb _ h18, hb _ h19, hb _ h20]

theorem flagTable_indep : flagTable.Pairwise fun p q => Indep p.2 q.2 := by
  simp only [flagTable, List.pairwise_cons, List.forall_mem_cons, List.not_mem_nil, false_imp_iff,
    implies_true, List.Pairwise.nil, and_true]
  repeat' constructor
  all_goals (intros; rfl)

/-- The top-level segment properties as a handler table. -/
def segmentTable : List (String × Handler Segment) := [
  ("key", ⟨String, fun _ v => rString v, fun s x => { s with key := x }⟩),
  ("version", ⟨Int, fun _ v => rInt v, fun s x => { s with version := x }⟩),
  ("generation", ⟨_, fun _ v => rIntOrNull v, fun s x => { s with generation := x }⟩),
  ("deleted", ⟨Bool, fun _ v => rBool v, fun s x => { s with deleted := x }⟩),
  ("included", ⟨_, fun s v => readStringList s.included v, fun s x => { s with included := x }⟩),
  ("excluded", ⟨_, fun s v => readStringList s.excluded v, fun s x => { s with excluded := x }⟩),
  ("includedContexts", ⟨_, fun s v => readSegmentTargets s.includedContexts v,
      fun s x => { s with includedContexts := x }⟩),
  ("excludedContexts", ⟨_, fun s v => readSegmentTargets s.excludedContexts v,
      fun s x => { s with excludedContexts := x }⟩),
  ("rules", ⟨_, fun s v => readSegmentRules s.rules v, fun s x => { s with rules := x }⟩),
  ("salt", ⟨String, fun _ v => rString v, fun s x => { s with salt := x }⟩),
  ("unbounded", ⟨Bool, fun _ v => rBool v, fun s x => { s with unbounded := x }⟩),
  ("unboundedContextKind", ⟨String, fun _ v => rString v, fun s x => { s with unboundedContextKind := x }⟩)]

theorem readSegmentProp_eq_table (s : Segment) (name : String) (v : J) :
    readSegmentProp s name v = runTable segmentTable s name v := by
  by_cases h1 : name = "key"; · subst h1; rfl
  by_cases h2 : name = "version"; · subst h2; rfl
  by_cases h3 : name = "generation"; · subst h3; rfl
  by_cases h4 : name = "deleted"; · subst h4; rfl
  by_cases h5 : name = "included"; · subst h5; rfl
  by_cases h6 : name = "excluded"; · subst h6; rfl
  by_cases h7 : name = "includedContexts"; · subst h7; rfl
  by_cases h8 : name = "excludedContexts"; · subst h8; rfl
  by_cases h9 : name = "rules"; · subst h9; rfl
  by_cases h10 : name = "salt"; · subst h10; rfl
  by_cases h11 : name = "unbounded"; · subst h11; rfl
  by_cases h12 : name = "unboundedContextKind"; · subst h12; rfl
  have hb : ∀ k : String, name ≠ k → (name == k) = false := fun k h => by simpa using h
  simp [readSegmentProp, runTable, segmentTable, List.lookup, hb _ h1, hb _ h2, hb _ h3, hb _ h4,
    hb _ h5, hb _ h6, hb _ h7, hb _ h8, hb _ h9, hb _ h10, hb _ h11, hb _ h12]

theorem segmentTable_indep : segmentTable.Pairwise fun p q => Indep p.2 q.2 := by
  simp only [segmentTable, List.pairwise_cons, List.forall_mem_cons, List.not_mem_nil, false_imp_iff,
    implies_true, List.Pairwise.nil, and_true]
  repeat' constructor
  all_goals (intros; rfl)

theorem readFlagProp_comm : Comm readFlagProp := by
  have : readFlagProp = runTable flagTable := by
    funext a n v; exact readFlagProp_eq_table a n v
  rw [this]; exact runTable_comm _ flagTable_indep

theorem readSegmentProp_comm : Comm readSegmentProp := by
  have : readSegmentProp = runTable segmentTable := by
    funext a n v; exact readSegmentProp_eq_table a n v
  rw [this]; exact runTable_comm _ segmentTable_indep


/-! ### `normValue` is idempotent -/

def KSorted (l : List (String × J)) : Prop := l.Pairwise (fun p q => p.1 < q.1)
def VNormal (l : List (String × J)) : Prop := ∀ p ∈ l, normValue p.2 = p.2

theorem str_lt_of_not (a b : String) (h1 : ¬ a < b) (h2 : a ≠ b) : b < a := by
  rcases Classical.em (b < a) with h | h
  · exact h
  · exact absurd (String.le_antisymm (String.not_lt.mp h) (String.not_lt.mp h1)) h2

theorem insertSorted_mem (k : String) (v : J) (l : List (String × J)) (p : String × J)
    (hp : p ∈ insertSorted k v l) : p = (k, v) ∨ p ∈ l := by
  induction l with
  | nil => simp [insertSorted] at hp; exact .inl hp
  | cons q l ih =>
    obtain ⟨k', v'⟩ := q
    unfold insertSorted at hp
    split at hp
    · rcases List.mem_cons.mp hp with h | h
      · exact .inl h
      · exact .inr h
    · split at hp
      · rcases List.mem_cons.mp hp with h | h
        · exact .inl h
        · exact .inr (List.mem_cons_of_mem _ h)
      · rcases List.mem_cons.mp hp with h | h
        · exact .inr (by rw [h]; exact List.mem_cons_self)
        · rcases ih h with h | h
          · exact .inl h
          · exact .inr (List.mem_cons_of_mem _ h)

theorem insertSorted_sorted (k : String) (v : J) (l : List (String × J)) (hl : KSorted l) :
    KSorted (insertSorted k v l) := by
  induction l with
  | nil => simp [insertSorted, KSorted]
  | cons q l ih =>
    obtain ⟨k', v'⟩ := q
    unfold KSorted at hl ⊢
    rw [List.pairwise_cons] at hl
    unfold insertSorted
    split
    · rename_i hlt
      rw [List.pairwise_cons]
      refine ⟨?_, List.pairwise_cons.mpr hl⟩
      intro p hp
      rcases List.mem_cons.mp hp with rfl | hp
      · exact hlt
      · exact String.lt_trans hlt (hl.1 p hp)
    · rename_i hnlt
      split
      · rename_i heq
        have : k = k' := by simpa using heq
        subst this
        rw [List.pairwise_cons]
        exact ⟨hl.1, hl.2⟩
      · rename_i hne
        have hne' : k ≠ k' := by simpa using hne
        have hlt : k' < k := str_lt_of_not k k' hnlt hne'
        rw [List.pairwise_cons]
        refine ⟨?_, ih hl.2⟩
        intro p hp
        rcases insertSorted_mem k v l p hp with rfl | hp
        · exact hlt
        · exact hl.1 p hp

theorem insertSorted_last (k : String) (v : J) (l : List (String × J)) (h : ∀ p ∈ l, p.1 < k) :
    insertSorted k v l = l ++ [(k, v)] := by
  induction l with
  | nil => rfl
  | cons q l ih =>
    obtain ⟨k', v'⟩ := q
    have hk : k' < k := h (k', v') List.mem_cons_self
    unfold insertSorted
    rw [if_neg (String.lt_asymm hk)]
    have : (k == k') = false := by
      simp only [beq_eq_false_iff_ne, ne_eq]
      intro e; subst e; exact String.lt_irrefl _ hk
    rw [this]
    simp only [Bool.false_eq_true, if_false, List.cons_append]
    rw [ih (fun p hp => h p (List.mem_cons_of_mem _ hp))]

theorem normKvs_fix (l : List (String × J)) (hs : KSorted l) (hn : VNormal l) (acc : List (String × J))
    (hacc : ∀ p ∈ acc, ∀ q ∈ l, p.1 < q.1) : normKvs l acc = acc ++ l := by
  induction l generalizing acc with
  | nil => simp [normKvs]
  | cons q l ih =>
    obtain ⟨k, v⟩ := q
    unfold KSorted at hs
    rw [List.pairwise_cons] at hs
    unfold normKvs
    have hv : normValue v = v := hn (k, v) List.mem_cons_self
    rw [hv, insertSorted_last k v acc (fun p hp => hacc p hp (k, v) List.mem_cons_self)]
    rw [ih hs.2 (fun p hp => hn p (List.mem_cons_of_mem _ hp))]
    · simp
    · intro p hp q hq
      rcases List.mem_append.mp hp with hp | hp
      · exact hacc p hp q (List.mem_cons_of_mem _ hq)
      · have : p = (k, v) := by simpa using hp
        subst this
        exact hs.1 q hq

mutual
theorem normValue_idem : ∀ v : J, normValue (normValue v) = normValue v
  | .null => rfl
  | .bool _ => rfl
  | .num _ => rfl
  | .str _ => rfl
  | .raw _ => rfl
  | .arr xs => by
    simp only [normValue]
    rw [normList_idem xs]
  | .obj kvs => by
    simp only [normValue]
    have h := normKvs_good kvs [] (by simp [KSorted]) (by intro p hp; cases hp)
    rw [normKvs_fix _ h.1 h.2 [] (by intro p hp; cases hp)]
    rfl
theorem normList_idem : ∀ xs : List J, normList (normList xs) = normList xs
  | [] => rfl
  | x :: xs => by
    simp only [normList]
    rw [normValue_idem x, normList_idem xs]
theorem normKvs_good : ∀ (kvs acc : List (String × J)), KSorted acc → VNormal acc →
    KSorted (normKvs kvs acc) ∧ VNormal (normKvs kvs acc)
  | [], acc, h1, h2 => by simp only [normKvs]; exact ⟨h1, h2⟩
  | (k, v) :: rest, acc, h1, h2 => by
    simp only [normKvs]
    apply normKvs_good rest
    · exact insertSorted_sorted _ _ _ h1
    · intro p hp
      rcases insertSorted_mem _ _ _ _ hp with rfl | hp
      · exact normValue_idem v
      · exact h2 p hp
end

theorem normList_eq_map (xs : List J) : normList xs = xs.map normValue := by
  induction xs with
  | nil => rfl
  | cons x xs ih => simp [normList, ih]

theorem map_normValue_idem (xs : List J) : (xs.map normValue).map normValue = xs.map normValue := by
  rw [List.map_map]
  apply List.map_congr_left
  intro x _
  exact normValue_idem x



/-! ### Handler tables of the nested objects -/

def prereqTable : List (String × Handler Prereq) := [
  ("key", ⟨String, fun _ v => rString v, fun p x => { p with key := x }⟩),
  ("variation", ⟨Int, fun _ v => rInt v, fun p x => { p with variation := x }⟩)]

def targetTable : List (String × Handler Target) := [
  ("contextKind", ⟨String, fun _ v => rString v, fun t x => { t with contextKind := x }⟩),
  ("values", ⟨_, fun t v => readStringList t.values v, fun t x => { t with values := x }⟩),
  ("variation", ⟨Int, fun _ v => rInt v, fun t x => { t with variation := x }⟩)]

def clauseTable : List (String × Handler (Clause × String)) := [
  ("contextKind", ⟨String, fun _ v => rString v, fun s x => ({ s.1 with contextKind := x }, s.2)⟩),
  ("attribute", ⟨_, fun _ v => rStringOrNull v, fun s x => (s.1, x.getD "")⟩),
  ("op", ⟨String, fun _ v => rString v, fun s x => ({ s.1 with op := x }, s.2)⟩),
  ("values", ⟨_, fun s v => readValueList s.1.values v, fun s x => ({ s.1 with values := x }, s.2)⟩),
  ("negate", ⟨Bool, fun _ v => rBool v, fun s x => ({ s.1 with negate := x }, s.2)⟩)]

def wvTable : List (String × Handler WeightedVariation) := [
  ("variation", ⟨Int, fun _ v => rInt v, fun w x => { w with variation := x }⟩),
  ("weight", ⟨Int, fun _ v => rInt v, fun w x => { w with weight := x }⟩),
  ("untracked", ⟨Bool, fun _ v => rBool v, fun w x => { w with untracked := x }⟩)]

def rolloutTable : List (String × Handler (Rollout × String)) := [
  ("kind", ⟨String, fun _ v => rString v, fun s x => ({ s.1 with kind := x }, s.2)⟩),
  ("contextKind", ⟨String, fun _ v => rString v, fun s x => ({ s.1 with contextKind := x }, s.2)⟩),
  ("variations", ⟨_, fun s v => readWeightedVariations s.1.variations v,
      fun s x => ({ s.1 with variations := x }, s.2)⟩),
  ("bucketBy", ⟨_, fun _ v => rStringOrNull v, fun s x => (s.1, x.getD "")⟩),
  ("seed", ⟨_, fun _ v => rIntOrNull v, fun s x =>
      match x with
      | some n => ({ s.1 with seed := some n }, s.2)
      | none => s⟩)]

def vrTable : List (String × Handler VariationOrRollout) := [
  ("variation", ⟨_, fun _ v => rIntOrNull v, fun o x => { o with variation := x }⟩),
  ("rollout", ⟨_, fun o v => readRollout o.rollout v, fun o x => { o with rollout := x }⟩)]

def ruleTable : List (String × Handler FlagRule) := [
  ("id", ⟨String, fun _ v => rString v, fun r x => { r with id := x }⟩),
  ("variation", ⟨_, fun _ v => rIntOrNull v, fun r x => { r with vr := { r.vr with variation := x } }⟩),
  ("rollout", ⟨_, fun r v => readRollout r.vr.rollout v, fun r x => { r with vr := { r.vr with rollout := x } }⟩),
  ("clauses", ⟨_, fun r v => readClauses r.clauses v, fun r x => { r with clauses := x }⟩),
  ("trackEvents", ⟨Bool, fun _ v => rBool v, fun r x => { r with trackEvents := x }⟩)]

def csaTable : List (String × Handler ClientSideAvailability) := [
  ("usingEnvironmentId", ⟨Bool, fun _ v => rBool v, fun c x => { c with usingEnvironmentID := x }⟩),
  ("usingMobileKey", ⟨Bool, fun _ v => rBool v, fun c x => { c with usingMobileKey := x }⟩)]

def segTargetTable : List (String × Handler SegmentTarget) := [
  ("contextKind", ⟨String, fun _ v => rString v, fun t x => { t with contextKind := x }⟩),
  ("values", ⟨_, fun t v => readStringList t.values v, fun t x => { t with values := x }⟩)]

def segRuleTable : List (String × Handler (SegmentRule × String)) := [
  ("id", ⟨String, fun _ v => rString v, fun s x => ({ s.1 with id := x }, s.2)⟩),
  ("clauses", ⟨_, fun s v => readClauses s.1.clauses v, fun s x => ({ s.1 with clauses := x }, s.2)⟩),
  ("weight", ⟨_, fun _ v => rIntOrNull v, fun s x =>
      match x with
      | some n => ({ s.1 with weight := some n }, s.2)
      | none => s⟩),
  ("bucketBy", ⟨_, fun _ v => rStringOrNull v, fun s x => (s.1, x.getD "")⟩),
  ("rolloutContextKind", ⟨String, fun _ v => rString v, fun s x => ({ s.1 with rolloutContextKind := x }, s.2)⟩)]

theorem beq_false_of_ne' {a b : String} (h : a ≠ b) : (a == b) = false := by simpa using h

theorem prereqH_eq_table (s : Prereq) (n : String) (v : J) : prereqH s n v = runTable prereqTable s n v := by
  by_cases h1 : n = "key"; · subst h1; rfl
  by_cases h2 : n = "variation"; · subst h2; rfl
  simp [prereqH, runTable, prereqTable, List.lookup, beq_false_of_ne' h1, beq_false_of_ne' h2]

theorem targetH_eq_table (s : Target) (n : String) (v : J) : targetH s n v = runTable targetTable s n v := by
  by_cases h1 : n = "contextKind"; · subst h1; rfl
  by_cases h2 : n = "values"; · subst h2; rfl
  by_cases h3 : n = "variation"; · subst h3; rfl
  simp [targetH, runTable, targetTable, List.lookup, beq_false_of_ne' h1, beq_false_of_ne' h2,
    beq_false_of_ne' h3]

theorem clauseH_eq_table (s : Clause × String) (n : String) (v : J) :
    clauseH s n v = runTable clauseTable s n v := by
  by_cases h1 : n = "contextKind"; · subst h1; rfl
  by_cases h2 : n = "attribute"; · subst h2; rfl
  by_cases h3 : n = "op"; · subst h3; rfl
  by_cases h4 : n = "values"; · subst h4; rfl
  by_cases h5 : n = "negate"; · subst h5; rfl
  simp [clauseH, runTable, clauseTable, List.lookup, beq_false_of_ne' h1, beq_false_of_ne' h2,
    beq_false_of_ne' h3, beq_false_of_ne' h4, beq_false_of_ne' h5]

theorem wvH_eq_table (s : WeightedVariation) (n : String) (v : J) : wvH s n v = runTable wvTable s n v := by
  by_cases h1 : n = "variation"; · subst h1; rfl
  by_cases h2 : n = "weight"; · subst h2; rfl
  by_cases h3 : n = "untracked"; · subst h3; rfl
  simp [wvH, runTable, wvTable, List.lookup, beq_false_of_ne' h1, beq_false_of_ne' h2, beq_false_of_ne' h3]

theorem rolloutH_eq_table (s : Rollout × String) (n : String) (v : J) :
    rolloutH s n v = runTable rolloutTable s n v := by
  by_cases h1 : n = "kind"; · subst h1; rfl
  by_cases h2 : n = "contextKind"; · subst h2; rfl
  by_cases h3 : n = "variations"; · subst h3; rfl
  by_cases h4 : n = "bucketBy"; · subst h4; rfl
  by_cases h5 : n = "seed"
  · subst h5
    show (do match ← rIntOrNull v with
              | some n => pure ({ s.1 with seed := some n }, s.2)
              | none => pure s) = (rIntOrNull v >>= fun x => pure (match x with
              | some n => ({ s.1 with seed := some n }, s.2)
              | none => s))
    cases rIntOrNull v with
    | error e => rfl
    | ok o => cases o <;> rfl
  simp [rolloutH, runTable, rolloutTable, List.lookup, beq_false_of_ne' h1, beq_false_of_ne' h2,
    beq_false_of_ne' h3, beq_false_of_ne' h4, beq_false_of_ne' h5]

theorem vrH_eq_table (s : VariationOrRollout) (n : String) (v : J) : vrH s n v = runTable vrTable s n v := by
  by_cases h1 : n = "variation"; · subst h1; rfl
  by_cases h2 : n = "rollout"; · subst h2; rfl
  simp [vrH, runTable, vrTable, List.lookup, beq_false_of_ne' h1, beq_false_of_ne' h2]

theorem ruleH_eq_table (s : FlagRule) (n : String) (v : J) : ruleH s n v = runTable ruleTable s n v := by
  by_cases h1 : n = "id"; · subst h1; rfl
  by_cases h2 : n = "variation"; · subst h2; rfl
  by_cases h3 : n = "rollout"; · subst h3; rfl
  by_cases h4 : n = "clauses"; · subst h4; rfl
  by_cases h5 : n = "trackEvents"; · subst h5; rfl
  simp [ruleH, runTable, ruleTable, List.lookup, beq_false_of_ne' h1, beq_false_of_ne' h2,
    beq_false_of_ne' h3, beq_false_of_ne' h4, beq_false_of_ne' h5]

theorem csaH_eq_table (s : ClientSideAvailability) (n : String) (v : J) :
    csaH s n v = runTable csaTable s n v := by
  by_cases h1 : n = "usingEnvironmentId"; · subst h1; rfl
  by_cases h2 : n = "usingMobileKey"; · subst h2; rfl
  simp [csaH, runTable, csaTable, List.lookup, beq_false_of_ne' h1, beq_false_of_ne' h2]

theorem segTargetH_eq_table (s : SegmentTarget) (n : String) (v : J) :
    segTargetH s n v = runTable segTargetTable s n v := by
  by_cases h1 : n = "contextKind"; · subst h1; rfl
  by_cases h2 : n = "values"; · subst h2; rfl
  simp [segTargetH, runTable, segTargetTable, List.lookup, beq_false_of_ne' h1, beq_false_of_ne' h2]

theorem segRuleH_eq_table (s : SegmentRule × String) (n : String) (v : J) :
    segRuleH s n v = runTable segRuleTable s n v := by
  by_cases h1 : n = "id"; · subst h1; rfl
  by_cases h2 : n = "clauses"; · subst h2; rfl
  by_cases h3 : n = "weight"
  · subst h3
    show (do match ← rIntOrNull v with
              | some n => pure ({ s.1 with weight := some n }, s.2)
              | none => pure s) = (rIntOrNull v >>= fun x => pure (match x with
              | some n => ({ s.1 with weight := some n }, s.2)
              | none => s))
    cases rIntOrNull v with
    | error e => rfl
    | ok o => cases o <;> rfl
  by_cases h4 : n = "bucketBy"; · subst h4; rfl
  by_cases h5 : n = "rolloutContextKind"; · subst h5; rfl
  simp [segRuleH, runTable, segRuleTable, List.lookup, beq_false_of_ne' h1, beq_false_of_ne' h2,
    beq_false_of_ne' h3, beq_false_of_ne' h4, beq_false_of_ne' h5]

local macro "indep_tac" T:ident : tactic => `(tactic| (
  simp only [$T:ident, List.pairwise_cons, List.forall_mem_cons, List.not_mem_nil, false_imp_iff,
    implies_true, List.Pairwise.nil, and_true]
  repeat' constructor
  all_goals (intros; first | rfl | (rename_i x y; cases x <;> cases y <;> rfl) | (rename_i x _; cases x <;> rfl))))

theorem prereqTable_indep : prereqTable.Pairwise fun p q => Indep p.2 q.2 := by indep_tac prereqTable
theorem targetTable_indep : targetTable.Pairwise fun p q => Indep p.2 q.2 := by indep_tac targetTable
theorem clauseTable_indep : clauseTable.Pairwise fun p q => Indep p.2 q.2 := by indep_tac clauseTable
theorem wvTable_indep : wvTable.Pairwise fun p q => Indep p.2 q.2 := by indep_tac wvTable
theorem rolloutTable_indep : rolloutTable.Pairwise fun p q => Indep p.2 q.2 := by indep_tac rolloutTable
theorem vrTable_indep : vrTable.Pairwise fun p q => Indep p.2 q.2 := by indep_tac vrTable
theorem ruleTable_indep : ruleTable.Pairwise fun p q => Indep p.2 q.2 := by indep_tac ruleTable
theorem csaTable_indep : csaTable.Pairwise fun p q => Indep p.2 q.2 := by indep_tac csaTable
theorem segTargetTable_indep : segTargetTable.Pairwise fun p q => Indep p.2 q.2 := by indep_tac segTargetTable
theorem segRuleTable_indep : segRuleTable.Pairwise fun p q => Indep p.2 q.2 := by indep_tac segRuleTable

theorem comm_of_table {σ} (h : σ → String → J → D σ) (tbl : List (String × Handler σ))
    (he : ∀ s n v, h s n v = runTable tbl s n v) (hi : tbl.Pairwise fun p q => Indep p.2 q.2) : Comm h := by
  have : h = runTable tbl := by funext s n v; exact he s n v
  rw [this]; exact runTable_comm _ hi

theorem prereqH_comm : Comm prereqH := comm_of_table _ _ prereqH_eq_table prereqTable_indep
theorem targetH_comm : Comm targetH := comm_of_table _ _ targetH_eq_table targetTable_indep
theorem clauseH_comm : Comm clauseH := comm_of_table _ _ clauseH_eq_table clauseTable_indep
theorem wvH_comm : Comm wvH := comm_of_table _ _ wvH_eq_table wvTable_indep
theorem rolloutH_comm : Comm rolloutH := comm_of_table _ _ rolloutH_eq_table rolloutTable_indep
theorem vrH_comm : Comm vrH := comm_of_table _ _ vrH_eq_table vrTable_indep
theorem ruleH_comm : Comm ruleH := comm_of_table _ _ ruleH_eq_table ruleTable_indep
theorem csaH_comm : Comm csaH := comm_of_table _ _ csaH_eq_table csaTable_indep
theorem segTargetH_comm : Comm segTargetH := comm_of_table _ _ segTargetH_eq_table segTargetTable_indep
theorem segRuleH_comm : Comm segRuleH := comm_of_table _ _ segRuleH_eq_table segRuleTable_indep


end LD.Codec

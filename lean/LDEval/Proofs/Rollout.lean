/-
  LDEval.Proofs.Rollout — helper lemmas for C07 / C08: monotonicity of the single-precision
  accumulation step of a rollout in the weight, and what `computeBucket` can return.
-/
import LDEval.Spec.EvalSpec
import LDEval.Proofs.SoftF32
import LDEval.Proofs.Buffer

namespace LD.Rollout
open LD.SoftF32

/-! ### The accumulation step `sum += float32(weight) / 100000` -/

theorem ofInt_mono {a b : Int} (h : a ≤ b) : ofInt a ≤ ofInt b := by
  unfold ofInt
  apply rnd_mono
  exact_mod_cast h

/-- `float32(w) / 100000.0` is monotone in `w`. -/
theorem share_mono {a b : Int} (h : a ≤ b) :
    div (ofInt a) 100000 ≤ div (ofInt b) 100000 := by
  unfold div
  apply rnd_mono
  exact div_le_div_of_nonneg_right (ofInt_mono h) (by norm_num)

/-- `sum + float32(w) / 100000.0` is monotone in `w`. -/
theorem step_mono_weight (s : Rat) {a b : Int} (h : a ≤ b) :
    add s (div (ofInt a) 100000) ≤ add s (div (ofInt b) 100000) := by
  unfold add
  apply rnd_mono
  have := share_mono h
  linarith

/-- ... and in the running sum. -/
theorem step_mono_sum {s t : Rat} (w : Int) (h : s ≤ t) :
    add s (div (ofInt w) 100000) ≤ add t (div (ofInt w) 100000) := by
  unfold add
  apply rnd_mono
  linarith

theorem add_rnd_fixed (a b : Rat) : rnd (add a b) = add a b := rnd_idem _

theorem share_zero : div (ofInt 0) 100000 = 0 := by
  unfold div ofInt
  simp [rnd_zero]

theorem share_nonneg {w : Int} (h : 0 ≤ w) : 0 ≤ div (ofInt w) 100000 := by
  have := share_mono h
  rwa [share_zero] at this

/-! ### `computeBucket` -/

/-- The value computed from a hash is in `[0, 1]`. -/
theorem bucketOfInput_range (input : List UInt8) :
    0 ≤ bucketOfInput input ∧ bucketOfInput input ≤ 1 := by
  obtain ⟨v, _, hlt, heq⟩ := bucketOfInput_eq input
  rw [heq]
  have hls : longScale = pow2 60 := by
    unfold longScale
    exact longScale_eq
  rw [hls]
  have hv0 : (0 : Rat) ≤ ((v.toNat : Int) : Rat) := by exact_mod_cast Nat.zero_le _
  have hv1 : ((v.toNat : Int) : Rat) ≤ pow2 60 := by
    rw [pow2_eq_zpow]
    have : ((v.toNat : Int) : Rat) < ((2 ^ 60 : Nat) : Rat) := by exact_mod_cast hlt
    have h2 : ((2 ^ 60 : Nat) : Rat) = (2 : Rat) ^ (60 : Int) := by norm_num
    rw [h2] at this
    exact this.le
  have ha0 : 0 ≤ ofInt (v.toNat : Int) := rnd_nonneg hv0
  have ha1 : ofInt (v.toNat : Int) ≤ pow2 60 := rnd_le_pow2 hv1
  have hp : 0 < pow2 60 := pow2_pos 60
  unfold div
  constructor
  · exact rnd_nonneg (div_nonneg ha0 hp.le)
  · have : ofInt (v.toNat : Int) / pow2 60 ≤ pow2 0 := by
      rw [pow2_zero, div_le_one hp]
      exact ha1
    have := rnd_le_pow2 this
    rwa [pow2_zero] at this

/-- Every bucket value is in `[0, 1]`. -/
theorem computeBucket_range {sec : Bool} {ctx : Ctx} {isExp : Bool} {seed : Option Int}
    {ck key : String} {attr : Ref} {salt : String} {b : Rat} {fail : BucketFail}
    (h : computeBucket sec ctx isExp seed ck key attr salt = .ok (b, fail)) :
    0 ≤ b ∧ b ≤ 1 := by
  unfold computeBucket at h
  split at h
  · cases h
  · cases h
    norm_num
  · cases h
    exact bucketOfInput_range _

/-- The failure reason is "context lacks kind" exactly when the context has no individual context
of the rollout's kind — whatever the bucket-by attribute is (provided it is a valid reference, or
ignored). -/
theorem computeBucket_lacksKind {sec : Bool} {ctx : Ctx} {isExp : Bool} {seed : Option Int}
    {ck key : String} {attr : Ref} {salt : String} {b : Rat} {fail : BucketFail}
    (h : computeBucket sec ctx isExp seed ck key attr salt = .ok (b, fail)) :
    fail = .contextLacksKind ↔ ctx.byKind ck = none := by
  unfold computeBucket bucketInput at h
  simp only at h
  split at h
  · cases h
  · rename_i f hf
    cases h
    split at hf
    · cases hf
    · split at hf
      · cases hf
        simp [*]
      · rename_i sc hsc
        rw [hsc]
        split at hf
        · rename_i e he
          cases hf
          split at he <;> first
            | (cases he; done)
            | (cases he; simp)
            | (split at he <;> first | (cases he; done) | (cases he; simp))
        · split at hf <;> first | cases hf | (split at hf <;> cases hf)
  · rename_i buf hf
    cases h
    split at hf
    · cases hf
    · split at hf
      · cases hf
      · rename_i sc hsc
        rw [hsc]
        simp

/-- Experiments always bucket by key: the bucket-by attribute and the secondary-key option are
ignored. -/
theorem computeBucket_experiment (sec sec' : Bool) (ctx : Ctx) (seed : Option Int)
    (ck key : String) (attr attr' : Ref) (salt : String) :
    computeBucket sec ctx true seed ck key attr salt =
      computeBucket sec' ctx true seed ck key attr' salt := by
  simp [computeBucket, bucketInput]

end LD.Rollout

#print axioms LD.Rollout.step_mono_weight
#print axioms LD.Rollout.computeBucket_range
#print axioms LD.Rollout.computeBucket_lacksKind
#print axioms LD.Rollout.computeBucket_experiment

/-
  LDEval.Proofs.AuditOrigin — (theorem audit, C08 #26/#27, C20 #69)

  Where the detail returned by one level of evaluation comes from: an "early" stage (off,
  prerequisite failed, target match, error), the flag's fallthrough, or the rule at the reported
  index.  Used to state experiment attribution about `evaluate` itself, and to bound the reported
  rule index.
-/
import LDEval.Proofs.Refine
import LDEval.Proofs.Total

namespace LD.AuditC08

/-! ### What `getValueForVR` returns -/

/-- `getValueForVariationOrRollout` either fails (rollout error or variation index out of range:
an error detail) or serves the selected variation with the given reason, turned into its
in-experiment form exactly when the selection says so. -/
theorem getValueForVR_cases (env : Env) (f : Flag) (vr : VariationOrRollout) (r : Reason) :
    (∃ k, Spec.getValueForVR env f vr r = Detail.forError k) ∨
    (∃ v e, variationOrRollout env vr f.key f.salt = .ok (v, e) ∧ 0 ≤ v ∧
      v < f.variations.length ∧
      (Spec.getValueForVR env f vr r).reason = (if e then r.toExperiment else r) ∧
      (Spec.getValueForVR env f vr r).index = some v ∧
      (Spec.getValueForVR env f vr r).value = f.variations.getD v.toNat .null) := by
  unfold Spec.getValueForVR
  cases h : variationOrRollout env vr f.key f.salt with
  | error e => exact .inl ⟨_, rfl⟩
  | ok p =>
    obtain ⟨v, e⟩ := p
    simp only []
    unfold Spec.getVariation
    split
    · exact .inl ⟨_, rfl⟩
    · rename_i hv
      exact .inr ⟨v, e, rfl, by omega, by omega, rfl, rfl, rfl⟩

/-! ### Origin of a detail -/

/-- The three possible origins of the detail of one level of evaluation of flag `f`. -/
inductive Origin (env : Env) (f : Flag) (d : Detail) : Prop
  /-- off, prerequisite failed, target match or an error: never in-experiment -/
  | early (hk : d.reason.kind = .off ∨ d.reason.kind = .targetMatch ∨
      d.reason.kind = .prereqFailed ∨ d.reason.kind = .error)
      (hin : d.reason.inExperiment = false)
  /-- the flag's fallthrough variation-or-rollout -/
  | fallthrough (h : d = Spec.getValueForVR env f f.fallthrough .fallthrough)
  /-- the variation-or-rollout of the rule at index `j` -/
  | rule (j : Nat) (r : FlagRule) (hj : f.rules[j]? = some r)
      (h : d = Spec.getValueForVR env f r.vr (.ruleMatch j r.id))

theorem origin_forError (env : Env) (f : Flag) (k : ErrKind) : Origin env f (Detail.forError k) :=
  .early (.inr (.inr (.inr rfl))) rfl

theorem origin_getVariation (env : Env) (f : Flag) (i : Int) (r : Reason)
    (hk : r.kind = .off ∨ r.kind = .targetMatch ∨ r.kind = .prereqFailed ∨ r.kind = .error)
    (hin : r.inExperiment = false) : Origin env f (Spec.getVariation f i r) := by
  unfold Spec.getVariation
  split
  · exact origin_forError env f _
  · exact .early hk hin

theorem origin_getOffValue (env : Env) (f : Flag) (r : Reason)
    (hk : r.kind = .off ∨ r.kind = .targetMatch ∨ r.kind = .prereqFailed ∨ r.kind = .error)
    (hin : r.inExperiment = false) : Origin env f (Spec.getOffValue f r) := by
  unfold Spec.getOffValue
  split
  · exact .early hk hin
  · exact origin_getVariation env f _ r hk hin

theorem origin_rulesLoop (seg : Spec.SegRec) (env : Env) (f : Flag) :
    ∀ (rs pre : List FlagRule), f.rules = pre ++ rs → ∀ d ok,
      Spec.rulesLoop seg env f rs pre.length = some (d, ok) → Origin env f d := by
  intro rs
  induction rs with
  | nil =>
    intro pre _ d ok h
    simp only [Spec.rulesLoop, Option.some.injEq, Prod.mk.injEq] at h
    exact .fallthrough h.1.symm
  | cons r rs ih =>
    intro pre hpre d ok h
    simp only [Spec.rulesLoop] at h
    split at h
    · simp only [Option.some.injEq, Prod.mk.injEq] at h
      rw [← h.1]; exact origin_forError env f _
    · cases h
    · simp only [Option.some.injEq, Prod.mk.injEq] at h
      refine .rule pre.length r ?_ h.1.symm
      rw [hpre]; simp
    · refine ih (pre ++ [r]) (by rw [hpre]; simp) d ok ?_
      simpa using h

theorem origin_evalBody (rec : Spec.FlagRec) (seg : Spec.SegRec) (env : Env) (f : Flag)
    (chain : List String) (d : Detail) (ok : Bool)
    (h : Spec.evalBody rec seg env f chain = some (d, ok)) : Origin env f d := by
  unfold Spec.evalBody at h
  split at h
  · simp only [Option.some.injEq, Prod.mk.injEq] at h
    rw [← h.1]; exact origin_getOffValue env f _ (.inl rfl) rfl
  · split at h
    · cases h
    · simp only [Option.some.injEq, Prod.mk.injEq] at h
      rw [← h.1]; exact origin_forError env f _
    · simp only [Option.some.injEq, Prod.mk.injEq] at h
      rw [← h.1]; exact origin_getOffValue env f _ (.inr (.inr (.inl rfl))) rfl
    · split at h
      · simp only [Option.some.injEq, Prod.mk.injEq] at h
        rw [← h.1]; exact origin_getVariation env f _ _ (.inr (.inl rfl)) rfl
      · exact origin_rulesLoop seg env f f.rules [] rfl d ok h

theorem origin_evalFlag (sf n : Nat) (env : Env) (f : Flag) (chain : List String) (d : Detail)
    (ok : Bool) (h : Spec.evalFlag sf n env f chain = some (d, ok)) : Origin env f d := by
  cases n with
  | zero => cases h
  | succ n => exact origin_evalBody _ _ env f chain d ok h

/-! ### The entry point -/

/-- `evaluate` on a valid context always has a Spec result (C01/C10: the fuel suffices), and that
result has one of the three origins. -/
theorem evaluate_spec_origin (env : Env) (f : Flag) (hc : env.ctx ≠ .invalid) :
    ∃ d ok, Spec.evalFlag (segFuel env.store) (flagFuel env.store) env f [] = some (d, ok) ∧
      Origin env f d := by
  cases hs : Spec.evalFlag (segFuel env.store) (flagFuel env.store) env f [] with
  | none =>
    have := evaluate_oof_spec env f hc hs
    rw [evaluate_total] at this
    cases this
  | some p =>
    obtain ⟨d, ok⟩ := p
    exact ⟨d, ok, rfl, origin_evalFlag _ _ env f [] d ok hs⟩

/-! ### Consequences of an origin -/

theorem toExperiment_fallthrough :
    Reason.fallthrough.toExperiment = { kind := .fallthrough, inExperiment := true } := rfl

theorem toExperiment_ruleMatch (j : Nat) (id : String) :
    (Reason.ruleMatch j id).toExperiment =
      { kind := .ruleMatch, ruleIndex := j, ruleId := id, inExperiment := true } := rfl

/-- A RULE_MATCH reason reports the index and id of an existing rule of the flag. -/
theorem Origin.ruleMatch_rule {env : Env} {f : Flag} {d : Detail} (h : Origin env f d)
    (hk : d.reason.kind = .ruleMatch) :
    ∃ rule, 0 ≤ d.reason.ruleIndex ∧ f.rules[d.reason.ruleIndex.toNat]? = some rule ∧
      d.reason.ruleId = rule.id ∧ d = Spec.getValueForVR env f rule.vr
        (.ruleMatch d.reason.ruleIndex.toNat rule.id) := by
  cases h with
  | early hk' _ => rw [hk] at hk'; simp at hk'
  | fallthrough h =>
    rcases getValueForVR_cases env f f.fallthrough .fallthrough with ⟨k, hd⟩ | ⟨v, e, -, -, -, hr, -, -⟩
    · rw [h, hd] at hk; cases hk
    · rw [h, hr] at hk; cases e <;> cases hk
  | rule j r hj h =>
    rcases getValueForVR_cases env f r.vr (.ruleMatch j r.id) with ⟨k, hd⟩ | ⟨v, e, -, -, -, hr, -, -⟩
    · rw [h, hd] at hk; cases hk
    · have hidx : d.reason.ruleIndex = (j : Int) ∧ d.reason.ruleId = r.id := by
        rw [h, hr]; cases e <;> exact ⟨rfl, rfl⟩
      refine ⟨r, by rw [hidx.1]; omega, by rw [hidx.1]; simpa using hj, hidx.2, ?_⟩
      rw [hidx.1]; simpa using h

/-- A FALLTHROUGH reason comes from the flag's fallthrough variation-or-rollout. -/
theorem Origin.fallthrough_vr {env : Env} {f : Flag} {d : Detail} (h : Origin env f d)
    (hk : d.reason.kind = .fallthrough) :
    d = Spec.getValueForVR env f f.fallthrough .fallthrough := by
  cases h with
  | early hk' _ => rw [hk] at hk'; simp at hk'
  | fallthrough h => exact h
  | rule j r hj h =>
    rcases getValueForVR_cases env f r.vr (.ruleMatch j r.id) with ⟨k, hd⟩ | ⟨v, e, -, -, -, hr, -, -⟩
    · rw [h, hd] at hk; cases hk
    · rw [h, hr] at hk; cases e <;> cases hk

/-- In-experiment only with FALLTHROUGH or RULE_MATCH. -/
theorem Origin.inExperiment_kind {env : Env} {f : Flag} {d : Detail} (h : Origin env f d)
    (hin : d.reason.inExperiment = true) :
    d.reason.kind = .fallthrough ∨ d.reason.kind = .ruleMatch := by
  cases h with
  | early _ hin' => rw [hin] at hin'; cases hin'
  | fallthrough h =>
    rcases getValueForVR_cases env f f.fallthrough .fallthrough with ⟨k, hd⟩ | ⟨v, e, -, -, -, hr, -, -⟩
    · rw [h, hd] at hin; cases hin
    · left; rw [h, hr]; cases e <;> rfl
  | rule j r hj h =>
    rcases getValueForVR_cases env f r.vr (.ruleMatch j r.id) with ⟨k, hd⟩ | ⟨v, e, -, -, -, hr, -, -⟩
    · rw [h, hd] at hin; cases hin
    · right; rw [h, hr]; cases e <;> rfl

end LD.AuditC08

/-
  LDEval.Proofs.AuditGuard — theorem audit, C01 #1: guardedness.

  The model has no `panic` outcome: every Go index expression / last-element access / ignored
  "ok" result is written with a TOTAL accessor that has a default (`getD`, `getLast?`, `[i]?`,
  `Option.getD`).  A default that could be reached would hide a Go panic (or a silently wrong value).
  This file shows, accessor by accessor, that on every path through `evaluate` that reaches the
  access the index is within bounds / the option is `some`, so that the accessor returns the genuine
  element `l[i]` (Lean's checked indexing, which carries the proof `i < l.length`) and the default
  is dead code.  The statements are about the functions that contain the accessor; the summary is
  `no_default_reached` in `Properties/C01.lean`.

  Sites (model ↔ Go):
   1. `getVariation`          `f.variations.getD index.toNat .null`   ↔ evaluator.go:253 `es.flag.Variations[index]`,
                                                                        guard evaluator.go:248
   2. `variationOrRollout`    `vr.rollout.variations.getLast?`        ↔ evaluator.go:363 `Variations[len(...)-1]`,
                                                                        guard evaluator.go:335 `len(...) == 0`
   3. `isExperimentResult`    `f.rules[r.ruleIndex.toNat]?`           ↔ evaluator.go:409 `flag.Rules[i]`,
                                                                        guard evaluator.go:408 `i >= 0 && i < len`
   4. `bucketOfInput`         `(parseHexU64 (hex.take 15)).getD 0`    ↔ evaluator_bucketing.go:100-102
                                                                        `hexEncodedChars[:15]`, `intVal, _ := ParseHexUint64`
   5. `Clause.valueAs*`       `c.values[i]?`, `pv[i]?`                ↔ ldmodel/eval_accessors.go:83-91, 108-117, 135-144
                                                                        (explicit range checks), index from the
                                                                        `for i, v := range clause.Values` of `matchAny`
   6. `bigSegmentRef`         `s.generation.getD 0`                   ↔ evaluator_segment.go:16 `Generation.IntValue()`,
                                                                        guard evaluator_segment.go:32 `IsDefined()`
   7. `Ref.component 0`       `r.comps.getD 0 ""`                     ↔ go-sdk-common `Ref.Component(0)` inside
                                                                        `GetValueForRef` (guard: `Err() == nil`, depth ≥ 1)
   8. `LocalBuffer.copyAt`    `dst.take off`, `dst.drop (off+len)`    ↔ internal `copy(b.Data[oldLen:], …)` after `grow`
  The loops over `s.IncludedContexts[i]`, `r.Clauses[i]` (evaluator_segment.go:86,96,132) are
  `for i := range` loops and are modelled by structural recursion (`List.any`, `clausesMatch`): there is
  no accessor and nothing to guard.
-/
import LDEval.Proofs.AuditReason
import LDEval.Proofs.Buffer

namespace LD

/-! ### 1. `getVariation` — evaluator.go:247-254 -/

/-- `getVariation` either fails its bounds check (`index < 0 || index >= len(Variations)`,
evaluator.go:248) and returns MALFORMED_FLAG without touching the list, or the index is in range and
the value returned is the genuine element `f.variations[index]` — the `.null` default of `getD` is
never what is returned.  A Go variant with a weaker check (say `index > len`) would index out of
range exactly where this lemma says the model does not. -/
theorem getVariation_guarded (env : Env) (f : Flag) (i : Int) (r : Reason) (st : St) :
    ((i < 0 ∨ i ≥ f.variations.length) ∧
      getVariation env f i r st =
        (Detail.forError .malformedFlag, logErr env f.key (.badVariation i) st)) ∨
    (∃ h : i.toNat < f.variations.length, 0 ≤ i ∧
      getVariation env f i r st =
        ({ value := f.variations[i.toNat], index := some i, reason := r }, st)) := by
  unfold getVariation
  split
  · rename_i h; exact Or.inl ⟨h, rfl⟩
  · rename_i h
    have h0 : 0 ≤ i := by omega
    have h1 : i.toNat < f.variations.length := by omega
    refine Or.inr ⟨h1, h0, ?_⟩
    simp [List.getD_eq_getElem?_getD, List.getElem?_eq_getElem h1]

/-- Reading it from the result: a result that carries an index carries the index asked for, that
index is within `0 ≤ i < len(Variations)`, and the value is that very element. -/
theorem getVariation_index_some {env : Env} {f : Flag} {i : Int} {r : Reason} {st : St} {j : Int}
    (h : (getVariation env f i r st).1.index = some j) :
    j = i ∧ 0 ≤ i ∧ ∃ hlt : i.toNat < f.variations.length,
      (getVariation env f i r st).1.value = f.variations[i.toNat] ∧
      (getVariation env f i r st).1.reason = r := by
  rcases getVariation_guarded env f i r st with ⟨_, he⟩ | ⟨hlt, h0, he⟩
  · rw [he] at h; simp [Detail.forError] at h
  · rw [he] at h ⊢
    simp only [Option.some.injEq] at h
    exact ⟨h.symm, h0, hlt, rfl, rfl⟩

/-! ### 2. the last bucket of a rollout — evaluator.go:335, 363 -/

/-- `getLast?` is `none` only for the empty list; otherwise it is the element at `len-1`, an
in-range index. -/
theorem getLast?_guarded {α : Type} (l : List α) :
    (l = [] ∧ l.getLast? = none) ∨
    (∃ h : l.length - 1 < l.length, l.getLast? = some l[l.length - 1]) := by
  cases l with
  | nil => exact Or.inl ⟨rfl, rfl⟩
  | cons a as =>
    refine Or.inr ⟨by simp, ?_⟩
    rw [List.getLast?_eq_some_getLast (List.cons_ne_nil a as), List.getLast_eq_getElem]

/-- The `none` branch of the `getLast?` in `variationOrRollout` is exactly Go's explicit
`len(r.Rollout.Variations) == 0` test (evaluator.go:335): `emptyRolloutError` is returned iff there is
no fixed variation and the rollout has no buckets. -/
theorem variationOrRollout_emptyRollout_iff (env : Env) (vr : VariationOrRollout)
    (key salt : String) :
    variationOrRollout env vr key salt = .error .emptyRollout ↔
      vr.variation = none ∧ vr.rollout.variations = [] := by
  unfold variationOrRollout
  constructor
  · intro h
    split at h
    · cases h
    · rename_i hv
      split at h
      · rename_i hl; exact ⟨hv, List.getLast?_eq_none_iff.mp hl⟩
      · simp only at h
        split at h
        · rename_i e he
          have := computeBucket_err he
          rw [this] at h; cases h
        · split at h <;> cases h
  · rintro ⟨hv, hl⟩
    rw [hv, hl]; rfl

/-- When the threshold scan finds no bucket, the model takes `last`, and `last` is the genuine element
`Variations[len-1]` of a NON-EMPTY list (Go: evaluator.go:363, reached only after the `len == 0`
return at :335).  The statement gives the complete result of `variationOrRollout` on that path. -/
theorem variationOrRollout_last_guarded {env : Env} {vr : VariationOrRollout} {key salt : String}
    (hv : vr.variation = none) (hne : vr.rollout.variations ≠ []) {bucket : Rat} {fail : BucketFail}
    (hb : computeBucket env.opts.secondaryKey env.ctx vr.rollout.isExperiment vr.rollout.seed
      vr.rollout.contextKind key vr.rollout.bucketBy salt = .ok (bucket, fail))
    (hscan : rolloutScan bucket vr.rollout.isExperiment (fail == .contextLacksKind)
      vr.rollout.variations 0 = none) :
    ∃ h : vr.rollout.variations.length - 1 < vr.rollout.variations.length,
      variationOrRollout env vr key salt =
        .ok ((vr.rollout.variations[vr.rollout.variations.length - 1]).variation,
          vr.rollout.isExperiment &&
            !(vr.rollout.variations[vr.rollout.variations.length - 1]).untracked &&
            !(fail == .contextLacksKind)) := by
  rcases getLast?_guarded vr.rollout.variations with ⟨hnil, _⟩ | ⟨h, hl⟩
  · exact absurd hnil hne
  · refine ⟨h, ?_⟩
    unfold variationOrRollout
    rw [hv]
    simp only [hl, hb, hscan]

/-- The threshold scan only ever returns the variation of a LISTED bucket. -/
theorem rolloutScan_mem {bucket : Rat} {isExp lacks : Bool} :
    ∀ {wvs : List WeightedVariation} {sum : Rat} {i : Int} {x : Bool},
      rolloutScan bucket isExp lacks wvs sum = some (i, x) → ∃ wv ∈ wvs, wv.variation = i := by
  intro wvs
  induction wvs with
  | nil => intro sum i x h; simp [rolloutScan] at h
  | cons wv rest ih =>
    intro sum i x h
    unfold rolloutScan at h
    simp only at h
    split at h
    · simp only [Option.some.injEq, Prod.mk.injEq] at h
      exact ⟨wv, List.mem_cons_self, h.1⟩
    · obtain ⟨w, hw, hi⟩ := ih h
      exact ⟨w, List.mem_cons_of_mem _ hw, hi⟩

/-- Every index `variationOrRollout` hands to `getVariation` is the fixed variation or the variation
of a listed bucket (never a default element). -/
theorem variationOrRollout_ok {env : Env} {vr : VariationOrRollout} {key salt : String} {i : Int}
    {x : Bool} (h : variationOrRollout env vr key salt = .ok (i, x)) :
    (vr.variation = some i ∧ x = false) ∨
    (vr.variation = none ∧ ∃ wv ∈ vr.rollout.variations, wv.variation = i) := by
  unfold variationOrRollout at h
  split at h
  · rename_i v hv
    simp only [Except.ok.injEq, Prod.mk.injEq] at h
    exact Or.inl ⟨by rw [hv, h.1], h.2.symm⟩
  · rename_i hv
    refine Or.inr ⟨hv, ?_⟩
    split at h
    · cases h
    · rename_i last hl
      simp only at h
      split at h
      · cases h
      · split at h
        · rename_i r hr
          simp only [Except.ok.injEq] at h
          subst h
          exact rolloutScan_mem hr
        · simp only [Except.ok.injEq, Prod.mk.injEq] at h
          exact ⟨last, List.mem_of_getLast? hl, h.1⟩

/-! ### 3. `isExperimentResult` — evaluator.go:404-413 -/

/-- For a coherent RULE_MATCH reason (and `evaluate` only produces coherent reasons,
`evaluate_reason_coherent`) the rule lookup of `isExperiment` succeeds: neither the
`ruleIndex ≥ 0` test nor the `[i]?` falls into its `false` default, and the answer is the
`trackEvents` bit of the matched rule (or `true` when the reason says `inExperiment`). -/
theorem isExperimentResult_guarded {f : Flag} {r : Reason} (hc : ReasonCoherent f r)
    (hk : r.kind = .ruleMatch) :
    ∃ h : r.ruleIndex.toNat < f.rules.length, 0 ≤ r.ruleIndex ∧
      r.ruleId = (f.rules[r.ruleIndex.toNat]).id ∧
      isExperimentResult f r = (r.inExperiment || (f.rules[r.ruleIndex.toNat]).trackEvents) := by
  obtain ⟨h0, rule, hr, hid⟩ := hc.ruleMatch hk
  obtain ⟨hlt, hget⟩ := List.getElem?_eq_some_iff.mp hr
  refine ⟨hlt, h0, by rw [hget]; exact hid, ?_⟩
  unfold isExperimentResult
  cases hx : r.inExperiment with
  | true => simp
  | false =>
    simp only [Bool.false_eq_true, if_false, hk, ge_iff_le, h0, if_true, hr, Bool.false_or]
    rw [hget]

/-! ### 4. the hash prefix — evaluator_bucketing.go:97-104 -/

/-- The 40 hex digits of a SHA-1 digest: the slice `hexEncodedChars[:15]` is in range (Go slices a
64-byte buffer of which 40 bytes are written), it has exactly 15 characters, all of them hex digits,
so `ParseHexUint64` succeeds: the ignored `ok` result (`intVal, _ :=`) is always `true` and the
model's `.getD 0` never yields its default. -/
theorem bucketOfInput_guarded (input : List UInt8) :
    15 ≤ (Sha1.hexEncode (Sha1.sum input)).length ∧
    ((Sha1.hexEncode (Sha1.sum input)).take 15).length = 15 ∧
    ∃ v : UInt64, parseHexU64 ((Sha1.hexEncode (Sha1.sum input)).take 15) = some v ∧
      bucketOfInput input = SoftF32.div (SoftF32.ofInt v.toNat) longScale := by
  have hlen : (Sha1.hexEncode (Sha1.sum input)).length = 40 := by
    rw [hexEncode_length, sha1_sum_length]
  refine ⟨by omega, by rw [List.length_take, hlen]; rfl, ?_⟩
  obtain ⟨v, hv, _, he⟩ := bucketOfInput_eq input
  exact ⟨v, hv, he⟩

/-! ### 5. clause value accessors — ldmodel/eval_accessors.go, evaluator_clause.go `matchAny` -/

/-- `anyIdx p vs k` (Go: `for i, clauseValue := range clause.Values`) calls `p` only on pairs
`(vs[j], k + j)` with `j` in range: two predicates that agree on those pairs give the same answer. -/
theorem anyIdx_congr {p q : J → Nat → Bool} :
    ∀ (vs : List J) (k : Nat), (∀ j (h : j < vs.length), p vs[j] (k + j) = q vs[j] (k + j)) →
      anyIdx p vs k = anyIdx q vs k := by
  intro vs
  induction vs with
  | nil => intro k _; rfl
  | cons v vs ih =>
    intro k h
    unfold anyIdx
    have h0 := h 0 (by simp)
    simp only [List.getElem_cons_zero, Nat.add_zero] at h0
    rw [h0, ih (k + 1)]
    intro j hj
    have := h (j + 1) (by simpa using hj)
    simpa [show k + 1 + j = k + (j + 1) by omega] using this

/-- … and a `true` answer comes from an in-range position. -/
theorem anyIdx_true {p : J → Nat → Bool} :
    ∀ {vs : List J} {k : Nat}, anyIdx p vs k = true →
      ∃ j, ∃ h : j < vs.length, p vs[j] (k + j) = true := by
  intro vs
  induction vs with
  | nil => intro k h; simp [anyIdx] at h
  | cons v vs ih =>
    intro k h
    unfold anyIdx at h
    rcases Bool.or_eq_true_iff.mp h with h | h
    · exact ⟨0, by simp, by simpa using h⟩
    · obtain ⟨j, hj, hp⟩ := ih h
      exact ⟨j + 1, by simpa using hj, by
        simpa [show k + 1 + j = k + (j + 1) by omega] using hp⟩

/-- Without preprocessed data the three accessors index `c.values`; at an in-range index the
`[i]?` is `some` and the accessor is the conversion of the genuine element
(eval_accessors.go:90, 115, 142: `if index >= 0 && index < len(clause.Values)`). -/
theorem Clause.valueAs_guarded_values (rx : RegexOracle) (c : Clause) (i : Nat)
    (hpre : c.pre.values = none) (hi : i < c.values.length) :
    c.valueAsRegexp rx i = parseRegexp rx c.values[i] ∧
    c.valueAsSemVer i = parseSemVer c.values[i] ∧
    c.valueAsTimestamp i = Time.valueToTimestamp c.values[i] := by
  unfold Clause.valueAsRegexp Clause.valueAsSemVer Clause.valueAsTimestamp
  simp [hpre, List.getElem?_eq_getElem hi]

/-- With preprocessed data they index the preprocessed slice; when that slice has one entry per
clause value (which is what preprocessing produces, `preprocessClause_values_length`) an in-range
index of `c.values` is an in-range index of it (eval_accessors.go:84, 109, 136). -/
theorem Clause.valueAs_guarded_pre (rx : RegexOracle) (c : Clause) (i : Nat) (pv : List PreVal)
    (hpre : c.pre.values = some pv) (hlen : pv.length = c.values.length)
    (hi : i < c.values.length) :
    ∃ h : i < pv.length,
      c.valueAsRegexp rx i = pv[i].regex ∧
      c.valueAsSemVer i = (if pv[i].valid then some pv[i].semver else none) ∧
      c.valueAsTimestamp i = (if pv[i].valid then some pv[i].time else none) := by
  have h : i < pv.length := by omega
  refine ⟨h, ?_⟩
  unfold Clause.valueAsRegexp Clause.valueAsSemVer Clause.valueAsTimestamp
  simp [hpre, List.getElem?_eq_getElem h]

/-- Preprocessing produces exactly one preprocessed entry per clause value. -/
theorem preprocessClause_values_length (rx : RegexOracle) (c : Clause) (pv : List PreVal)
    (h : (preprocessClause rx c).values = some pv) : pv.length = c.values.length := by
  unfold preprocessClause at h
  split at h
  · split at h <;> simp at h
  · split at h
    · simp only [Option.some.injEq] at h; rw [← h, List.length_map]
    · split at h
      · simp only [Option.some.injEq] at h; rw [← h, List.length_map]
      · split at h
        · simp only [Option.some.injEq] at h; rw [← h, List.length_map]
        · simp at h

/-- `matchAny` with an operator other than `in`: every call `doOp rx c v cv i` it makes has
`i < len(c.values)` and `cv = c.values[i]`, so the index the operator passes on to the accessors is in
range.  Stated as a congruence (the answer does not depend on what `doOp` would do at any other
argument pair) together with the witness of a `true` answer. -/
theorem matchAny_index_guarded (rx : RegexOracle) (c : Clause) (v : J) (hop : (c.op == "in") = false) :
    (∀ q : J → Nat → Bool,
      (∀ i (h : i < c.values.length), q c.values[i] i = doOp rx c v c.values[i] i) →
        matchAny rx c v = anyIdx q c.values 0) ∧
    (matchAny rx c v = true →
      ∃ i, ∃ h : i < c.values.length, doOp rx c v c.values[i] i = true) := by
  unfold matchAny
  simp only [hop, Bool.false_eq_true, if_false]
  constructor
  · intro q hq
    apply anyIdx_congr
    intro j hj
    simpa using (hq j hj).symm
  · intro h
    obtain ⟨j, hj, hp⟩ := anyIdx_true h
    exact ⟨j, hj, by simpa using hp⟩

/-! ### 6. the big-segment reference — evaluator_segment.go:16, 32-39 -/

/-- With a defined generation the reference is built from that generation (no default 0). -/
theorem bigSegmentRef_guarded (s : Segment) (g : Int) (h : s.generation = some g) :
    bigSegmentRef s = s.key ++ ".g" ++ toString g := by
  simp [bigSegmentRef, h]

/-- `bigSegmentRef` is only computed behind the `Generation.IsDefined()` test
(evaluator_segment.go:32): a segment without generation never gets as far as a membership check —
one level of `segmentContainsContext` leaves `memChecks` and `bsQueries` untouched and answers
`false` (or the cycle error). -/
theorem segBody_no_generation {rec : SegRec} {env : Env} {s : Segment} {chain : List String}
    {st : St} (hu : s.unbounded = true) (hg : s.generation = none) :
    (segBody rec env s chain st).2.memChecks = st.memChecks ∧
    (segBody rec env s chain st).2.bsQueries = st.bsQueries ∧
    ((segBody rec env s chain st).1 = .ok false ∨
      (segBody rec env s chain st).1 = .err (.circularSegment s.key)) := by
  unfold segBody
  split
  · exact ⟨rfl, rfl, Or.inr rfl⟩
  · simp [hg]

/-! ### 7. the first component of an attribute reference -/

/-- `Ref.component 0` never returns the `""` default of `getD` when the reference has a single name
or at least one path component: it is `single` for a one-component reference and the genuine head of
`comps` otherwise (go-sdk-common `Ref.Component(0)`; `GetValueForRef` calls it only for an error-free
reference, whose depth is at least 1). -/
theorem Ref.component_zero_guarded (r : Ref) :
    (r.comps = [] ∧ r.component 0 = r.single) ∨
    (∃ h : 0 < r.comps.length, r.component 0 = r.comps[0]) := by
  unfold Ref.component
  cases hc : r.comps with
  | nil => exact Or.inl ⟨rfl, by simp⟩
  | cons c cs => exact Or.inr ⟨by simp, by simp⟩

/-! ### 8. the buffer copy — internal.LocalBuffer -/

/-- `append` copies at offset `oldLen` into a destination that `grow` has just extended by exactly the
source length: the offset and the end of the copied range are within the destination, so the
`take`/`drop` of `copyAt` cut at genuine positions (Go: `copy(b.Data[oldLen:], data)` neither slices
out of range nor truncates the copy). -/
theorem LocalBuffer.copyAt_guarded (b : LocalBuffer) (bs : List UInt8) :
    (b.grow bs.length).2 + bs.length = (b.grow bs.length).1.data.length := by
  rw [LocalBuffer.grow_fst_data, LocalBuffer.grow_snd]
  simp

/-! ### The entry point -/

/-- `Result.IsExperiment` is `isExperiment(flag, detail.Reason)` of the FINAL reason (evaluator.go:123),
for the invalid-context result too. -/
theorem evaluate_isExperiment_eq (env : Env) (f : Flag) :
    (evaluate env f).result.isExperiment =
      isExperimentResult f (evaluate env f).result.detail.reason := by
  unfold evaluate
  split
  · simp [Detail.forError, Reason.error, isExperimentResult]
  · generalize evalFlag (segFuel env.store) (flagFuel env.store) env f [] {} = q
    obtain ⟨out, st⟩ := q
    rfl

/-- The value `evaluate` returns next to an index is the genuine element at that index: the
`getD … .null` of `WellFormed` never falls back to `.null`. -/
theorem evaluate_value_guarded (env : Env) (f : Flag) (j : Int)
    (h : (evaluate env f).result.detail.index = some j) :
    0 ≤ j ∧ ∃ hlt : j.toNat < f.variations.length,
      (evaluate env f).result.detail.value = f.variations[j.toNat] := by
  rcases evaluate_wellformed env f with ⟨i, hi, hlt, hv, _, _⟩ | ⟨hn, _⟩ | ⟨hn, _⟩
  · rw [hi] at h
    simp only [Option.some.injEq] at h
    subst h
    refine ⟨Int.natCast_nonneg i, by simpa using hlt, ?_⟩
    rw [hv]
    simp [List.getD_eq_getElem?_getD, List.getElem?_eq_getElem hlt]
  · rw [hn] at h; cases h
  · rw [hn] at h; cases h

/-- For the reason `evaluate` returns, the rule lookup of `isExperiment` is in range. -/
theorem evaluate_ruleLookup_guarded (env : Env) (f : Flag)
    (hk : (evaluate env f).result.detail.reason.kind = .ruleMatch) :
    ∃ h : (evaluate env f).result.detail.reason.ruleIndex.toNat < f.rules.length,
      0 ≤ (evaluate env f).result.detail.reason.ruleIndex ∧
      (evaluate env f).result.detail.reason.ruleId =
        (f.rules[(evaluate env f).result.detail.reason.ruleIndex.toNat]).id ∧
      (evaluate env f).result.isExperiment =
        ((evaluate env f).result.detail.reason.inExperiment ||
          (f.rules[(evaluate env f).result.detail.reason.ruleIndex.toNat]).trackEvents) := by
  obtain ⟨h, h0, hid, he⟩ := isExperimentResult_guarded (evaluate_reason_coherent env f) hk
  exact ⟨h, h0, hid, by rw [evaluate_isExperiment_eq]; exact he⟩

/-- The same for the result of every recorded prerequisite event, relative to the prerequisite flag
the store returned. -/
theorem evaluate_event_ruleLookup_guarded (env : Env) (f : Flag) :
    ∀ e ∈ (evaluate env f).events, ∃ pf ∈ env.store.flags.map (·.2), e.prereqKey = pf.key ∧
      (e.result.detail.reason.kind = .ruleMatch →
        ∃ h : e.result.detail.reason.ruleIndex.toNat < pf.rules.length,
          0 ≤ e.result.detail.reason.ruleIndex ∧
          e.result.isExperiment = (e.result.detail.reason.inExperiment ||
            (pf.rules[e.result.detail.reason.ruleIndex.toNat]).trackEvents)) := by
  intro e he
  obtain ⟨pf, hpf, hkey, hcoh, hexp⟩ := evaluate_events_reason_coherent env f e he
  refine ⟨pf, hpf, hkey, fun hk => ?_⟩
  obtain ⟨h, h0, _, hx⟩ := isExperimentResult_guarded hcoh hk
  exact ⟨h, h0, by rw [hexp]; exact hx⟩

/-- **Summary of C01 #1.**  Everything a Go `panic` (index out of range, slice bounds out of range) or
a silently used zero value could come from, site by site; see the individual lemmas for the Go
lines. -/
structure NoDefaultReached (env : Env) (f : Flag) : Prop where
  /-- site 1, every call of `getVariation` on this flag -/
  variation : ∀ (i : Int) (r : Reason) (st : St),
    ((i < 0 ∨ i ≥ f.variations.length) ∧ getVariation env f i r st =
        (Detail.forError .malformedFlag, logErr env f.key (.badVariation i) st)) ∨
    (∃ h : i.toNat < f.variations.length, 0 ≤ i ∧ getVariation env f i r st =
        ({ value := f.variations[i.toNat], index := some i, reason := r }, st))
  /-- site 1, seen from the result of `evaluate` -/
  resultValue : ∀ j : Int, (evaluate env f).result.detail.index = some j →
    0 ≤ j ∧ ∃ hlt : j.toNat < f.variations.length,
      (evaluate env f).result.detail.value = f.variations[j.toNat]
  /-- site 2: the `none` of `getLast?` is Go's explicit empty-rollout error, nothing else -/
  lastBucketNone : ∀ (vr : VariationOrRollout) (key salt : String),
    variationOrRollout env vr key salt = .error .emptyRollout ↔
      vr.variation = none ∧ vr.rollout.variations = []
  /-- site 2: an index that is returned is the fixed variation or that of a listed bucket -/
  lastBucketSome : ∀ (vr : VariationOrRollout) (key salt : String) (i : Int) (x : Bool),
    variationOrRollout env vr key salt = .ok (i, x) →
      (vr.variation = some i ∧ x = false) ∨
      (vr.variation = none ∧ ∃ wv ∈ vr.rollout.variations, wv.variation = i)
  /-- site 3, the final result -/
  ruleLookup : (evaluate env f).result.detail.reason.kind = .ruleMatch →
    ∃ h : (evaluate env f).result.detail.reason.ruleIndex.toNat < f.rules.length,
      0 ≤ (evaluate env f).result.detail.reason.ruleIndex ∧
      (evaluate env f).result.detail.reason.ruleId =
        (f.rules[(evaluate env f).result.detail.reason.ruleIndex.toNat]).id ∧
      (evaluate env f).result.isExperiment =
        ((evaluate env f).result.detail.reason.inExperiment ||
          (f.rules[(evaluate env f).result.detail.reason.ruleIndex.toNat]).trackEvents)
  /-- site 3, the prerequisite events -/
  eventRuleLookup : ∀ e ∈ (evaluate env f).events, ∃ pf ∈ env.store.flags.map (·.2),
    e.prereqKey = pf.key ∧
      (e.result.detail.reason.kind = .ruleMatch →
        ∃ h : e.result.detail.reason.ruleIndex.toNat < pf.rules.length,
          0 ≤ e.result.detail.reason.ruleIndex ∧
          e.result.isExperiment = (e.result.detail.reason.inExperiment ||
            (pf.rules[e.result.detail.reason.ruleIndex.toNat]).trackEvents))
  /-- site 4 -/
  hashPrefix : ∀ input : List UInt8,
    15 ≤ (Sha1.hexEncode (Sha1.sum input)).length ∧
    ((Sha1.hexEncode (Sha1.sum input)).take 15).length = 15 ∧
    ∃ v : UInt64, parseHexU64 ((Sha1.hexEncode (Sha1.sum input)).take 15) = some v ∧
      bucketOfInput input = SoftF32.div (SoftF32.ofInt v.toNat) longScale
  /-- site 5: the operator loop only passes in-range indices to the value accessors -/
  clauseIndex : ∀ (c : Clause) (v : J), (c.op == "in") = false →
    ∀ q : J → Nat → Bool,
      (∀ i (h : i < c.values.length), q c.values[i] i = doOp env.rx c v c.values[i] i) →
        matchAny env.rx c v = anyIdx q c.values 0
  /-- site 5: at an in-range index the unpreprocessed accessors return the converted element -/
  clauseValue : ∀ (c : Clause) (i : Nat), c.pre.values = none → ∀ hi : i < c.values.length,
    c.valueAsRegexp env.rx i = parseRegexp env.rx c.values[i] ∧
    c.valueAsSemVer i = parseSemVer c.values[i] ∧
    c.valueAsTimestamp i = Time.valueToTimestamp c.values[i]
  /-- site 6 -/
  generation : ∀ (s : Segment) (rec : SegRec) (chain : List String) (st : St),
    s.unbounded = true → s.generation = none →
      (segBody rec env s chain st).2.memChecks = st.memChecks ∧
      (segBody rec env s chain st).2.bsQueries = st.bsQueries
  /-- site 7 -/
  component : ∀ r : Ref, (r.comps = [] ∧ r.component 0 = r.single) ∨
    (∃ h : 0 < r.comps.length, r.component 0 = r.comps[0])
  /-- site 8 -/
  bufferCopy : ∀ (b : LocalBuffer) (bs : List UInt8),
    (b.grow bs.length).2 + bs.length = (b.grow bs.length).1.data.length

theorem noDefaultReached (env : Env) (f : Flag) : NoDefaultReached env f where
  variation := getVariation_guarded env f
  resultValue := evaluate_value_guarded env f
  lastBucketNone := variationOrRollout_emptyRollout_iff env
  lastBucketSome := fun _ _ _ _ _ h => variationOrRollout_ok h
  ruleLookup := evaluate_ruleLookup_guarded env f
  eventRuleLookup := evaluate_event_ruleLookup_guarded env f
  hashPrefix := bucketOfInput_guarded
  clauseIndex := fun c v hop => (matchAny_index_guarded env.rx c v hop).1
  clauseValue := fun c i hpre hi => Clause.valueAs_guarded_values env.rx c i hpre hi
  generation := fun _ _ _ _ hu hg =>
    ⟨(segBody_no_generation hu hg).1, (segBody_no_generation hu hg).2.1⟩
  component := Ref.component_zero_guarded
  bufferCopy := LocalBuffer.copyAt_guarded

end LD

#print axioms LD.noDefaultReached

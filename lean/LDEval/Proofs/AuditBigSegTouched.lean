/-
  Theorem audit, C11 (finding #39): the "if" half of "the reason carries a big-segments status iff
  some unbounded segment was evaluated for a context having its kind (or lacked a generation)", for a
  whole evaluation.

  `Touched env st s`: the state `st` shows that the unbounded segment `s` was dealt with — the status
  is NOT_CONFIGURED, or (only for a segment with a generation) the provider has been asked for the context's key of the segment's kind and
  the status has at least the priority of its answer.  `AllTouched env st`: this holds of every
  relevant segment the store returned for a key in `st.segLookups`.  Every function of
  `Model/Eval.lean` preserves `AllTouched` as long as it does not fail (a segment-cycle error aborts
  the evaluation before the segment that closes the cycle is looked at), so it holds at the end of
  every evaluation whose result is not an error (`evaluate_touched`).
-/
import LDEval.Proofs.StatusLog
import LDEval.Proofs.Total

namespace LD

/-- The state shows that the unbounded segment `s` was dealt with. -/
def Touched (env : Env) (st : St) (s : Segment) : Prop :=
  st.status = some .notConfigured ∨
    (s.generation.isSome = true ∧
      ∃ p key, env.bs = some p ∧ env.ctx.keyByKind s.unboundedContextKind = some key ∧
        key ∈ st.bsQueries ∧ statusPriority (p.get key).status ≤ statusPriority st.status)

/-- An unbounded segment that must leave a trace: no generation, or the context has its kind. -/
def Relevant (env : Env) (s : Segment) : Prop :=
  s.unbounded = true ∧
    (s.generation = none ∨ (env.ctx.keyByKind s.unboundedContextKind).isSome = true)

theorem Touched.mono {env : Env} {a b : St} {s : Segment} (h : Reach env a b)
    (ht : Touched env a s) : Touched env b s := by
  rcases ht with h1 | ⟨hg, p, key, hp, hk, hq, hle⟩
  · exact .inl (reach_notConfigured h h1)
  · exact .inr ⟨hg, p, key, hp, hk, (reach_bsQueries_prefix h).subset hq,
      Nat.le_trans hle (reach_status_priority h)⟩

/-- Every relevant segment returned for a looked-up key is touched, except those satisfying `P`. -/
def AllTouchedExc (env : Env) (st : St) (P : Segment → Prop) : Prop :=
  ∀ k ∈ st.segLookups, ∀ s, env.store.findSegment k = some s → Relevant env s →
    P s ∨ Touched env st s

abbrev AllTouched (env : Env) (st : St) : Prop := AllTouchedExc env st (fun _ => False)

theorem AllTouchedExc.reach_same {env : Env} {a b : St} {P : Segment → Prop} (h : Reach env a b)
    (hs : b.segLookups = a.segLookups) (ha : AllTouchedExc env a P) : AllTouchedExc env b P := by
  intro k hk s hf hr
  rw [hs] at hk
  rcases ha k hk s hf hr with h1 | h1
  · exact .inl h1
  · exact .inr (h1.mono h)

theorem AllTouchedExc.congr {env : Env} {a b : St} {P : Segment → Prop}
    (h1 : b.segLookups = a.segLookups) (h2 : b.status = a.status) (h3 : b.bsQueries = a.bsQueries)
    (ha : AllTouchedExc env a P) : AllTouchedExc env b P := by
  intro k hk s hf hr
  rw [h1] at hk
  rcases ha k hk s hf hr with h | h
  · exact .inl h
  · right
    unfold Touched at h ⊢
    rw [h2, h3]; exact h

theorem AllTouchedExc.of_notConfigured {env : Env} {st : St} {P : Segment → Prop}
    (h : st.status = some .notConfigured) : AllTouchedExc env st P :=
  fun _ _ _ _ _ => .inr (.inl h)

theorem AllTouched.lookup {env : Env} {st : St} {k : String} {seg : Segment}
    (ha : AllTouched env st) (hf : env.store.findSegment k = some seg) :
    AllTouchedExc env { st with segLookups := st.segLookups ++ [k] } (· = seg) := by
  intro k' hk' s hf' hr
  change k' ∈ st.segLookups ++ [k] at hk'
  rcases List.mem_append.1 hk' with hk' | hk'
  · rcases ha k' hk' s hf' hr with h | h
    · exact h.elim
    · exact .inr h
  · rw [List.mem_singleton] at hk'; subst hk'
    left
    rw [hf] at hf'; exact (Option.some.inj hf').symm

theorem AllTouched.lookup_none {env : Env} {st : St} {k : String}
    (ha : AllTouched env st) (hf : env.store.findSegment k = none) :
    AllTouched env { st with segLookups := st.segLookups ++ [k] } := by
  intro k' hk' s hf' hr
  change k' ∈ st.segLookups ++ [k] at hk'
  rcases List.mem_append.1 hk' with hk' | hk'
  · exact ha k' hk' s hf' hr
  · rw [List.mem_singleton] at hk'; subst hk'
    rw [hf] at hf'; cases hf'

theorem AllTouchedExc.resolve {env : Env} {st : St} {seg : Segment}
    (ha : AllTouchedExc env st (· = seg)) (h : Relevant env seg → Touched env st seg) :
    AllTouched env st := by
  intro k hk s hf hr
  rcases ha k hk s hf hr with h1 | h1
  · subst h1; exact .inr (h hr)
  · exact .inr h1

/-- A function result that, unless it failed, leaves every relevant looked-up segment touched. -/
def OkT (env : Env) (r : Res Bool × St) : Prop := ∀ b, r.1 = .ok b → AllTouched env r.2

/-- What the parametric lemmas assume about the open recursion. -/
abbrev SegRecT (env : Env) (rec : SegRec) : Prop :=
  ∀ seg chain st, Reach env {} st → AllTouchedExc env st (· = seg) → OkT env (rec seg chain st)

theorem segMatchValues_touched {rec : SegRec} {env : Env} (hr : SegRecReach env rec)
    (ht : SegRecT env rec) (negate : Bool) (chain : List String) :
    ∀ vs st, Reach env {} st → AllTouched env st →
      OkT env (segMatchValues rec env negate chain vs st) := by
  intro vs
  induction vs with
  | nil => intro st _ ha b _; exact ha
  | cons v vs ih =>
    intro st h0 ha
    cases v with
    | str k =>
      unfold segMatchValues
      simp only
      have h1 : Reach env {} { st with segLookups := st.segLookups ++ [k] } :=
        .step h0 (.segLookup st k)
      split
      · rename_i hfind
        exact ih _ h1 (ha.lookup_none hfind)
      · rename_i seg hfind
        have h2 := ht seg chain _ h1 (ha.lookup hfind)
        have hr2 := hr seg chain { st with segLookups := st.segLookups ++ [k] }
        split
        · rename_i st2 heq
          rw [heq] at h2
          intro b _
          exact h2 true rfl
        · rename_i st2 heq
          rw [heq] at h2 hr2
          exact ih _ (h1.trans hr2) (h2 false rfl)
        · intro b hb; cases hb
        · intro b hb; cases hb
    | null => unfold segMatchValues; exact ih st h0 ha
    | bool b => unfold segMatchValues; exact ih st h0 ha
    | num q => unfold segMatchValues; exact ih st h0 ha
    | arr xs => unfold segMatchValues; exact ih st h0 ha
    | obj kvs => unfold segMatchValues; exact ih st h0 ha
    | raw w => unfold segMatchValues; exact ih st h0 ha

theorem clauseMatch_touched {rec : SegRec} {env : Env} (hr : SegRecReach env rec)
    (ht : SegRecT env rec) (chain : List String) (c : Clause) (st : St) (h0 : Reach env {} st)
    (ha : AllTouched env st) : OkT env (clauseMatch rec env chain c st) := by
  unfold clauseMatch
  split
  · exact segMatchValues_touched hr ht _ _ _ _ h0 ha
  · intro b _; exact ha

theorem clausesMatch_touched {rec : SegRec} {env : Env} (hr : SegRecReach env rec)
    (ht : SegRecT env rec) (chain : List String) :
    ∀ cs st, Reach env {} st → AllTouched env st → OkT env (clausesMatch rec env chain cs st) := by
  intro cs
  induction cs with
  | nil => intro st _ ha b _; exact ha
  | cons c cs ih =>
    intro st h0 ha
    unfold clausesMatch
    have h1 := clauseMatch_touched hr ht chain c st h0 ha
    have hr1 := clauseMatch_reach hr chain c st
    split
    · rename_i st1 heq
      rw [heq] at h1 hr1
      exact ih _ (h0.trans hr1) (h1 true rfl)
    · exact h1

theorem segRuleMatch_touched {rec : SegRec} {env : Env} (hr : SegRecReach env rec)
    (ht : SegRecT env rec) (chain : List String) (key salt : String) (r : SegmentRule) (st : St)
    (h0 : Reach env {} st) (ha : AllTouched env st) :
    OkT env (segRuleMatch rec env chain key salt r st) := by
  unfold segRuleMatch
  have h1 := clausesMatch_touched hr ht chain r.clauses st h0 ha
  split
  · rename_i st1 heq
    rw [heq] at h1
    have h1' := h1 true rfl
    split
    · intro b _; exact h1'
    · split
      · intro b hb; cases hb
      · split <;> (intro b _; exact h1')
  · rename_i st1 heq
    rw [heq] at h1
    intro b _; exact h1 false rfl
  · exact h1

theorem segRules_touched {rec : SegRec} {env : Env} (hr : SegRecReach env rec)
    (ht : SegRecT env rec) (chain : List String) (s : Segment) :
    ∀ rules st, Reach env {} st → AllTouched env st →
      OkT env (segRules rec env chain s rules st) := by
  intro rules
  induction rules with
  | nil => intro st _ ha b _; exact ha
  | cons r rs ih =>
    intro st h0 ha
    unfold segRules
    have h1 := segRuleMatch_touched hr ht chain s.key s.salt r st h0 ha
    have hr1 := segRuleMatch_reach hr chain s.key s.salt r st
    split
    · rename_i st1 heq
      rw [heq] at h1
      intro b _; exact h1 true rfl
    · rename_i st1 heq
      rw [heq] at h1 hr1
      exact ih _ (h0.trans hr1) (h1 false rfl)
    · intro b hb; cases hb
    · intro b hb; cases hb

theorem bigSegMembership_segLookups (env : Env) (key : String) (st : St) :
    (bigSegMembership env key st).2.segLookups = st.segLookups := by
  unfold bigSegMembership
  split
  · rfl
  · split <;> rfl

/-- After the membership lookup for the context's key of the segment's kind the segment is
touched: NOT_CONFIGURED without a provider, otherwise the key has been queried (now or earlier in
this evaluation) and the status has at least the priority of the answer. -/
theorem bigSegMembership_touched (env : Env) (s : Segment) (key : String) (st : St)
    (h0 : Reach env {} st) (hg : s.generation.isSome = true)
    (hk : env.ctx.keyByKind s.unboundedContextKind = some key) :
    Touched env (bigSegMembership env key st).2 s := by
  cases hl : st.cache.lookup key with
  | none =>
    cases hbs : env.bs with
    | none =>
      left
      simp only [bigSegMembership, hl, hbs]
    | some p =>
      right
      refine ⟨hg, p, key, hbs, hk, ?_, ?_⟩
      · simp only [bigSegMembership, hl, hbs]
        exact List.mem_append_right _ (List.mem_singleton.2 rfl)
      · simp only [bigSegMembership, hl, hbs]
        exact statusPriority_updateStatus_right _ _
  | some m =>
    right
    obtain ⟨p, hp, _⟩ := (h0.pconsistent (PConsistent.empty env)) key m hl
    have hq : key ∈ st.bsQueries := by
      rw [(h0.qinv QInv.empty).1]
      obtain ⟨l₁, l₂, hsplit, _⟩ := List.lookup_eq_some_iff.1 hl
      rw [hsplit]; simp
    obtain ⟨q, hq1, hq2⟩ := reach_status_ge_queried h0 key hq
    have hqp : q = p := by rw [hq1] at hp; exact Option.some.inj hp
    subst hqp
    simp only [bigSegMembership, hl]
    exact ⟨hg, q, key, hq1, hk, hq, hq2⟩

theorem segBody_touched {rec : SegRec} {env : Env} (hr : SegRecReach env rec)
    (ht : SegRecT env rec) (s : Segment) (chain : List String) (st : St) (h0 : Reach env {} st)
    (ha : AllTouchedExc env st (· = s)) : OkT env (segBody rec env s chain st) := by
  unfold segBody
  split
  · intro b hb; cases hb
  · simp only
    split
    · rename_i hu
      split
      · intro b _
        exact AllTouchedExc.of_notConfigured rfl
      · rename_i g hg
        split
        · rename_i hk
          intro b _
          refine ha.resolve ?_
          intro hrel
          rcases hrel.2 with h | h
          · rw [hg] at h; cases h
          · rw [hk] at h; cases h
        · rename_i key hk
          have hm := bigSegMembership_touched env s key st h0 (by rw [hg]; rfl) hk
          have hr1 := bigSegMembership_reach env key st
          have hs1 := bigSegMembership_segLookups env key st
          generalize bigSegMembership env key st = r at hm hr1 hs1
          obtain ⟨m, st1⟩ := r
          simp only at hm hr1 hs1 ⊢
          have ha1 : AllTouched env st1 := (ha.reach_same hr1 hs1).resolve (fun _ => hm)
          split
          · exact segRules_touched hr ht _ _ _ _ (h0.trans hr1) ha1
          · have hr2 : Reach env st1
                { st1 with memChecks := st1.memChecks ++ [(key, bigSegmentRef s)] } :=
              .single (.memCheck st1 key (bigSegmentRef s))
            have ha2 : AllTouched env
                { st1 with memChecks := st1.memChecks ++ [(key, bigSegmentRef s)] } :=
              ha1.congr rfl rfl rfl
            split
            · intro b _; exact ha2
            · exact segRules_touched hr ht _ _ _ _ ((h0.trans hr1).trans hr2) ha2
    · rename_i hu
      have ha0 : AllTouched env st := ha.resolve (fun hrel => absurd hrel.1 hu)
      split
      · intro b _; exact ha0
      · exact segRules_touched hr ht _ _ _ _ h0 ha0

theorem segContains_touched (n : Nat) (env : Env) : SegRecT env (segContains n env) := by
  induction n with
  | zero => intro s chain st _ _ b hb; cases hb
  | succ n ih =>
    intro s chain st h0 ha
    show OkT env (segBody (segContains n env) env s chain st)
    exact segBody_touched (segContains_reach n env) ih s chain st h0 ha

/-! ### evaluator.go -/

theorem logErr_touched {env : Env} (flagKey : String) (e : EvalErr) {st : St}
    (ha : AllTouched env st) : AllTouched env (logErr env flagKey e st) := by
  unfold logErr
  split
  · exact ha.congr rfl rfl rfl
  · exact ha

theorem getVariation_touched {env : Env} (f : Flag) (i : Int) (r : Reason) {st : St}
    (ha : AllTouched env st) : AllTouched env (getVariation env f i r st).2 := by
  unfold getVariation
  split
  · exact logErr_touched _ _ ha
  · exact ha

theorem getOffValue_touched {env : Env} (f : Flag) (r : Reason) {st : St}
    (ha : AllTouched env st) : AllTouched env (getOffValue env f r st).2 := by
  unfold getOffValue
  split
  · exact ha
  · exact getVariation_touched _ _ _ ha

theorem getValueForVR_touched {env : Env} (f : Flag) (vr : VariationOrRollout) (r : Reason)
    {st : St} (ha : AllTouched env st) : AllTouched env (getValueForVR env f vr r st).2 := by
  unfold getValueForVR
  split
  · exact logErr_touched _ _ ha
  · exact getVariation_touched _ _ _ ha

/-- What the parametric lemmas assume about the open prerequisite recursion: an evaluation that is
not aborted leaves every relevant looked-up segment touched. -/
abbrev FlagRecT (env : Env) (rec : FlagRec) : Prop :=
  ∀ f chain st d st', Reach env {} st → AllTouched env st →
    rec f chain st = (.done d true, st') → AllTouched env st'

def PrereqOut.fine : PrereqOut → Prop
  | .ok => True
  | .failed _ => True
  | _ => False

theorem prereqLoop_touched {rec : FlagRec} {env : Env} (hr : FlagRecReach env rec)
    (ht : FlagRecT env rec) (f : Flag) (chain : List String) :
    ∀ ps st, Reach env {} st → AllTouched env st →
      (prereqLoop rec env f chain ps st).1.fine → AllTouched env (prereqLoop rec env f chain ps st).2 := by
  intro ps
  induction ps with
  | nil => intro st _ ha _; exact ha
  | cons p ps ih =>
    intro st h0 ha
    unfold prereqLoop
    simp only
    have h1 : Reach env {} { st with flagLookups := st.flagLookups ++ [p.key] } :=
      .step h0 (.flagLookup st p.key)
    have ha1 : AllTouched env { st with flagLookups := st.flagLookups ++ [p.key] } :=
      ha.congr rfl rfl rfl
    split
    · intro _; exact ha1
    · rename_i pf _
      split
      · intro hf; exact hf.elim
      · have h2 := hr pf chain { st with flagLookups := st.flagLookups ++ [p.key] }
        have ht2 := ht pf chain { st with flagLookups := st.flagLookups ++ [p.key] }
        split
        · intro hf; exact hf.elim
        · rename_i d ok st2 heq
          rw [heq] at h2
          have hprio : statusPriority st.status ≤ statusPriority st2.status :=
            reach_status_priority ((Reach.single (.flagLookup st p.key)).trans h2)
          have h02 : Reach env {} st2 := h1.trans h2
          cases ok with
          | false => intro hf; exact hf.elim
          | true =>
            have ha2 : AllTouched env st2 := ht2 d st2 h1 ha1 heq
            simp only [Bool.not_true, Bool.false_eq_true, if_false]
            have ha3 : AllTouched env { st2 with status := updateStatus st.status st2.status } :=
              AllTouchedExc.congr (a := st2) rfl (updateStatus_of_priority_le hprio) rfl ha2
            have h03 : Reach env {} { st2 with status := updateStatus st.status st2.status } :=
              .step h02 (.mergeStatus st2 st.status)
            split
            · intro _
              split
              · exact ha3.congr rfl rfl rfl
              · exact ha3
            · split
              · rename_i hrec
                exact ih _ (.step h03 (.event _ _ hrec)) (ha3.congr rfl rfl rfl)
              · exact ih _ h03 ha3

theorem checkPrereqs_touched {rec : FlagRec} {env : Env} (hr : FlagRecReach env rec)
    (ht : FlagRecT env rec) (f : Flag) (chain : List String) (st : St) (h0 : Reach env {} st)
    (ha : AllTouched env st) (hf : (checkPrereqs rec env f chain st).1.fine) :
    AllTouched env (checkPrereqs rec env f chain st).2 := by
  unfold checkPrereqs at hf ⊢
  split
  · exact ha
  · rename_i hne
    rw [if_neg hne] at hf
    exact prereqLoop_touched hr ht _ _ _ _ h0 ha hf

theorem rulesLoop_touched {seg : SegRec} {env : Env} (hr : SegRecReach env seg)
    (ht : SegRecT env seg) (f : Flag) :
    ∀ rules i st d st', Reach env {} st → AllTouched env st →
      rulesLoop seg env f rules i st = (.done d true, st') → AllTouched env st' := by
  intro rules
  induction rules with
  | nil =>
    intro i st d st' _ ha h
    unfold rulesLoop at h
    simp only [Prod.mk.injEq, FlagOut.done.injEq] at h
    rw [← h.2]
    exact getValueForVR_touched _ _ _ ha
  | cons r rs ih =>
    intro i st d st' h0 ha h
    unfold rulesLoop at h
    have h1 := clausesMatch_touched hr ht [] r.clauses st h0 ha
    have hr1 := clausesMatch_reach hr [] r.clauses st
    split at h
    · simp only [Prod.mk.injEq, FlagOut.done.injEq] at h
      exact absurd h.1.2 (by decide)
    · cases h
    · rename_i st1 heq
      rw [heq] at h1
      simp only [Prod.mk.injEq, FlagOut.done.injEq] at h
      rw [← h.2]
      exact getValueForVR_touched _ _ _ (h1 true rfl)
    · rename_i st1 heq
      rw [heq] at h1 hr1
      exact ih _ _ _ _ (h0.trans hr1) (h1 false rfl) h

theorem evalBody_touched {rec : FlagRec} {seg : SegRec} {env : Env} (hr : FlagRecReach env rec)
    (ht : FlagRecT env rec) (hsr : SegRecReach env seg) (hst : SegRecT env seg) (f : Flag)
    (chain : List String) (st : St) (d : Detail) (st' : St) (h0 : Reach env {} st)
    (ha : AllTouched env st) (h : evalBody rec seg env f chain st = (.done d true, st')) :
    AllTouched env st' := by
  unfold evalBody at h
  split at h
  · simp only [Prod.mk.injEq, FlagOut.done.injEq] at h
    rw [← h.2]
    exact getOffValue_touched _ _ ha
  · have h1 := checkPrereqs_touched hr ht f chain st h0 ha
    have hr1 := checkPrereqs_reach hr f chain st
    split at h
    · cases h
    · simp only [Prod.mk.injEq, FlagOut.done.injEq] at h
      exact absurd h.1.2 (by decide)
    · rename_i k st1 heq
      rw [heq] at h1
      simp only [Prod.mk.injEq, FlagOut.done.injEq] at h
      rw [← h.2]
      exact getOffValue_touched _ _ (h1 trivial)
    · rename_i st1 heq
      rw [heq] at h1 hr1
      split at h
      · simp only [Prod.mk.injEq, FlagOut.done.injEq] at h
        rw [← h.2]
        exact getVariation_touched _ _ _ (h1 trivial)
      · exact rulesLoop_touched hsr hst f _ _ _ _ _ (h0.trans hr1) (h1 trivial) h

theorem evalFlag_touched (sf n : Nat) (env : Env) : FlagRecT env (evalFlag sf n env) := by
  induction n with
  | zero => intro f chain st d st' _ _ h; simp [evalFlag] at h
  | succ n ih =>
    intro f chain st d st' h0 ha h
    exact evalBody_touched (evalFlag_reach sf n env) ih (segContains_reach sf env)
      (segContains_touched sf env) f chain st d st' h0 ha h

/-- Bridge to `evaluate`: unless the result is an error, every unbounded segment the store returned
for a looked-up key, with no generation or for a context having its kind, left its trace:
NOT_CONFIGURED is reported, or (the segment has a generation and) the provider was asked for the context's key of that kind and the
reported status has at least the priority of its answer. -/
theorem evaluate_touched (env : Env) (f : Flag) :
    (evaluate env f).result.detail.reason.kind = .error ∨
    ∀ k ∈ (evaluate env f).segLookups, ∀ s, env.store.findSegment k = some s → Relevant env s →
      (evaluate env f).result.detail.reason.bigSegmentsStatus = some .notConfigured ∨
      (s.generation.isSome = true ∧
        ∃ p key, env.bs = some p ∧ env.ctx.keyByKind s.unboundedContextKind = some key ∧
          key ∈ (evaluate env f).bsQueries ∧
          statusPriority (p.get key).status ≤
            statusPriority (evaluate env f).result.detail.reason.bigSegmentsStatus) := by
  by_cases hc : env.ctx = .invalid
  · left
    unfold evaluate
    rw [hc]
    rfl
  · rw [evaluate_eq_finish env f hc]
    have ht := evalFlag_touched (segFuel env.store) (flagFuel env.store) env f [] {}
    have hs : ∀ d ok st', evalFlag (segFuel env.store) (flagFuel env.store) env f [] {} =
        (.done d ok, st') → d.reason.bigSegmentsStatus = none := fun _ _ _ h => evalFlag_status h
    have hab : ∀ d st', evalFlag (segFuel env.store) (flagFuel env.store) env f [] {} =
        (.done d false, st') → d.reason = Reason.error .malformedFlag :=
      fun _ _ h => (abort_is_malformed h).1
    generalize evalFlag (segFuel env.store) (flagFuel env.store) env f [] {} = r at ht hs hab
    obtain ⟨out, st⟩ := r
    cases out with
    | oof =>
      left
      simp only [finish]
      cases st.status <;> rfl
    | done d ok =>
      cases ok with
      | false =>
        left
        have := hab d st rfl
        simp only [finish]
        cases st.status <;> simp [this, Reason.error]
      | true =>
        right
        have ha : AllTouched env st := ht d st (.refl _) (fun _ hk => by cases hk) rfl
        have hst : (finish f (.done d true) st).result.detail.reason.bigSegmentsStatus = st.status := by
          simp only [finish]
          cases hs' : st.status with
          | none => exact hs d true st rfl
          | some x => rfl
        intro k hk s hf hrel
        rw [hst]
        rcases ha k hk s hf hrel with h | h
        · exact h.elim
        · exact h

/-! ### Stores that file every item under its own key: errors do not matter

For a `StoreConsistent` store the segment that closes a cycle is the very segment that is already
being evaluated further up the chain — and an unbounded segment gets onto the chain only after its
big-segment logic has run.  So `AllTouched` holds after EVERY call that does not run out of fuel. -/

def Res.notOof {α : Type} : Res α → Prop
  | .oof => False
  | _ => True

/-- Every relevant segment filed under a key on the chain has been touched. -/
def ChainInv (env : Env) (st : St) (chain : List String) : Prop :=
  ∀ k ∈ chain, ∀ s, env.store.findSegment k = some s → Relevant env s → Touched env st s

theorem ChainInv.mono {env : Env} {a b : St} {chain : List String} (h : Reach env a b)
    (hc : ChainInv env a chain) : ChainInv env b chain :=
  fun k hk s hf hr => (hc k hk s hf hr).mono h

theorem ChainInv.nil (env : Env) (st : St) : ChainInv env st [] := by
  intro k hk; cases hk

theorem ChainInv.snoc {env : Env} {st : St} {chain : List String} {s : Segment}
    (hc : ChainInv env st chain) (hself : env.store.findSegment s.key = some s)
    (ht : Relevant env s → Touched env st s) : ChainInv env st (chain ++ [s.key]) := by
  intro k hk s' hf hr
  rcases List.mem_append.1 hk with hk | hk
  · exact hc k hk s' hf hr
  · rw [List.mem_singleton] at hk; subst hk
    rw [hself] at hf; cases hf
    exact ht hr

/-- A result that, unless it ran out of fuel, leaves every relevant looked-up segment touched. -/
def NoT (env : Env) (r : Res Bool × St) : Prop := r.1.notOof → AllTouched env r.2

/-- What the parametric lemmas assume about the open recursion (consistent store). -/
abbrev SegRecC (env : Env) (rec : SegRec) : Prop :=
  ∀ seg chain st, Reach env {} st → env.store.findSegment seg.key = some seg →
    AllTouchedExc env st (· = seg) → ChainInv env st chain → NoT env (rec seg chain st)

theorem findSegment_own_key {s : Store} (hs : StoreConsistent s) {k : String} {seg : Segment}
    (hf : s.findSegment k = some seg) : s.findSegment seg.key = some seg := by
  have : k = seg.key := hs.2 _ (Store.mem_of_findSegment hf)
  rw [← this]; exact hf

theorem segMatchValues_c {rec : SegRec} {env : Env} (hcons : StoreConsistent env.store)
    (hr : SegRecReach env rec) (ht : SegRecC env rec) (negate : Bool) (chain : List String) :
    ∀ vs st, Reach env {} st → AllTouched env st → ChainInv env st chain →
      NoT env (segMatchValues rec env negate chain vs st) := by
  intro vs
  induction vs with
  | nil => intro st _ ha _ _; exact ha
  | cons v vs ih =>
    intro st h0 ha hch
    cases v with
    | str k =>
      unfold segMatchValues
      simp only
      have h01 : Reach env st { st with segLookups := st.segLookups ++ [k] } :=
        .single (.segLookup st k)
      have h1 : Reach env {} { st with segLookups := st.segLookups ++ [k] } := h0.trans h01
      have hch1 := hch.mono h01
      split
      · rename_i hfind
        exact ih _ h1 (ha.lookup_none hfind) hch1
      · rename_i seg hfind
        have h2 := ht seg chain _ h1 (findSegment_own_key hcons hfind) (ha.lookup hfind) hch1
        have hr2 := hr seg chain { st with segLookups := st.segLookups ++ [k] }
        split
        · rename_i st2 heq
          rw [heq] at h2
          intro _
          exact h2 trivial
        · rename_i st2 heq
          rw [heq] at h2 hr2
          exact ih _ (h1.trans hr2) (h2 trivial) (hch1.mono hr2)
        · rename_i e st2 heq
          rw [heq] at h2
          intro _
          exact h2 trivial
        · intro hb; exact hb.elim
    | null => unfold segMatchValues; exact ih st h0 ha hch
    | bool b => unfold segMatchValues; exact ih st h0 ha hch
    | num q => unfold segMatchValues; exact ih st h0 ha hch
    | arr xs => unfold segMatchValues; exact ih st h0 ha hch
    | obj kvs => unfold segMatchValues; exact ih st h0 ha hch
    | raw w => unfold segMatchValues; exact ih st h0 ha hch

theorem clauseMatch_c {rec : SegRec} {env : Env} (hcons : StoreConsistent env.store)
    (hr : SegRecReach env rec) (ht : SegRecC env rec) (chain : List String) (c : Clause) (st : St)
    (h0 : Reach env {} st) (ha : AllTouched env st) (hch : ChainInv env st chain) :
    NoT env (clauseMatch rec env chain c st) := by
  unfold clauseMatch
  split
  · exact segMatchValues_c hcons hr ht _ _ _ _ h0 ha hch
  · intro _; exact ha

theorem clausesMatch_c {rec : SegRec} {env : Env} (hcons : StoreConsistent env.store)
    (hr : SegRecReach env rec) (ht : SegRecC env rec) (chain : List String) :
    ∀ cs st, Reach env {} st → AllTouched env st → ChainInv env st chain →
      NoT env (clausesMatch rec env chain cs st) := by
  intro cs
  induction cs with
  | nil => intro st _ ha _ _; exact ha
  | cons c cs ih =>
    intro st h0 ha hch
    unfold clausesMatch
    have h1 := clauseMatch_c hcons hr ht chain c st h0 ha hch
    have hr1 := clauseMatch_reach hr chain c st
    split
    · rename_i st1 heq
      rw [heq] at h1 hr1
      exact ih _ (h0.trans hr1) (h1 trivial) (hch.mono hr1)
    · exact h1

theorem segRuleMatch_c {rec : SegRec} {env : Env} (hcons : StoreConsistent env.store)
    (hr : SegRecReach env rec) (ht : SegRecC env rec) (chain : List String) (key salt : String)
    (r : SegmentRule) (st : St) (h0 : Reach env {} st) (ha : AllTouched env st)
    (hch : ChainInv env st chain) : NoT env (segRuleMatch rec env chain key salt r st) := by
  unfold segRuleMatch
  have h1 := clausesMatch_c hcons hr ht chain r.clauses st h0 ha hch
  split
  · rename_i st1 heq
    rw [heq] at h1
    have h1' := h1 trivial
    split
    · intro _; exact h1'
    · split
      · intro _; exact h1'
      · split <;> (intro _; exact h1')
  · rename_i st1 heq
    rw [heq] at h1
    intro _; exact h1 trivial
  · exact h1

theorem segRules_c {rec : SegRec} {env : Env} (hcons : StoreConsistent env.store)
    (hr : SegRecReach env rec) (ht : SegRecC env rec) (chain : List String) (s : Segment) :
    ∀ rules st, Reach env {} st → AllTouched env st → ChainInv env st chain →
      NoT env (segRules rec env chain s rules st) := by
  intro rules
  induction rules with
  | nil => intro st _ ha _ _; exact ha
  | cons r rs ih =>
    intro st h0 ha hch
    unfold segRules
    have h1 := segRuleMatch_c hcons hr ht chain s.key s.salt r st h0 ha hch
    have hr1 := segRuleMatch_reach hr chain s.key s.salt r st
    split
    · rename_i st1 heq
      rw [heq] at h1
      intro _; exact h1 trivial
    · rename_i st1 heq
      rw [heq] at h1 hr1
      exact ih _ (h0.trans hr1) (h1 trivial) (hch.mono hr1)
    · rename_i e st1 heq
      rw [heq] at h1
      intro _; exact h1 trivial
    · intro hb; exact hb.elim

theorem segBody_c {rec : SegRec} {env : Env} (hcons : StoreConsistent env.store)
    (hr : SegRecReach env rec) (ht : SegRecC env rec) (s : Segment) (chain : List String) (st : St)
    (h0 : Reach env {} st) (hself : env.store.findSegment s.key = some s)
    (ha : AllTouchedExc env st (· = s)) (hch : ChainInv env st chain) :
    NoT env (segBody rec env s chain st) := by
  unfold segBody
  split
  · rename_i hcyc
    intro _
    have hmem : s.key ∈ chain := List.contains_iff_mem.1 hcyc
    exact ha.resolve (fun hrel => hch s.key hmem s hself hrel)
  · simp only
    split
    · rename_i hu
      split
      · intro _
        exact AllTouchedExc.of_notConfigured rfl
      · rename_i g hg
        split
        · rename_i hk
          intro _
          refine ha.resolve ?_
          intro hrel
          rcases hrel.2 with h | h
          · rw [hg] at h; cases h
          · rw [hk] at h; cases h
        · rename_i key hk
          have hm := bigSegMembership_touched env s key st h0 (by rw [hg]; rfl) hk
          have hr1 := bigSegMembership_reach env key st
          have hs1 := bigSegMembership_segLookups env key st
          generalize bigSegMembership env key st = r at hm hr1 hs1
          obtain ⟨m, st1⟩ := r
          simp only at hm hr1 hs1 ⊢
          have ha1 : AllTouched env st1 := (ha.reach_same hr1 hs1).resolve (fun _ => hm)
          have hch1 : ChainInv env st1 (chain ++ [s.key]) :=
            (hch.mono hr1).snoc hself (fun _ => hm)
          split
          · exact segRules_c hcons hr ht _ _ _ _ (h0.trans hr1) ha1 hch1
          · have hr2 : Reach env st1
                { st1 with memChecks := st1.memChecks ++ [(key, bigSegmentRef s)] } :=
              .single (.memCheck st1 key (bigSegmentRef s))
            have ha2 : AllTouched env
                { st1 with memChecks := st1.memChecks ++ [(key, bigSegmentRef s)] } :=
              ha1.congr rfl rfl rfl
            split
            · intro _; exact ha2
            · exact segRules_c hcons hr ht _ _ _ _ ((h0.trans hr1).trans hr2) ha2 (hch1.mono hr2)
    · rename_i hu
      have ha0 : AllTouched env st := ha.resolve (fun hrel => absurd hrel.1 hu)
      have hch0 : ChainInv env st (chain ++ [s.key]) :=
        hch.snoc hself (fun hrel => absurd hrel.1 hu)
      split
      · intro _; exact ha0
      · exact segRules_c hcons hr ht _ _ _ _ h0 ha0 hch0

theorem segContains_c {env : Env} (hcons : StoreConsistent env.store) (n : Nat) :
    SegRecC env (segContains n env) := by
  induction n with
  | zero => intro s chain st _ _ _ _ hb; exact hb.elim
  | succ n ih =>
    intro s chain st h0 hself ha hch
    show NoT env (segBody (segContains n env) env s chain st)
    exact segBody_c hcons (segContains_reach n env) ih s chain st h0 hself ha hch

/-- What the parametric lemmas assume about the open prerequisite recursion (consistent store). -/
abbrev FlagRecC (env : Env) (rec : FlagRec) : Prop :=
  ∀ f chain st, Reach env {} st → AllTouched env st →
    (rec f chain st).1 ≠ .oof → AllTouched env (rec f chain st).2

def PrereqOut.notOof : PrereqOut → Prop
  | .oof => False
  | _ => True

theorem prereqLoop_c {rec : FlagRec} {env : Env} (hr : FlagRecReach env rec)
    (ht : FlagRecC env rec) (f : Flag) (chain : List String) :
    ∀ ps st, Reach env {} st → AllTouched env st →
      (prereqLoop rec env f chain ps st).1.notOof →
      AllTouched env (prereqLoop rec env f chain ps st).2 := by
  intro ps
  induction ps with
  | nil => intro st _ ha _; exact ha
  | cons p ps ih =>
    intro st h0 ha
    unfold prereqLoop
    simp only
    have h1 : Reach env {} { st with flagLookups := st.flagLookups ++ [p.key] } :=
      .step h0 (.flagLookup st p.key)
    have ha1 : AllTouched env { st with flagLookups := st.flagLookups ++ [p.key] } :=
      ha.congr rfl rfl rfl
    split
    · intro _; exact ha1
    · rename_i pf _
      split
      · intro _; exact logErr_touched _ _ ha1
      · have h2 := hr pf chain { st with flagLookups := st.flagLookups ++ [p.key] }
        have ht2 := ht pf chain { st with flagLookups := st.flagLookups ++ [p.key] } h1 ha1
        split
        · intro hf; exact hf.elim
        · rename_i d ok st2 heq
          rw [heq] at h2 ht2
          have hprio : statusPriority st.status ≤ statusPriority st2.status :=
            reach_status_priority ((Reach.single (.flagLookup st p.key)).trans h2)
          have h02 : Reach env {} st2 := h1.trans h2
          have ha2 : AllTouched env st2 := ht2 (by simp)
          have ha3 : AllTouched env { st2 with status := updateStatus st.status st2.status } :=
            AllTouchedExc.congr (a := st2) rfl (updateStatus_of_priority_le hprio) rfl ha2
          have h03 : Reach env {} { st2 with status := updateStatus st.status st2.status } :=
            .step h02 (.mergeStatus st2 st.status)
          split
          · intro _; exact ha3
          · split
            · intro _
              split
              · exact ha3.congr rfl rfl rfl
              · exact ha3
            · split
              · rename_i hrec
                exact ih _ (.step h03 (.event _ _ hrec)) (ha3.congr rfl rfl rfl)
              · exact ih _ h03 ha3

theorem checkPrereqs_c {rec : FlagRec} {env : Env} (hr : FlagRecReach env rec)
    (ht : FlagRecC env rec) (f : Flag) (chain : List String) (st : St) (h0 : Reach env {} st)
    (ha : AllTouched env st) (hf : (checkPrereqs rec env f chain st).1.notOof) :
    AllTouched env (checkPrereqs rec env f chain st).2 := by
  unfold checkPrereqs at hf ⊢
  split
  · exact ha
  · rename_i hne
    rw [if_neg hne] at hf
    exact prereqLoop_c hr ht _ _ _ _ h0 ha hf

theorem rulesLoop_c {seg : SegRec} {env : Env} (hcons : StoreConsistent env.store)
    (hr : SegRecReach env seg) (ht : SegRecC env seg) (f : Flag) :
    ∀ rules i st, Reach env {} st → AllTouched env st →
      (rulesLoop seg env f rules i st).1 ≠ .oof → AllTouched env (rulesLoop seg env f rules i st).2 := by
  intro rules
  induction rules with
  | nil =>
    intro i st _ ha _
    unfold rulesLoop
    exact getValueForVR_touched _ _ _ ha
  | cons r rs ih =>
    intro i st h0 ha
    unfold rulesLoop
    have h1 := clausesMatch_c hcons hr ht [] r.clauses st h0 ha (ChainInv.nil env st)
    have hr1 := clausesMatch_reach hr [] r.clauses st
    split
    · rename_i e st1 heq
      rw [heq] at h1
      intro _
      exact logErr_touched _ _ (h1 trivial)
    · intro hb; exact absurd rfl hb
    · rename_i st1 heq
      rw [heq] at h1
      intro _
      exact getValueForVR_touched _ _ _ (h1 trivial)
    · rename_i st1 heq
      rw [heq] at h1 hr1
      exact ih _ _ (h0.trans hr1) (h1 trivial)

theorem evalBody_c {rec : FlagRec} {seg : SegRec} {env : Env} (hcons : StoreConsistent env.store)
    (hr : FlagRecReach env rec) (ht : FlagRecC env rec) (hsr : SegRecReach env seg)
    (hst : SegRecC env seg) (f : Flag) (chain : List String) (st : St) (h0 : Reach env {} st)
    (ha : AllTouched env st) (h : (evalBody rec seg env f chain st).1 ≠ .oof) :
    AllTouched env (evalBody rec seg env f chain st).2 := by
  unfold evalBody at h ⊢
  split
  · exact getOffValue_touched _ _ ha
  · rename_i hon
    rw [if_neg hon] at h
    have h1 := checkPrereqs_c hr ht f chain st h0 ha
    have hr1 := checkPrereqs_reach hr f chain st
    split
    · rename_i st1 heq
      rw [heq] at h
      exact absurd rfl h
    · rename_i st1 heq
      rw [heq] at h1
      exact h1 trivial
    · rename_i k st1 heq
      rw [heq] at h1
      exact getOffValue_touched _ _ (h1 trivial)
    · rename_i st1 heq
      rw [heq] at h1 hr1 h
      simp only at h
      split
      · exact getVariation_touched _ _ _ (h1 trivial)
      · rename_i hnone
        rw [hnone] at h
        exact rulesLoop_c hcons hsr hst f _ _ _ (h0.trans hr1) (h1 trivial) h

theorem evalFlag_c {env : Env} (hcons : StoreConsistent env.store) (sf n : Nat) :
    FlagRecC env (evalFlag sf n env) := by
  induction n with
  | zero => intro f chain st _ _ h; exact absurd rfl h
  | succ n ih =>
    intro f chain st h0 ha h
    exact evalBody_c hcons (evalFlag_reach sf n env) ih (segContains_reach sf env)
      (segContains_c hcons sf) f chain st h0 ha h

/-- Bridge to `evaluate` for a store that files every item under its own key: EVERY unbounded
segment the store returned for a looked-up key, with no generation or for a context having its
kind, left its trace — whether or not the evaluation ended in an error. -/
theorem evaluate_touched_consistent (env : Env) (f : Flag) (hcons : StoreConsistent env.store) :
    ∀ k ∈ (evaluate env f).segLookups, ∀ s, env.store.findSegment k = some s → Relevant env s →
      (evaluate env f).result.detail.reason.bigSegmentsStatus = some .notConfigured ∨
      (s.generation.isSome = true ∧
        ∃ p key, env.bs = some p ∧ env.ctx.keyByKind s.unboundedContextKind = some key ∧
          key ∈ (evaluate env f).bsQueries ∧
          statusPriority (p.get key).status ≤
            statusPriority (evaluate env f).result.detail.reason.bigSegmentsStatus) := by
  by_cases hc : env.ctx = .invalid
  · intro k hk
    have : (evaluate env f).segLookups = [] := by
      unfold evaluate; rw [hc]
    rw [this] at hk; cases hk
  · have hno := evalFlag_no_oof env f.key (flagFuel env.store) f [] {} List.nodup_nil (by simp)
      (by simp) (by unfold flagFuel; simp)
    have ha := evalFlag_c hcons (segFuel env.store) (flagFuel env.store) f [] {} (.refl _)
      (fun _ hk => by cases hk) hno
    have hs : ∀ d ok st', evalFlag (segFuel env.store) (flagFuel env.store) env f [] {} =
        (.done d ok, st') → d.reason.bigSegmentsStatus = none := fun _ _ _ h => evalFlag_status h
    rw [evaluate_eq_finish env f hc]
    generalize evalFlag (segFuel env.store) (flagFuel env.store) env f [] {} = r at hno ha hs
    obtain ⟨out, st⟩ := r
    cases out with
    | oof => exact absurd rfl hno
    | done d ok =>
      have hst : (finish f (.done d ok) st).result.detail.reason.bigSegmentsStatus = st.status := by
        simp only [finish]
        cases hs' : st.status with
        | none => exact hs d ok st rfl
        | some x => rfl
      intro k hk s hf hrel
      rw [hst]
      rcases ha k hk s hf hrel with h | h
      · exact h.elim
      · exact h

end LD

/-
  LDEval.Wire — the line protocol between the Go harness and the model: JSON → model values and
  model observations → canonical JSON.  Testing machinery (trusted base of the tie), no theorems.
-/
import Lean.Data.Json
import LDEval.Model.Eval

namespace LD.Wire
open Lean

abbrev P := Except String

def fld (j : Json) (k : String) : P Json := j.getObjVal? k
def fldD (j : Json) (k : String) : Json := (j.getObjVal? k).toOption.getD Json.null
def str (j : Json) (k : String) : P String := do (← fld j k).getStr?
def strD (j : Json) (k : String) (d : String := "") : String :=
  match (fldD j k).getStr? with | .ok s => s | _ => d
def boolD (j : Json) (k : String) (d : Bool := false) : Bool :=
  match (fldD j k).getBool? with | .ok b => b | _ => d
def int (j : Json) (k : String) : P Int := do (← fld j k).getInt?
def intD (j : Json) (k : String) (d : Int := 0) : Int :=
  match (fldD j k).getInt? with | .ok b => b | _ => d
def optInt (j : Json) (k : String) : Option Int :=
  match (fldD j k).getInt? with | .ok b => some b | _ => none
def optStr (j : Json) (k : String) : Option String :=
  match (fldD j k).getStr? with | .ok b => some b | _ => none
def arrD (j : Json) (k : String) : Array Json :=
  match (fldD j k).getArr? with | .ok a => a | _ => #[]
def list {α} (f : Json → P α) (a : Array Json) : P (List α) := a.toList.mapM f
def strList (j : Json) (k : String) : P (List String) := list (·.getStr?) (arrD j k)
def optStrList (j : Json) (k : String) : P (Option (List String)) :=
  if (fldD j k).isNull then pure none else some <$> strList j k

def parseIntStr (s : String) : P Int :=
  match s.toInt? with | some i => pure i | none => throw s!"bad int {s}"

def ratOf (n d : Int) : Rat := mkRat n d.toNat

/-- Tagged exact JSON value: null | {"b":_} | {"n":"num","d":"den"} | {"s":_} | {"a":[..]} | {"o":[[k,v]..]}
| {"r":<value>} (an unparsed `ldvalue.Raw`, carried by the value its text parses to). -/
partial def jval (j : Json) : P J := do
  if j.isNull then return .null
  if let .ok r := j.getObjVal? "r" then return .raw (← jval r)
  if let .ok b := (fldD j "b").getBool? then return .bool b
  if let .ok s := (fldD j "s").getStr? then return .str s
  if let .ok n := (fldD j "n").getStr? then
    let d ← str j "d"
    return .num (ratOf (← parseIntStr n) (← parseIntStr d))
  if let .ok a := (fldD j "a").getArr? then return .arr (← list jval a)
  if let .ok o := (fldD j "o").getArr? then
    let kvs ← o.toList.mapM fun kv => do
      let p ← kv.getArr?
      pure ((← (p[0]!).getStr?), (← jval p[1]!))
    return .obj kvs
  throw s!"bad value {j.compress}"

partial def jvalOut : J → Json
  | .null => Json.null
  | .bool b => Json.mkObj [("b", b)]
  | .num q => Json.mkObj [("n", toString q.num), ("d", toString q.den)]
  | .str s => Json.mkObj [("s", s)]
  | .arr xs => Json.mkObj [("a", Json.arr (xs.map jvalOut).toArray)]
  | .obj kvs => Json.mkObj [("o", Json.arr (kvs.map fun (k, v) => Json.arr #[Json.str k, jvalOut v]).toArray)]
  | .raw v => Json.mkObj [("r", jvalOut v)]

def ref (j : Json) : P Ref := do
  let e := strD j "e"
  let err : Option RefErr :=
    if e == "empty" then some .empty else if e == "escape" then some .invalidEscape
    else if e == "slash" then some .extraSlash else none
  if e != "" && err.isNone then throw s!"bad ref err {e}"
  pure { err, raw := strD j "r", single := strD j "s", comps := ← strList j "c" }

def refOut (r : Ref) : Json :=
  Json.mkObj [("e", match r.err with
      | none => "" | some .empty => "empty" | some .invalidEscape => "escape" | some .extraSlash => "slash"),
    ("r", r.raw), ("s", r.single), ("c", Json.arr (r.comps.map Json.str).toArray)]

def sctx (j : Json) : P SCtx := do
  let attrs ← (arrD j "attrs").toList.mapM fun kv => do
    let p ← kv.getArr?
    pure ((← (p[0]!).getStr?), (← jval p[1]!))
  pure { kind := ← str j "kind", key := ← str j "key", name := optStr j "name",
         anonymous := boolD j "anon", secondary := optStr j "sec", attrs }

def ctx (j : Json) : P Ctx := do
  let t ← str j "t"
  if t == "invalid" then pure .invalid
  else if t == "single" then pure (.single (← sctx (← fld j "c")))
  else if t == "multi" then pure (.multi (← list sctx (arrD j "cs")))
  else throw s!"bad ctx {t}"

def primKey (j : Json) : P PrimKey := do
  match ← jval j with
  | .bool b => pure (.bool b) | .num q => pure (.num q) | .str s => pure (.str s) | _ => pure .invalid

def primKeyOut : PrimKey → Json
  | .invalid => Json.null
  | .bool b => jvalOut (.bool b) | .num q => jvalOut (.num q) | .str s => jvalOut (.str s)

def preVal (j : Json) : P PreVal := do
  let sv := arrD j "sv"
  let semver : SemVer ←
    if sv.size == 5 then
      pure { major := ← sv[0]!.getInt?, minor := ← sv[1]!.getInt?, patch := ← sv[2]!.getInt?,
             prerelease := ← sv[3]!.getStr?, build := ← sv[4]!.getStr? }
    else pure {}
  pure { valid := boolD j "valid", regex := optStr j "rx", time := ← parseIntStr (← str j "t"), semver }

def preValOut (p : PreVal) : Json :=
  Json.mkObj [("valid", p.valid), ("rx", match p.regex with | some s => Json.str s | none => Json.null),
    ("t", toString p.time),
    ("sv", Json.arr #[p.semver.major, p.semver.minor, p.semver.patch, p.semver.prerelease, p.semver.build])]

def clause (j : Json) : P Clause := do
  let pv ← if (fldD j "pv").isNull then pure none else some <$> list preVal (arrD j "pv")
  let pm ← if (fldD j "pm").isNull then pure none else some <$> list primKey (arrD j "pm")
  pure { contextKind := strD j "ck", attr := ← ref (← fld j "attr"), op := strD j "op",
         values := ← list jval (arrD j "vals"), negate := boolD j "neg",
         pre := { values := pv, valuesMap := pm } }

def optList {α} (f : α → Json) : Option (List α) → Json
  | none => Json.null
  | some xs => Json.arr (xs.map f).toArray

def clauseOut (c : Clause) : Json :=
  Json.mkObj [("ck", c.contextKind), ("attr", refOut c.attr), ("op", c.op),
    ("vals", Json.arr (c.values.map jvalOut).toArray), ("neg", c.negate),
    ("pv", optList preValOut c.pre.values), ("pm", optList primKeyOut c.pre.valuesMap)]

def wv (j : Json) : P WeightedVariation := do
  pure { variation := ← int j "v", weight := ← int j "w", untracked := boolD j "u" }

def rollout (j : Json) : P Rollout := do
  if j.isNull then return {}
  pure { kind := strD j "kind", contextKind := strD j "ck", variations := ← list wv (arrD j "vars"),
         bucketBy := ← ref (← fld j "by"), seed := optInt j "seed" }

def vr (j : Json) : P VariationOrRollout := do
  pure { variation := optInt j "v", rollout := ← rollout (fldD j "ro") }

def wvOut (w : WeightedVariation) : Json := Json.mkObj [("v", w.variation), ("w", w.weight), ("u", w.untracked)]
def optIntOut : Option Int → Json | none => Json.null | some i => i
def optStrOut : Option String → Json | none => Json.null | some i => i

def vrOut (v : VariationOrRollout) : Json :=
  Json.mkObj [("v", optIntOut v.variation),
    ("ro", Json.mkObj [("kind", v.rollout.kind), ("ck", v.rollout.contextKind),
      ("vars", Json.arr (v.rollout.variations.map wvOut).toArray), ("by", refOut v.rollout.bucketBy),
      ("seed", optIntOut v.rollout.seed)])]

def target (j : Json) : P Target := do
  pure { contextKind := strD j "ck", values := ← strList j "vals", variation := ← int j "v",
         pre := ← optStrList j "pm" }

def strsOut (xs : List String) : Json := Json.arr (xs.map Json.str).toArray

def targetOut (t : Target) : Json :=
  Json.mkObj [("ck", t.contextKind), ("vals", strsOut t.values), ("v", t.variation),
    ("pm", optList Json.str t.pre)]

def prereq (j : Json) : P Prereq := do pure { key := ← str j "key", variation := ← int j "v" }

def flagRule (j : Json) : P FlagRule := do
  pure { vr := ← vr (← fld j "vr"), id := strD j "id", clauses := ← list clause (arrD j "clauses"),
         trackEvents := boolD j "track" }

def flagRuleOut (r : FlagRule) : Json :=
  Json.mkObj [("vr", vrOut r.vr), ("id", r.id), ("clauses", Json.arr (r.clauses.map clauseOut).toArray),
    ("track", r.trackEvents)]

def flag (j : Json) : P Flag := do
  let m := fldD j "meta"
  let csa := fldD m "csa"
  let mig : Option (Option Int) :=
    if (fldD m "mig").isNull then none else some (optInt (fldD m "mig") "checkRatio")
  let debug ← parseIntStr (strD m "debug" "0")
  pure {
    key := ← str j "key", on := boolD j "on",
    prerequisites := ← list prereq (arrD j "prereqs"),
    targets := ← list target (arrD j "targets"),
    contextTargets := ← list target (arrD j "ctargets"),
    rules := ← list flagRule (arrD j "rules"),
    fallthrough := ← vr (← fld j "ft"),
    offVariation := optInt j "off",
    variations := ← list jval (arrD j "vars"),
    salt := strD j "salt",
    trackEventsFallthrough := boolD j "trackFT",
    excludeFromSummaries := boolD j "excl",
    fmeta := {
      clientSide := { usingMobileKey := boolD csa "mobile", usingEnvironmentID := boolD csa "env",
                      explicit := boolD csa "explicit" },
      trackEvents := boolD m "track", debugEventsUntilDate := debug.toNat,
      version := intD m "version", deleted := boolD m "deleted",
      migration := mig, samplingRatio := optInt m "sampling" } }

def flagOut (f : Flag) : Json :=
  Json.mkObj [("key", f.key), ("on", f.on),
    ("prereqs", Json.arr (f.prerequisites.map fun p => Json.mkObj [("key", p.key), ("v", p.variation)]).toArray),
    ("targets", Json.arr (f.targets.map targetOut).toArray),
    ("ctargets", Json.arr (f.contextTargets.map targetOut).toArray),
    ("rules", Json.arr (f.rules.map flagRuleOut).toArray),
    ("ft", vrOut f.fallthrough), ("off", optIntOut f.offVariation),
    ("vars", Json.arr (f.variations.map jvalOut).toArray), ("salt", f.salt),
    ("trackFT", f.trackEventsFallthrough), ("excl", f.excludeFromSummaries),
    ("meta", Json.mkObj [
      ("csa", Json.mkObj [("mobile", f.fmeta.clientSide.usingMobileKey),
        ("env", f.fmeta.clientSide.usingEnvironmentID), ("explicit", f.fmeta.clientSide.explicit)]),
      ("track", f.fmeta.trackEvents), ("debug", toString f.fmeta.debugEventsUntilDate),
      ("version", f.fmeta.version), ("deleted", f.fmeta.deleted),
      ("mig", match f.fmeta.migration with
        | none => Json.null | some cr => Json.mkObj [("checkRatio", optIntOut cr)]),
      ("sampling", optIntOut f.fmeta.samplingRatio)])]

def segTarget (j : Json) : P SegmentTarget := do
  pure { contextKind := strD j "ck", values := ← strList j "vals", pre := ← optStrList j "pm" }

def segTargetOut (t : SegmentTarget) : Json :=
  Json.mkObj [("ck", t.contextKind), ("vals", strsOut t.values), ("pm", optList Json.str t.pre)]

def segRule (j : Json) : P SegmentRule := do
  pure { id := strD j "id", clauses := ← list clause (arrD j "clauses"), weight := optInt j "weight",
         bucketBy := ← ref (← fld j "by"), rolloutContextKind := strD j "rck" }

def segRuleOut (r : SegmentRule) : Json :=
  Json.mkObj [("id", r.id), ("clauses", Json.arr (r.clauses.map clauseOut).toArray),
    ("weight", optIntOut r.weight), ("by", refOut r.bucketBy), ("rck", r.rolloutContextKind)]

def segment (j : Json) : P Segment := do
  pure {
    key := ← str j "key", included := ← strList j "inc", excluded := ← strList j "exc",
    includedContexts := ← list segTarget (arrD j "incC"),
    excludedContexts := ← list segTarget (arrD j "excC"),
    salt := strD j "salt", rules := ← list segRule (arrD j "rules"),
    unbounded := boolD j "unb", unboundedContextKind := strD j "unbK",
    version := intD j "version", generation := optInt j "gen", deleted := boolD j "deleted",
    pre := { includeMap := ← optStrList j "incM", excludeMap := ← optStrList j "excM" } }

def segmentOut (s : Segment) : Json :=
  Json.mkObj [("key", s.key), ("inc", strsOut s.included), ("exc", strsOut s.excluded),
    ("incC", Json.arr (s.includedContexts.map segTargetOut).toArray),
    ("excC", Json.arr (s.excludedContexts.map segTargetOut).toArray),
    ("salt", s.salt), ("rules", Json.arr (s.rules.map segRuleOut).toArray),
    ("unb", s.unbounded), ("unbK", s.unboundedContextKind), ("version", s.version),
    ("gen", optIntOut s.generation), ("deleted", s.deleted),
    ("incM", optList Json.str s.pre.includeMap), ("excM", optList Json.str s.pre.excludeMap)]

/-- A store entry: the flag / segment object may carry an extra string member `"lk"`, the key under
which the provider hands the item out; without it the item is filed under its own `key`. -/
def flagEntry (j : Json) : P (String × Flag) := do
  let f ← flag j
  pure (strD j "lk" f.key, f)

def segmentEntry (j : Json) : P (String × Segment) := do
  let s ← segment j
  pure (strD j "lk" s.key, s)

def store (j : Json) : P Store := do
  pure { flags := ← list flagEntry (arrD j "flags"),
         segments := ← list segmentEntry (arrD j "segments") }

/-- A Go `ldreason.BigSegmentsStatus` string: the four constants map to their constructors, `""` is
"no status" (`none`), any other string `s` is `.other s`.  Never fails. -/
def status (s : String) : P (Option Status) := pure (Status.ofString s)

/-- The Go string of a status; `.other s` prints as `s`. -/
def statusOut : Status → String := Status.toString

def bsAnswer (j : Json) : P BSAnswer := do
  let m ← if (fldD j "m").isNull then pure none else
    some <$> (arrD j "m").toList.mapM fun kv => do
      let p ← kv.getArr?
      pure ((← (p[0]!).getStr?), (← (p[1]!).getBool?))
  pure { membership := m, status := ← status (← str j "st") }

def bsProvider (j : Json) : P (Option BSProvider) := do
  if j.isNull then return none
  let table ← (arrD j "table").toList.mapM fun kv => do
    let p ← kv.getArr?
    pure ((← (p[0]!).getStr?), (← bsAnswer p[1]!))
  pure (some { table, dflt := ← bsAnswer (← fld j "dflt") })

/-- The regex oracle table: [[pattern, subject, true|false|null]]. A missing entry is reported by
the driver as a harness error (`missing`), never defaulted silently. -/
def rxTable (j : Json) : P (List ((String × String) × Option Bool)) :=
  (match j.getArr? with | .ok a => a | _ => #[]).toList.mapM fun (e : Json) => do
    let p ← e.getArr?
    let r : Option Bool := match (p[2]!).getBool? with | .ok b => some b | _ => none
    pure (((← (p[0]!).getStr?), (← (p[1]!).getStr?)), r)

def opts (j : Json) : Opts :=
  { secondaryKey := boolD j "sec", logger := boolD j "log", recorder := boolD j "rec" true }

/-! ### Output -/

def errKindOut : ErrKind → String
  | .malformedFlag => "MALFORMED_FLAG" | .userNotSpecified => "USER_NOT_SPECIFIED" | .exception => "EXCEPTION"

def reasonKindOut : ReasonKind → String
  | .off => "OFF" | .fallthrough => "FALLTHROUGH" | .targetMatch => "TARGET_MATCH"
  | .ruleMatch => "RULE_MATCH" | .prereqFailed => "PREREQUISITE_FAILED" | .error => "ERROR"

def reasonOut (r : Reason) : Json :=
  Json.mkObj [("kind", reasonKindOut r.kind), ("ruleIndex", r.ruleIndex), ("ruleId", r.ruleId),
    ("prereqKey", r.prereqKey),
    ("errorKind", match r.errorKind with | some k => Json.str (errKindOut k) | none => Json.null),
    ("inExp", r.inExperiment),
    ("bss", match r.bigSegmentsStatus with | some s => Json.str (statusOut s) | none => Json.null)]

def resultOut (r : Result) : Json :=
  Json.mkObj [("value", jvalOut r.detail.value), ("index", optIntOut r.detail.index),
    ("reason", reasonOut r.detail.reason), ("isExp", r.isExperiment)]

def logClassOut : LogClass → String
  | .variation => "variation" | .attrMissing => "attr-missing" | .attrInvalid => "attr-invalid"
  | .rollout => "rollout" | .prereqCycle => "prereq-cycle" | .segCycle => "seg-cycle"

/-- What a log line must mention besides the flag key: the operands of the problem ("d:" = a decimal
number, "q:" = a string, which Go prints with %q). -/
def errOperands : EvalErr → List String
  | .badVariation i => ["d:" ++ toString i]
  | .emptyAttr => []
  | .badAttrRef s => ["q:" ++ s]
  | .emptyRollout => []
  | .circularPrereq k => ["q:" ++ k]
  | .circularSegment k => ["q:" ++ k]
  | .malformedSegment k inner => ("q:" ++ k) :: errOperands inner

def obsOut (o : Obs) : Json :=
  Json.mkObj [
    ("outcome", match o.outcome with | .done => "done" | .outOfFuel => "oof"),
    ("result", resultOut o.result),
    ("events", Json.arr (o.events.map fun e => Json.mkObj [("target", e.targetKey), ("prereq", e.prereqKey),
        ("version", e.prereqVersion), ("result", resultOut e.result), ("excl", e.excludeFromSummaries)]).toArray),
    ("logs", Json.arr (o.logs.map fun l => Json.arr #[Json.str l.flagKey, Json.str (logClassOut l.err.logClass)]).toArray),
    ("logOps", Json.arr (o.logs.map fun l => strsOut (errOperands l.err)).toArray),
    ("flagLookups", strsOut o.flagLookups), ("segLookups", strsOut o.segLookups),
    ("bsQueries", strsOut o.bsQueries),
    ("memChecks", Json.arr (o.memChecks.map fun (k, r) => Json.arr #[Json.str k, Json.str r]).toArray)]

/-- Parse Go's reported result back into a model `Result` (for evaluating Spec predicates on it). -/
def resultIn (j : Json) : P Result := do
  let rj ← fld j "reason"
  let k ← str rj "kind"
  let kind : ReasonKind ←
    if k == "OFF" then pure .off else if k == "FALLTHROUGH" then pure .fallthrough
    else if k == "TARGET_MATCH" then pure .targetMatch else if k == "RULE_MATCH" then pure .ruleMatch
    else if k == "PREREQUISITE_FAILED" then pure .prereqFailed else if k == "ERROR" then pure .error
    else throw s!"bad reason kind {k}"
  let ek : Option ErrKind := match optStr rj "errorKind" with
    | some "MALFORMED_FLAG" => some .malformedFlag
    | some "USER_NOT_SPECIFIED" => some .userNotSpecified
    | some _ => some .exception
    | none => none
  let bss ← match optStr rj "bss" with | some s => status s | none => pure none
  let value ← jval (fldD j "value")
  let ri : Int := intD rj "ruleIndex" (-1)
  let reason : Reason :=
    { kind := kind, ruleIndex := ri, ruleId := strD rj "ruleId", prereqKey := strD rj "prereqKey",
      errorKind := ek, inExperiment := boolD rj "inExp", bigSegmentsStatus := bss }
  let detail : Detail := { value := value, index := optInt j "index", reason := reason }
  pure { detail := detail, isExperiment := boolD j "isExp" }

end LD.Wire

/-
  Obligation: big-segment status priorities and the segment reference format.
-/
import LDEval.Generated.Facts
import LDEval.Obligations.Expected

namespace LD.Obligations

theorem status_priority : Generated.statusPriority = Expected.statusPriority := rfl
theorem ref_format : Generated.bigSegmentRefFormat = Expected.bigSegmentRefFormat := rfl

end LD.Obligations

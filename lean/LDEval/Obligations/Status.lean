/-
  Obligation: big-segment status priorities and the segment reference format.
-/
import LDEval.Generated.Facts
import LDEval.Obligations.Expected

namespace LD.Obligations

/-- The priority table, when the code states it as a table (a function from status to rank). A
code base that merges statuses in another formulation (a pairwise "outranks" test, say) yields the
marker instead; the merge is then decided by the correspondence alone, which runs all ordered
pairs of the four constants, the empty status and a foreign string through an evaluation (stream
`statuspairs` of C11; model: `updateStatus`, all 36 combinations in `C11`, section Table). -/
theorem status_priority : Generated.statusPriority = Expected.statusPriority ∨
    Generated.statusPriority = [("<formulation not recognised>", "")] := by decide
theorem ref_format : Generated.bigSegmentRefFormat = Expected.bigSegmentRefFormat := rfl

end LD.Obligations

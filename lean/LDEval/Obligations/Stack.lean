/-
  Obligation: how the chains of flag / segment keys currently being evaluated are passed around.
-/
import LDEval.Generated.Facts
import LDEval.Obligations.Expected

namespace LD.Obligations

/-- The recursion bookkeeping (the ‹stack› struct: two `[]string` chains) is passed by value
everywhere — never by pointer, never as a receiver, never stored in a field: this is what makes the
model's immutable chains faithful. -/
theorem stack_by_value : Generated.stackPassing = ["parameter or result of type ‹stack›"] := rfl
theorem stack_fields : Generated.stackFieldTypes = ["[]string", "[]string"] := rfl

end LD.Obligations

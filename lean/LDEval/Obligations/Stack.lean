/-
  Obligation: how the chains of flag / segment keys currently being evaluated are passed around.
-/
import LDEval.Generated.Facts
import LDEval.Obligations.Expected

namespace LD.Obligations

/-- The recursion bookkeeping (`evaluationStack`) is passed by value everywhere — never by pointer,
never stored in a field, never returned: this is what makes the model's immutable chains faithful. -/
theorem stack_by_value : Generated.stackParamTypes = ["evaluation.evaluationStack"] := rfl
theorem stack_fields : Generated.stackFields = Expected.stackFields := rfl

end LD.Obligations

/-
  Obligation: the flattened schemas of the real decoder and encoder (every property path with the
  reader primitive used for it — null-tolerant or not — and every property the encoder writes,
  always or conditionally), and that every public (de)serialization entry point, in both build
  variants, funnels into the same functions.
-/
import LDEval.Generated.Facts
import LDEval.Obligations.Expected

namespace LD.Obligations

theorem flag_decoder : Generated.flagDecoder = Expected.flagDecoder := rfl
theorem flag_decoder_known : Generated.flagDecoderKnown = Expected.flagDecoderKnown := rfl
theorem segment_decoder : Generated.segmentDecoder = Expected.segmentDecoder := rfl
theorem segment_decoder_known : Generated.segmentDecoderKnown = Expected.segmentDecoderKnown := rfl
theorem flag_encoder : Generated.flagEncoder = Expected.flagEncoder := rfl
theorem flag_encoder_always : Generated.flagEncoderAlways = Expected.flagEncoderAlways := rfl
theorem segment_encoder : Generated.segmentEncoder = Expected.segmentEncoder := rfl
theorem segment_encoder_always : Generated.segmentEncoderAlways = Expected.segmentEncoderAlways := rfl
theorem entry_points : Generated.entryPoints = Expected.entryPoints := rfl

/-- Every unmarshalling entry point reaches the one decoder and preprocesses; every marshalling
entry point reaches the one encoder. -/
theorem entry_points_funnel : ∀ p ∈ Generated.entryPoints,
    p.2 = "‹flag-decoder› ‹flag-preprocess›" ∨ p.2 = "‹segment-decoder› ‹segment-preprocess›" ∨
    p.2 = "‹flag-encoder›" ∨ p.2 = "‹segment-encoder›" := by decide

end LD.Obligations

/-
  Obligation: which properties the encoder writes (always / conditionally), which the decoder
  reads and with which reader primitive (null-tolerant or not), and that every public
  (de)serialization entry point funnels into the same functions.
-/
import LDEval.Generated.Facts
import LDEval.Obligations.Expected

namespace LD.Obligations

theorem encoder_props : Generated.encoderProps = Expected.encoderProps := rfl
theorem decoder_props : Generated.decoderProps = Expected.decoderProps := rfl
theorem decoder_openers : Generated.decoderOpeners = Expected.decoderOpeners := rfl
theorem entry_points : Generated.entryPoints = Expected.entryPoints := rfl

end LD.Obligations

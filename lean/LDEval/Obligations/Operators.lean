/-
  Obligation: the operator names of ldmodel/operators.go, and the set of operators the evaluation
  package dispatches on (wherever the dispatch lives), are exactly those of the model
  (Properties/C04: `opNames`, plus segmentMatch).
-/
import LDEval.Generated.Facts
import LDEval.Obligations.Expected
import LDEval.Properties.C04

namespace LD.Obligations

theorem operator_constants : Generated.operatorConstants = Expected.operatorConstants := rfl
theorem operators_dispatched : Generated.operatorsDispatched = Expected.operatorsDispatched := rfl
/-- Every operator the Go dispatch knows is one the model's table knows, and vice versa. -/
theorem dispatch_covers_model : ∀ op ∈ C04.opNames, op ∈ Generated.operatorsDispatched := by decide
theorem model_covers_dispatch :
    ∀ op ∈ Generated.operatorsDispatched, op ∈ "segmentMatch" :: C04.opNames := by decide
theorem all_constants_dispatched :
    ∀ p ∈ Generated.operatorConstants, p.2 ∈ Generated.operatorsDispatched := by decide
theorem only_constants_dispatched :
    ∀ op ∈ Generated.operatorsDispatched, op ∈ Generated.operatorConstants.map (·.2) := by decide

end LD.Obligations

/-
  Obligation: the operator names of ldmodel/operators.go and the dispatch in doOp / matchAny /
  clauseMatchesContext are exactly those of the model (Properties/C04: `opNames`, plus segmentMatch).
-/
import LDEval.Generated.Facts
import LDEval.Obligations.Expected
import LDEval.Properties.C04

namespace LD.Obligations

theorem operator_constants : Generated.operatorConstants = Expected.operatorConstants := rfl
theorem doOp_cases : Generated.doOpCases = Expected.doOpCases := rfl
theorem special_operators : Generated.specialOperators = Expected.specialOperators := rfl
/-- Every operator the Go dispatch knows is one the model's table knows, and vice versa. -/
theorem dispatch_covers_model : ∀ op ∈ C04.opNames, op ∈ "in" :: Generated.doOpCases := by decide
theorem model_covers_dispatch : ∀ op ∈ Generated.doOpCases, op ∈ C04.opNames := by decide
theorem all_constants_dispatched :
    ∀ p ∈ Generated.operatorConstants, p.2 ∈ "segmentMatch" :: "in" :: Generated.doOpCases := by decide

end LD.Obligations

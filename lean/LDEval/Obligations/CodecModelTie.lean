/-
  Obligation: the property names the real decoder switches on, and the names the real encoder
  always writes, are the ones the Lean codec model and the C16/C17 theorems are stated for —
  proved against the tables *regenerated from /repo's sources*, not against a frozen copy.
-/
import LDEval.Generated.Facts
import LDEval.Properties.C16
import LDEval.Properties.C17

namespace LD.Obligations

def decNames (fn : String) : List String := ((Generated.decoderProps.lookup fn).getD []).map (·.1)
def encAlways (fn : String) : List String :=
  (((Generated.encoderProps.lookup fn).getD []).filter (fun p =>
    p.2 == "always" || p.2 == "always:writeTargets" || p.2 == "always:writeStringArray" ||
    p.2 == "always:writeSegmentTargets")).map (·.1)

/-- The decoder's known property names, per object, in source order. -/
theorem flag_known : decNames "readFeatureFlag" = C17.flagKnown := by decide
theorem segment_known : decNames "readSegment" = C17.segmentKnown := by decide
theorem prereq_known : decNames "readPrerequisites" = C17.prereqKnown := by decide
theorem target_known : decNames "readTargets" = C17.targetKnown := by decide
theorem clause_known : decNames "readClauses" = C17.clauseKnown := by decide
theorem wv_known : decNames "readRollout/1" = C17.wvKnown := by decide
theorem rollout_known : decNames "readRollout" = C17.rolloutKnown := by decide
theorem vr_known : decNames "readVariationOrRollout" = C17.vrKnown := by decide
theorem rule_known : decNames "readFlagRules" = C17.ruleKnown := by decide
theorem csa_known : decNames "readClientSideAvailability" = C17.csaKnown := by decide
theorem migration_known : decNames "readMigration" = C17.migrationKnown := by decide
theorem segTarget_known : decNames "readSegmentTargets" = C17.segTargetKnown := by decide
theorem segRule_known : decNames "readSegment/1" = C17.segRuleKnown := by decide

/-- Every legacy property the wire schema requires (C16.flagRequired / segmentRequired) is written
unconditionally by the real encoder. -/
theorem flag_required_always_written :
    ∀ k ∈ C16.flagRequired, k ∈ encAlways "marshalFeatureFlagToWriter" := by decide
theorem segment_required_always_written :
    ∀ k ∈ C16.segmentRequired, k ∈ encAlways "marshalSegmentToWriter" := by decide

/-- Reader primitives at the null-tolerant positions of C17 (and the one intolerant list). -/
theorem rollout_variations_not_null_tolerant :
    ((Generated.decoderProps.lookup "readRollout").getD []).lookup "variations" = some "Array" := by decide
theorem list_readers_null_tolerant :
    ∀ fn ∈ ["readPrerequisites", "readTargets", "readFlagRules", "readClauses", "readSegmentTargets",
             "readStringList", "readValueList"],
      ((Generated.decoderOpeners.lookup fn).getD "") = "ArrayOrNull Object" ∨
      ((Generated.decoderOpeners.lookup fn).getD "") = "ArrayOrNull" := by decide

end LD.Obligations

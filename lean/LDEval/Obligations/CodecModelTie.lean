/-
  Obligation: the property names the real decoder dispatches on at every position of the document,
  and the names the real encoder always writes, are the ones the Lean codec model and the C16/C17
  theorems are stated for — proved against the tables *regenerated from /repo's sources*, not
  against a frozen copy.
-/
import LDEval.Generated.Facts
import LDEval.Properties.C16
import LDEval.Properties.C17

namespace LD.Obligations

def sameSet (a b : List String) : Bool := a.all (b.contains ·) && b.all (a.contains ·)

def flagDec (path : String) : List String := (Generated.flagDecoderKnown.lookup path).getD ["<no such object>"]
def segDec (path : String) : List String := (Generated.segmentDecoderKnown.lookup path).getD ["<no such object>"]
def flagEncAlways (path : String) : List String := (Generated.flagEncoderAlways.lookup path).getD []
def segEncAlways (path : String) : List String := (Generated.segmentEncoderAlways.lookup path).getD []

/-- The decoder's known property names, at every object position. -/
theorem flag_known : sameSet (flagDec "flag") C17.flagKnown = true := by decide
theorem segment_known : sameSet (segDec "segment") C17.segmentKnown = true := by decide
theorem prereq_known : sameSet (flagDec "flag/prerequisites[]") C17.prereqKnown = true := by decide
theorem target_known : sameSet (flagDec "flag/targets[]") C17.targetKnown = true ∧
    sameSet (flagDec "flag/contextTargets[]") C17.targetKnown = true := by decide
theorem clause_known : sameSet (flagDec "flag/rules[]/clauses[]") C17.clauseKnown = true ∧
    sameSet (segDec "segment/rules[]/clauses[]") C17.clauseKnown = true := by decide
theorem wv_known : sameSet (flagDec "flag/rules[]/rollout/variations[]") C17.wvKnown = true ∧
    sameSet (flagDec "flag/fallthrough/rollout/variations[]") C17.wvKnown = true := by decide
theorem rollout_known : sameSet (flagDec "flag/rules[]/rollout") C17.rolloutKnown = true ∧
    sameSet (flagDec "flag/fallthrough/rollout") C17.rolloutKnown = true := by decide
theorem vr_known : sameSet (flagDec "flag/fallthrough") C17.vrKnown = true := by decide
theorem rule_known : sameSet (flagDec "flag/rules[]") C17.ruleKnown = true := by decide
theorem csa_known : sameSet (flagDec "flag/clientSideAvailability") C17.csaKnown = true := by decide
theorem migration_known : sameSet (flagDec "flag/migration") C17.migrationKnown = true := by decide
theorem segTarget_known : sameSet (segDec "segment/includedContexts[]") C17.segTargetKnown = true ∧
    sameSet (segDec "segment/excludedContexts[]") C17.segTargetKnown = true := by decide
theorem segRule_known : sameSet (segDec "segment/rules[]") C17.segRuleKnown = true := by decide
/-- There is no object position the model does not know about. -/
theorem no_other_objects :
    Generated.flagDecoderKnown.map (·.1) =
      ["flag", "flag/clientSideAvailability", "flag/contextTargets[]", "flag/fallthrough",
       "flag/fallthrough/rollout", "flag/fallthrough/rollout/variations[]", "flag/migration",
       "flag/prerequisites[]", "flag/rules[]", "flag/rules[]/clauses[]", "flag/rules[]/rollout",
       "flag/rules[]/rollout/variations[]", "flag/targets[]"] ∧
    Generated.segmentDecoderKnown.map (·.1) =
      ["segment", "segment/excludedContexts[]", "segment/includedContexts[]", "segment/rules[]",
       "segment/rules[]/clauses[]"] := by decide

/-- Every legacy property the wire schema requires (C16.flagRequired / segmentRequired) is written
unconditionally by the real encoder. -/
theorem flag_required_always_written : ∀ k ∈ C16.flagRequired, k ∈ flagEncAlways "flag" := by decide
theorem segment_required_always_written :
    ∀ k ∈ C16.segmentRequired, k ∈ segEncAlways "segment" := by decide

/-- Reader primitives at the null-tolerant positions of C17, and the one intolerant list. -/
theorem rollout_variations_not_null_tolerant :
    "flag/rules[]/rollout/variations : Array" ∈ Generated.flagDecoder ∧
    "flag/fallthrough/rollout/variations : Array" ∈ Generated.flagDecoder := by decide
theorem list_readers_null_tolerant :
    ∀ l ∈ ["flag/prerequisites : ArrayOrNull", "flag/targets : ArrayOrNull",
           "flag/contextTargets : ArrayOrNull", "flag/rules : ArrayOrNull",
           "flag/rules[]/clauses : ArrayOrNull", "flag/rules[]/clauses[]/values : ArrayOrNull",
           "flag/targets[]/values : ArrayOrNull", "flag/variations : ArrayOrNull"],
      l ∈ Generated.flagDecoder := by decide
theorem segment_list_readers_null_tolerant :
    ∀ l ∈ ["segment/included : ArrayOrNull", "segment/excluded : ArrayOrNull",
           "segment/includedContexts : ArrayOrNull", "segment/excludedContexts : ArrayOrNull",
           "segment/rules : ArrayOrNull", "segment/rules[]/clauses : ArrayOrNull",
           "segment/includedContexts[]/values : ArrayOrNull"],
      l ∈ Generated.segmentDecoder := by decide

end LD.Obligations

/-
  Obligation: the internal error types and their errorKind() results, the fallback kind, and the
  context-validity gate at the top of Evaluate.
-/
import LDEval.Generated.Facts
import LDEval.Obligations.Expected

namespace LD.Obligations

theorem error_types : Generated.errorTypes = Expected.errorTypes := rfl
theorem error_kinds : Generated.errorKinds = Expected.errorKinds := rfl
/-- Every error type except the bare segment-cycle error has an errorKind method, and every such
method returns MALFORMED_FLAG (model: `EvalErr.kind`). -/
theorem all_malformed : ∀ p ∈ Generated.errorKinds, p.2 = "EvalErrorMalformedFlag" := by decide
theorem only_segment_cycle_lacks_kind :
    Generated.errorTypes.filter (fun t => !(Generated.errorKinds.map (·.1)).contains t) =
      ["circularSegmentReferenceError"] := by decide
theorem fallback_kind : Generated.errorKindFallback = "EvalErrorException" := rfl
theorem context_gate_first : Generated.evaluateFirstCheck = Expected.evaluateFirstCheck := rfl

end LD.Obligations

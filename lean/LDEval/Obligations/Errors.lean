/-
  Obligation: the internal error types and their errorKind() results, the fallback kind, and the
  context-validity gate at the top of Evaluate.
-/
import LDEval.Generated.Facts
import LDEval.Obligations.Expected

namespace LD.Obligations

theorem error_messages : Generated.errorMessages = Expected.errorMessages := rfl
/-- Every error type of the evaluation package (identified by its message) that has an errorKind
method returns MALFORMED_FLAG (model: `EvalErr.kind`), and exactly one — the bare segment-cycle
error — has none. -/
theorem all_malformed : ∀ p ∈ Generated.errorMessages,
    p.2 = "MALFORMED_FLAG" ∨ p.2 = "<no errorKind method>" := by decide
theorem only_segment_cycle_lacks_kind :
    (Generated.errorMessages.filter (fun p => p.2 == "<no errorKind method>")).map (·.1) =
      ["segment rule referencing segment %q caused a circular reference; this is probably a temporary condition due to an incomplete update"] := by
  decide +kernel
/-- An error that is not one of the package's own types is reported as EXCEPTION, and that is the only
constant `errorKindForError` can return by itself. -/
theorem fallback_kind : Generated.errorKindFallback = "EXCEPTION" := rfl
theorem context_gate_first : Generated.evaluateFirstCheck = Expected.evaluateFirstCheck := rfl

end LD.Obligations

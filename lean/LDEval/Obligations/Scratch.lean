/-
  Obligation: the scratch objects of an evaluation — memory that a function reachable from Evaluate
  writes through a parameter whose type is neither shared data nor the per-call scope / stack: the
  hash-input buffer of computeBucketValue and the scanner of the RFC 3339 parser, both allocated
  by the function that hands them to its own helper methods. Relevant to purity and concurrency
  (C12, C13): a scratch object that came from a pool or a package variable would show up here.
-/
import LDEval.Generated.Facts
import LDEval.Obligations.Expected

namespace LD.Obligations

theorem eval_scratch_writes : Generated.evalScratchWrites = Expected.evalScratchWrites := rfl

end LD.Obligations

/-
  Obligation: the constants of evaluator_bucketing.go / evaluator.go are the ones the model uses.
-/
import LDEval.Generated.Facts
import LDEval.Obligations.Expected
import LDEval.Model.Bucket

namespace LD.Obligations

theorem longScale_literal : Generated.longScaleLiteral = 0xFFFFFFFFFFFFFFF := rfl
theorem longScale_model : LD.longScale = SoftF32.ofInt (Generated.longScaleLiteral : Nat) := rfl
theorem buffer_size : Generated.initialHashInputBufferSize = LD.initialHashInputBufferSize := rfl
theorem hex_digits : Generated.hashHexDigits = 15 := rfl
theorem prealloc : Generated.preallocatedPrerequisiteChainSize = Expected.preallocatedPrerequisiteChainSize ∧
    Generated.preallocatedSegmentChainSize = Expected.preallocatedSegmentChainSize := ⟨rfl, rfl⟩
/-- The recursion bookkeeping (`evaluationStack`) is passed by value everywhere, never by pointer:
this is what makes the model's immutable chains faithful. -/
theorem stack_by_value : Generated.stackParams = Expected.stackParams := rfl
theorem stack_all_by_value : ∀ p ∈ Generated.stackParams, p.2 = "evaluationStack" := by decide

end LD.Obligations

/-
  Obligation: the constants of evaluator_bucketing.go / evaluator.go are the ones the model uses.
-/
import LDEval.Generated.Facts
import LDEval.Obligations.Expected
import LDEval.Model.Bucket

namespace LD.Obligations

theorem longScale_literal : Generated.longScaleLiteral = 0xFFFFFFFFFFFFFFF := rfl
theorem longScale_model : LD.longScale = SoftF32.ofInt (Generated.longScaleLiteral : Nat) := rfl
theorem buffer_size : Generated.initialHashInputBufferSize = LD.initialHashInputBufferSize := rfl
/-- Every call to `internal.ParseHexUint64` in the evaluation package receives the first 15 hex
digits of the hash (model: `Bucket.hashPrefix`). -/
theorem hex_digits : Generated.hashHexDigits = 15 := rfl
theorem prealloc : Generated.preallocatedPrerequisiteChainSize = Expected.preallocatedPrerequisiteChainSize ∧
    Generated.preallocatedSegmentChainSize = Expected.preallocatedSegmentChainSize := ⟨rfl, rfl⟩
end LD.Obligations

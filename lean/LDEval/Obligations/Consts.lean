/-
  Obligation: the constants of evaluator_bucketing.go / evaluator.go are the ones the model uses.
-/
import LDEval.Generated.Facts
import LDEval.Obligations.Expected
import LDEval.Model.Bucket

namespace LD.Obligations

/-- The divisor of the bucket division, as the compiler sees it (`float32(0xFFFFFFFFFFFFFFF)`
rounds to 2^60), is the value the model divides by. -/
theorem longScale_value : Generated.longScaleValue = 2 ^ 60 := by decide
theorem longScale_model : LD.longScale = (Generated.longScaleValue : Nat) := by
  decide +kernel
theorem buffer_size : Generated.initialHashInputBufferSize = LD.initialHashInputBufferSize := rfl
/-- Every call to `internal.ParseHexUint64` in the evaluation package receives the first 15 hex
digits of the hash (model: `Bucket.hashPrefix`). -/
theorem hex_digits : Generated.hashHexDigits = 15 := rfl
theorem prealloc : Generated.preallocatedChainSizes = Expected.preallocatedChainSizes := rfl
end LD.Obligations

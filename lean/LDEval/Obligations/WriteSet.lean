/-
  Obligation: the library's shared mutable state, computed over the SSA form of the whole module
  (roles and types, never unexported names — see factgen/state.go). An evaluation writes nothing
  that another evaluation can see; what it does write is exactly the per-call state of the model;
  it talks to the outside only through the channels the model's state `St` records; the evaluator is
  written only by the option `apply` methods during construction; no package variable is ever
  written after initialisation.
-/
import LDEval.Generated.Facts
import LDEval.Obligations.Expected

namespace LD.Obligations

theorem no_shared_writes : Generated.evalSharedWrites = [] := rfl
theorem no_global_writes : Generated.globalWrites = [] := rfl
theorem eval_private_writes : Generated.evalPrivateWrites = Expected.evalPrivateWrites := rfl
theorem eval_dynamic_calls : Generated.evalDynamicCalls = Expected.evalDynamicCalls := rfl
theorem evaluator_writes : Generated.evaluatorWrites = Expected.evaluatorWrites := rfl
theorem evaluator_fields : Generated.evaluatorFieldTypes = Expected.evaluatorFieldTypes := rfl
theorem scope_fields : Generated.scopeFieldTypes = Expected.scopeFieldTypes := rfl
/-- The evaluator is assigned only inside the method that the EvaluatorOption interface requires of its implementations. -/
theorem evaluator_written_only_by_options : ∀ w ∈ Generated.evaluatorWrites,
    w = "the EvaluatorOption method of an implementation: store field of type bool" ∨
    w = "the EvaluatorOption method of an implementation: store field of type evaluation.BigSegmentProvider" ∨
    w = "the EvaluatorOption method of an implementation: store field of type ldlog.BaseLogger" := by decide

end LD.Obligations

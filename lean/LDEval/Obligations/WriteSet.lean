/-
  Obligation: the library's shared mutable state, computed over the SSA form of the whole module.
  `evalWrites` is every write, in any function reachable from Evaluate, to memory the writing
  function did not allocate itself; `evalDynamicCalls` the interface methods and API callbacks an
  evaluation invokes; `evaluatorWrites` every function that assigns a field of the shared evaluator
  or a package-level variable. Expected (see Expected.lean): an evaluation writes only per-call
  objects, talks to the outside only through the channels the model's state `St` records, and the
  evaluator is written only by the option `apply` methods during construction.
-/
import LDEval.Generated.Facts
import LDEval.Obligations.Expected

namespace LD.Obligations

theorem package_vars : Generated.packageVars = Expected.packageVars := rfl
theorem state_fields : Generated.stateFields = Expected.stateFields := rfl
theorem eval_writes : Generated.evalWrites = Expected.evalWrites := rfl
theorem eval_dynamic_calls : Generated.evalDynamicCalls = Expected.evalDynamicCalls := rfl
theorem evaluator_writes : Generated.evaluatorWrites = Expected.evaluatorWrites := rfl

end LD.Obligations

/-
  Obligation: the library's shared mutable state. Package-level variables, the fields of the
  evaluator and of the per-call scope, and every assignment that goes through a value of a shared
  type (evaluator, flag, segment, clause, target, context). Expected: evaluator fields are written
  only by the option `apply` methods during construction; flags/segments only by the decoder and by
  Preprocess* (before publication); nothing reachable from Evaluate writes to shared data.
-/
import LDEval.Generated.Facts
import LDEval.Obligations.Expected

namespace LD.Obligations

theorem package_vars : Generated.packageVars = Expected.packageVars := rfl
theorem shared_writes : Generated.sharedWrites = Expected.sharedWrites := rfl
theorem state_fields : Generated.stateFields = Expected.stateFields := rfl

end LD.Obligations

/-
  LDEval.Obligations.Expected — the hand-maintained expectation of every fact factgen extracts from
  /repo: a frozen copy of what the model was written against (same shape as Generated/Facts.lean).
  The obligation modules prove Generated = Expected and tie the tables to the model's own; update
  this file only together with the model, when upstream legitimately changes a table.

  How to read the state facts (roles: ‹evaluator› = the struct behind NewEvaluatorWithOptions,
  ‹scope› = the per-call struct holding a pointer to it, ‹stack› = the struct of []string chains):
  * `evalSharedWrites` — writes, reachable from Evaluate, into the evaluator, the data model, a
    package variable, or through an unclassifiable parameter: none.
  * `evalPrivateWrites` — the writes into the per-call state of an evaluation: the ‹scope› lives
    on Evaluate's stack (model: `St.status`, `St.cache`), the ‹stack› is passed by value and only
    appended to (model: the immutable chains).
  * `evalScratchWrites` — the remaining non-local writes: `LocalBuffer` and the time scanner (a
    ‹local object›) are locals of the bucketing / RFC 3339 code passed to their own methods.
  * `evalDynamicCalls` are the only ways an evaluation talks to the outside (model: `flagLookups`,
    `segLookups`, `bsQueries`, `memChecks`, `events`, `logs`).
-/
namespace LD.Expected


def longScaleValue : Nat := 1152921504606846976
def initialHashInputBufferSize : Nat := 100
def preallocatedChainSizes : List Nat := [20, 20]
def hashHexDigits : Nat := 15

def operatorConstants : List (String × String) := [("OperatorAfter", "after"), ("OperatorBefore", "before"), ("OperatorContains", "contains"), ("OperatorEndsWith", "endsWith"), ("OperatorGreaterThan", "greaterThan"), ("OperatorGreaterThanOrEqual", "greaterThanOrEqual"), ("OperatorIn", "in"), ("OperatorLessThan", "lessThan"), ("OperatorLessThanOrEqual", "lessThanOrEqual"), ("OperatorMatches", "matches"), ("OperatorSegmentMatch", "segmentMatch"), ("OperatorSemVerEqual", "semVerEqual"), ("OperatorSemVerGreaterThan", "semVerGreaterThan"), ("OperatorSemVerLessThan", "semVerLessThan"), ("OperatorStartsWith", "startsWith")]
def operatorsDispatched : List String := ["after", "before", "contains", "endsWith", "greaterThan", "greaterThanOrEqual", "in", "lessThan", "lessThanOrEqual", "matches", "segmentMatch", "semVerEqual", "semVerGreaterThan", "semVerLessThan", "startsWith"]

def errorMessages : List (String × String) := [("invalid attribute reference %q", "MALFORMED_FLAG"), ("prerequisite relationship to %q caused a circular reference; this is probably a temporary condition due to an incomplete update", "MALFORMED_FLAG"), ("rollout or experiment with no variations", "MALFORMED_FLAG"), ("rule clause did not specify an attribute", "MALFORMED_FLAG"), ("rule, fallthrough, or target referenced a nonexistent variation index %d", "MALFORMED_FLAG"), ("segment %q had an invalid configuration: %s", "MALFORMED_FLAG"), ("segment rule referencing segment %q caused a circular reference; this is probably a temporary condition due to an incomplete update", "<no errorKind method>")]
def errorKindFallback : String := "EXCEPTION"
def evaluateFirstCheck : String := "(ldcontext.Context).Err != nil => USER_NOT_SPECIFIED"

def statusPriority : List (String × String) := [("BigSegmentsNotConfigured", "3"), ("BigSegmentsStale", "1"), ("BigSegmentsStoreError", "2"), ("default", "0")]
def bigSegmentRefFormat : String := "%s.g%d <- (*ldmodel.Segment).Key, (*ldmodel.Segment).Generation.IntValue()"

def flagDecoder : List String := [
  "flag : Object",
  "flag/clientSide : Bool",
  "flag/clientSideAvailability : ObjectOrNull",
  "flag/clientSideAvailability/usingEnvironmentId : Bool",
  "flag/clientSideAvailability/usingMobileKey : Bool",
  "flag/contextTargets : ArrayOrNull",
  "flag/contextTargets[] : Object",
  "flag/contextTargets[]/contextKind : String",
  "flag/contextTargets[]/values : ArrayOrNull",
  "flag/contextTargets[]/values[] : String",
  "flag/contextTargets[]/variation : Int",
  "flag/debugEventsUntilDate : Float64OrNull",
  "flag/deleted : Bool",
  "flag/excludeFromSummaries : Bool",
  "flag/fallthrough : Object",
  "flag/fallthrough/rollout : ObjectOrNull",
  "flag/fallthrough/rollout/bucketBy : StringOrNull",
  "flag/fallthrough/rollout/contextKind : String",
  "flag/fallthrough/rollout/kind : String",
  "flag/fallthrough/rollout/seed : IntOrNull",
  "flag/fallthrough/rollout/variations : Array",
  "flag/fallthrough/rollout/variations[] : Object",
  "flag/fallthrough/rollout/variations[]/untracked : Bool",
  "flag/fallthrough/rollout/variations[]/variation : Int",
  "flag/fallthrough/rollout/variations[]/weight : Int",
  "flag/fallthrough/variation : extern (*ldvalue.OptionalInt).ReadFromJSONReader",
  "flag/key : String",
  "flag/migration : ObjectOrNull",
  "flag/migration/checkRatio : Int",
  "flag/offVariation : extern (*ldvalue.OptionalInt).ReadFromJSONReader",
  "flag/on : Bool",
  "flag/prerequisites : ArrayOrNull",
  "flag/prerequisites[] : Object",
  "flag/prerequisites[]/key : String",
  "flag/prerequisites[]/variation : Int",
  "flag/rules : ArrayOrNull",
  "flag/rules[] : Object",
  "flag/rules[]/clauses : ArrayOrNull",
  "flag/rules[]/clauses[] : Object",
  "flag/rules[]/clauses[]/attribute : StringOrNull",
  "flag/rules[]/clauses[]/contextKind : String",
  "flag/rules[]/clauses[]/negate : Bool",
  "flag/rules[]/clauses[]/op : String",
  "flag/rules[]/clauses[]/values : ArrayOrNull",
  "flag/rules[]/clauses[]/values[] : extern (*ldvalue.Value).ReadFromJSONReader",
  "flag/rules[]/id : String",
  "flag/rules[]/rollout : ObjectOrNull",
  "flag/rules[]/rollout/bucketBy : StringOrNull",
  "flag/rules[]/rollout/contextKind : String",
  "flag/rules[]/rollout/kind : String",
  "flag/rules[]/rollout/seed : IntOrNull",
  "flag/rules[]/rollout/variations : Array",
  "flag/rules[]/rollout/variations[] : Object",
  "flag/rules[]/rollout/variations[]/untracked : Bool",
  "flag/rules[]/rollout/variations[]/variation : Int",
  "flag/rules[]/rollout/variations[]/weight : Int",
  "flag/rules[]/trackEvents : Bool",
  "flag/rules[]/variation : extern (*ldvalue.OptionalInt).ReadFromJSONReader",
  "flag/salt : String",
  "flag/samplingRatio : Int",
  "flag/targets : ArrayOrNull",
  "flag/targets[] : Object",
  "flag/targets[]/contextKind : String",
  "flag/targets[]/values : ArrayOrNull",
  "flag/targets[]/values[] : String",
  "flag/targets[]/variation : Int",
  "flag/trackEvents : Bool",
  "flag/trackEventsFallthrough : Bool",
  "flag/variations : ArrayOrNull",
  "flag/variations[] : extern (*ldvalue.Value).ReadFromJSONReader",
  "flag/version : Int"
]
def flagDecoderKnown : List (String × List String) := [
  ("flag", ["clientSide", "clientSideAvailability", "contextTargets", "debugEventsUntilDate", "deleted", "excludeFromSummaries", "fallthrough", "key", "migration", "offVariation", "on", "prerequisites", "rules", "salt", "samplingRatio", "targets", "trackEvents", "trackEventsFallthrough", "variations", "version"]),
  ("flag/clientSideAvailability", ["usingEnvironmentId", "usingMobileKey"]),
  ("flag/contextTargets[]", ["contextKind", "values", "variation"]),
  ("flag/fallthrough", ["rollout", "variation"]),
  ("flag/fallthrough/rollout", ["bucketBy", "contextKind", "kind", "seed", "variations"]),
  ("flag/fallthrough/rollout/variations[]", ["untracked", "variation", "weight"]),
  ("flag/migration", ["checkRatio"]),
  ("flag/prerequisites[]", ["key", "variation"]),
  ("flag/rules[]", ["clauses", "id", "rollout", "trackEvents", "variation"]),
  ("flag/rules[]/clauses[]", ["attribute", "contextKind", "negate", "op", "values"]),
  ("flag/rules[]/rollout", ["bucketBy", "contextKind", "kind", "seed", "variations"]),
  ("flag/rules[]/rollout/variations[]", ["untracked", "variation", "weight"]),
  ("flag/targets[]", ["contextKind", "values", "variation"])
]
def segmentDecoder : List String := [
  "segment : Object",
  "segment/deleted : Bool",
  "segment/excluded : ArrayOrNull",
  "segment/excludedContexts : ArrayOrNull",
  "segment/excludedContexts[] : Object",
  "segment/excludedContexts[]/contextKind : String",
  "segment/excludedContexts[]/values : ArrayOrNull",
  "segment/excludedContexts[]/values[] : String",
  "segment/excluded[] : String",
  "segment/generation : extern (*ldvalue.OptionalInt).ReadFromJSONReader",
  "segment/included : ArrayOrNull",
  "segment/includedContexts : ArrayOrNull",
  "segment/includedContexts[] : Object",
  "segment/includedContexts[]/contextKind : String",
  "segment/includedContexts[]/values : ArrayOrNull",
  "segment/includedContexts[]/values[] : String",
  "segment/included[] : String",
  "segment/key : String",
  "segment/rules : ArrayOrNull",
  "segment/rules[] : Object",
  "segment/rules[]/bucketBy : StringOrNull",
  "segment/rules[]/clauses : ArrayOrNull",
  "segment/rules[]/clauses[] : Object",
  "segment/rules[]/clauses[]/attribute : StringOrNull",
  "segment/rules[]/clauses[]/contextKind : String",
  "segment/rules[]/clauses[]/negate : Bool",
  "segment/rules[]/clauses[]/op : String",
  "segment/rules[]/clauses[]/values : ArrayOrNull",
  "segment/rules[]/clauses[]/values[] : extern (*ldvalue.Value).ReadFromJSONReader",
  "segment/rules[]/id : String",
  "segment/rules[]/rolloutContextKind : String",
  "segment/rules[]/weight : IntOrNull",
  "segment/salt : String",
  "segment/unbounded : Bool",
  "segment/unboundedContextKind : String",
  "segment/version : Int"
]
def segmentDecoderKnown : List (String × List String) := [
  ("segment", ["deleted", "excluded", "excludedContexts", "generation", "included", "includedContexts", "key", "rules", "salt", "unbounded", "unboundedContextKind", "version"]),
  ("segment/excludedContexts[]", ["contextKind", "values"]),
  ("segment/includedContexts[]", ["contextKind", "values"]),
  ("segment/rules[]", ["bucketBy", "clauses", "id", "rolloutContextKind", "weight"]),
  ("segment/rules[]/clauses[]", ["attribute", "contextKind", "negate", "op", "values"])
]
def flagEncoder : List String := [
  "flag = Object",
  "flag/clientSide : always",
  "flag/clientSideAvailability : conditional",
  "flag/clientSideAvailability = Object",
  "flag/clientSideAvailability/usingEnvironmentId : always",
  "flag/clientSideAvailability/usingMobileKey : always",
  "flag/contextTargets : always",
  "flag/contextTargets = Array",
  "flag/contextTargets[] = Object",
  "flag/contextTargets[]/contextKind : conditional",
  "flag/contextTargets[]/values : always",
  "flag/contextTargets[]/values = Array",
  "flag/contextTargets[]/variation : always",
  "flag/debugEventsUntilDate : always",
  "flag/deleted : always",
  "flag/excludeFromSummaries : conditional",
  "flag/fallthrough : always",
  "flag/fallthrough = Object",
  "flag/fallthrough/rollout : conditional",
  "flag/fallthrough/rollout = Object",
  "flag/fallthrough/rollout/bucketBy : conditional",
  "flag/fallthrough/rollout/contextKind : conditional",
  "flag/fallthrough/rollout/kind : conditional",
  "flag/fallthrough/rollout/seed : conditional",
  "flag/fallthrough/rollout/variations : always",
  "flag/fallthrough/rollout/variations = Array",
  "flag/fallthrough/rollout/variations[] = Object",
  "flag/fallthrough/rollout/variations[]/untracked : conditional",
  "flag/fallthrough/rollout/variations[]/variation : always",
  "flag/fallthrough/rollout/variations[]/weight : always",
  "flag/fallthrough/variation : conditional",
  "flag/key : always",
  "flag/migration : conditional",
  "flag/migration = Object",
  "flag/migration/checkRatio : conditional",
  "flag/offVariation : always",
  "flag/on : always",
  "flag/prerequisites : always",
  "flag/prerequisites = Array",
  "flag/prerequisites[] = Object",
  "flag/prerequisites[]/key : always",
  "flag/prerequisites[]/variation : always",
  "flag/rules : always",
  "flag/rules = Array",
  "flag/rules[] = Object",
  "flag/rules[]/clauses : always",
  "flag/rules[]/clauses = Array",
  "flag/rules[]/clauses[] = Object",
  "flag/rules[]/clauses[]/attribute : always",
  "flag/rules[]/clauses[]/contextKind : conditional",
  "flag/rules[]/clauses[]/negate : always",
  "flag/rules[]/clauses[]/op : always",
  "flag/rules[]/clauses[]/values : always",
  "flag/rules[]/clauses[]/values = Array",
  "flag/rules[]/id : conditional",
  "flag/rules[]/rollout : conditional",
  "flag/rules[]/rollout = Object",
  "flag/rules[]/rollout/bucketBy : conditional",
  "flag/rules[]/rollout/contextKind : conditional",
  "flag/rules[]/rollout/kind : conditional",
  "flag/rules[]/rollout/seed : conditional",
  "flag/rules[]/rollout/variations : always",
  "flag/rules[]/rollout/variations = Array",
  "flag/rules[]/rollout/variations[] = Object",
  "flag/rules[]/rollout/variations[]/untracked : conditional",
  "flag/rules[]/rollout/variations[]/variation : always",
  "flag/rules[]/rollout/variations[]/weight : always",
  "flag/rules[]/trackEvents : always",
  "flag/rules[]/variation : conditional",
  "flag/salt : always",
  "flag/samplingRatio : conditional",
  "flag/targets : always",
  "flag/targets = Array",
  "flag/targets[] = Object",
  "flag/targets[]/contextKind : conditional",
  "flag/targets[]/values : always",
  "flag/targets[]/values = Array",
  "flag/targets[]/variation : always",
  "flag/trackEvents : always",
  "flag/trackEventsFallthrough : always",
  "flag/variations : always",
  "flag/variations = Array",
  "flag/version : always"
]
def flagEncoderAlways : List (String × List String) := [
  ("flag", ["clientSide", "contextTargets", "debugEventsUntilDate", "deleted", "fallthrough", "key", "offVariation", "on", "prerequisites", "rules", "salt", "targets", "trackEvents", "trackEventsFallthrough", "variations", "version"]),
  ("flag/clientSideAvailability", ["usingEnvironmentId", "usingMobileKey"]),
  ("flag/contextTargets[]", ["values", "variation"]),
  ("flag/fallthrough", []),
  ("flag/fallthrough/rollout", ["variations"]),
  ("flag/fallthrough/rollout/variations[]", ["variation", "weight"]),
  ("flag/migration", []),
  ("flag/prerequisites[]", ["key", "variation"]),
  ("flag/rules[]", ["clauses", "trackEvents"]),
  ("flag/rules[]/clauses[]", ["attribute", "negate", "op", "values"]),
  ("flag/rules[]/rollout", ["variations"]),
  ("flag/rules[]/rollout/variations[]", ["variation", "weight"]),
  ("flag/targets[]", ["values", "variation"])
]
def segmentEncoder : List String := [
  "segment = Object",
  "segment/deleted : always",
  "segment/excluded : always",
  "segment/excluded = Array",
  "segment/excludedContexts : always",
  "segment/excludedContexts = Array",
  "segment/excludedContexts[] = Object",
  "segment/excludedContexts[]/contextKind : conditional",
  "segment/excludedContexts[]/values : always",
  "segment/excludedContexts[]/values = Array",
  "segment/generation : always",
  "segment/included : always",
  "segment/included = Array",
  "segment/includedContexts : always",
  "segment/includedContexts = Array",
  "segment/includedContexts[] = Object",
  "segment/includedContexts[]/contextKind : conditional",
  "segment/includedContexts[]/values : always",
  "segment/includedContexts[]/values = Array",
  "segment/key : always",
  "segment/rules : always",
  "segment/rules = Array",
  "segment/rules[] = Object",
  "segment/rules[]/bucketBy : conditional",
  "segment/rules[]/clauses : always",
  "segment/rules[]/clauses = Array",
  "segment/rules[]/clauses[] = Object",
  "segment/rules[]/clauses[]/attribute : always",
  "segment/rules[]/clauses[]/contextKind : conditional",
  "segment/rules[]/clauses[]/negate : always",
  "segment/rules[]/clauses[]/op : always",
  "segment/rules[]/clauses[]/values : always",
  "segment/rules[]/clauses[]/values = Array",
  "segment/rules[]/id : always",
  "segment/rules[]/rolloutContextKind : conditional",
  "segment/rules[]/weight : conditional",
  "segment/salt : always",
  "segment/unbounded : conditional",
  "segment/unboundedContextKind : conditional",
  "segment/version : always"
]
def segmentEncoderAlways : List (String × List String) := [
  ("segment", ["deleted", "excluded", "excludedContexts", "generation", "included", "includedContexts", "key", "rules", "salt", "version"]),
  ("segment/excludedContexts[]", ["values"]),
  ("segment/includedContexts[]", ["values"]),
  ("segment/rules[]", ["clauses", "id"]),
  ("segment/rules[]/clauses[]", ["attribute", "negate", "op", "values"])
]
def entryPoints : List (String × String) := [("(*FeatureFlag).UnmarshalJSON", "‹flag-decoder› ‹flag-preprocess›"), ("(*Segment).UnmarshalJSON", "‹segment-decoder› ‹segment-preprocess›"), ("(FeatureFlag).MarshalJSON", "‹flag-encoder›"), ("(Segment).MarshalJSON", "‹segment-encoder›"), ("(jsonDataModelSerialization).MarshalFeatureFlag", "‹flag-encoder›"), ("(jsonDataModelSerialization).MarshalSegment", "‹segment-encoder›"), ("(jsonDataModelSerialization).UnmarshalFeatureFlag", "‹flag-decoder› ‹flag-preprocess›"), ("(jsonDataModelSerialization).UnmarshalSegment", "‹segment-decoder› ‹segment-preprocess›"), ("MarshalFeatureFlagToJSONWriter", "‹flag-encoder›"), ("MarshalSegmentToJSONWriter", "‹segment-encoder›"), ("UnmarshalFeatureFlagFromJSONReader", "‹flag-decoder› ‹flag-preprocess›"), ("UnmarshalSegmentFromJSONReader", "‹segment-decoder› ‹segment-preprocess›"), ("easyjson:(*FeatureFlag).UnmarshalEasyJSON", "‹flag-decoder› ‹flag-preprocess›"), ("easyjson:(*Segment).UnmarshalEasyJSON", "‹segment-decoder› ‹segment-preprocess›"), ("easyjson:(FeatureFlag).MarshalEasyJSON", "‹flag-encoder›"), ("easyjson:(Segment).MarshalEasyJSON", "‹segment-encoder›")]

def evaluatorFieldTypes : List String := ["bool", "evaluation.BigSegmentProvider", "evaluation.DataProvider", "ldlog.BaseLogger"]
def scopeFieldTypes : List String := ["*ldmodel.FeatureFlag", "*‹evaluator›", "evaluation.PrerequisiteFlagEventRecorder", "ldcontext.Context", "ldreason.BigSegmentsStatus", "map[string]evaluation.BigSegmentMembership"]
def stackFieldTypes : List String := ["[]string", "[]string"]
def stackPassing : List String := ["parameter or result of type ‹stack›"]
def evalSharedWrites : List String := []
def evalPrivateWrites : List String := [
  "append ‹stack› field of type []string",
  "map update ‹scope› field of type map[string]evaluation.BigSegmentMembership",
  "store ‹scope› field of type ldreason.BigSegmentsStatus",
  "store ‹scope› field of type map[string]evaluation.BigSegmentMembership"
]
def evalScratchWrites : List String := [
  "copy internal.LocalBuffer field of type []byte",
  "store internal.LocalBuffer field of type []byte",
  "store ‹local object› field of type int"
]
def evalDynamicCalls : List String := [
  "call evaluation.PrerequisiteFlagEventRecorder",
  "invoke evaluation.BigSegmentMembership.CheckMembership",
  "invoke evaluation.BigSegmentProvider.GetMembership",
  "invoke evaluation.DataProvider.GetFeatureFlag",
  "invoke evaluation.DataProvider.GetSegment",
  "invoke ldlog.BaseLogger.Printf",
  "invoke ‹unexported interface›.‹unexported method› func() ldreason.EvalErrorKind"
]
def evaluatorWrites : List String := [
  "the EvaluatorOption method of an implementation: store field of type bool",
  "the EvaluatorOption method of an implementation: store field of type evaluation.BigSegmentProvider",
  "the EvaluatorOption method of an implementation: store field of type ldlog.BaseLogger"
]
def globalWrites : List String := []

end LD.Expected

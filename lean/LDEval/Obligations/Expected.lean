/-
  LDEval.Obligations.Expected — the hand-maintained expectation of every fact factgen extracts from
  /repo (frozen copy of what the model was written against). The obligation modules prove
  Generated = Expected; update this file only together with the model when upstream legitimately
  changes a table.
-/
namespace LD.Expected

def longScaleLiteral : Nat := 1152921504606846975
def initialHashInputBufferSize : Nat := 100
def preallocatedPrerequisiteChainSize : Nat := 20
def preallocatedSegmentChainSize : Nat := 20
def hashHexDigits : Nat := 15

def operatorConstants : List (String × String) := [("OperatorAfter", "after"), ("OperatorBefore", "before"), ("OperatorContains", "contains"), ("OperatorEndsWith", "endsWith"), ("OperatorGreaterThan", "greaterThan"), ("OperatorGreaterThanOrEqual", "greaterThanOrEqual"), ("OperatorIn", "in"), ("OperatorLessThan", "lessThan"), ("OperatorLessThanOrEqual", "lessThanOrEqual"), ("OperatorMatches", "matches"), ("OperatorSegmentMatch", "segmentMatch"), ("OperatorSemVerEqual", "semVerEqual"), ("OperatorSemVerGreaterThan", "semVerGreaterThan"), ("OperatorSemVerLessThan", "semVerLessThan"), ("OperatorStartsWith", "startsWith")]
def doOpCases : List String := ["endsWith", "startsWith", "matches", "contains", "lessThan", "lessThanOrEqual", "greaterThan", "greaterThanOrEqual", "before", "after", "semVerEqual", "semVerLessThan", "semVerGreaterThan"]
def specialOperators : List String := ["matchAny:in", "clauseMatchesContext:segmentMatch"]

def errorTypes : List String := ["badAttrRefError", "badVariationError", "circularPrereqReferenceError", "circularSegmentReferenceError", "emptyAttrRefError", "emptyRolloutError", "malformedSegmentError"]
def errorKinds : List (String × String) := [("badAttrRefError", "EvalErrorMalformedFlag"), ("badVariationError", "EvalErrorMalformedFlag"), ("circularPrereqReferenceError", "EvalErrorMalformedFlag"), ("emptyAttrRefError", "EvalErrorMalformedFlag"), ("emptyRolloutError", "EvalErrorMalformedFlag"), ("malformedSegmentError", "EvalErrorMalformedFlag")]
def errorKindFallback : String := "EvalErrorException"
def evaluateFirstCheck : String := "(ldcontext.Context).Err() != nil => EvalErrorUserNotSpecified"

def statusPriority : List (String × String) := [("BigSegmentsStale", "1"), ("BigSegmentsStoreError", "2"), ("BigSegmentsNotConfigured", "3"), ("default", "0")]
def bigSegmentRefFormat : String := "%s.g%d <- (*ldmodel.Segment).Key, (*ldmodel.Segment).Generation.IntValue()"

def stackParams : List (String × String) := [("checkPrerequisites", "evaluationStack"), ("clauseMatchesContext", "evaluationStack"), ("evaluate", "evaluationStack"), ("evaluatePrerequisite", "evaluationStack"), ("ruleMatchesContext", "evaluationStack"), ("segmentContainsContext", "evaluationStack"), ("segmentRuleMatchesContext", "evaluationStack")]

def encoderProps : List (String × List (String × String)) := [
  ("marshalFeatureFlagToWriter", [("key", "always"), ("on", "always"), ("prerequisites", "always"), ("key", "always"), ("variation", "always"), ("targets", "always:writeTargets"), ("contextTargets", "always:writeTargets"), ("rules", "always"), ("id", "conditional"), ("trackEvents", "always"), ("fallthrough", "always"), ("offVariation", "always"), ("variations", "always"), ("clientSideAvailability", "conditional"), ("usingMobileKey", "conditional"), ("usingEnvironmentId", "conditional"), ("clientSide", "always"), ("salt", "always"), ("trackEvents", "always"), ("trackEventsFallthrough", "always"), ("debugEventsUntilDate", "always"), ("version", "always"), ("deleted", "always"), ("migration", "conditional"), ("checkRatio", "conditional"), ("samplingRatio", "conditional"), ("excludeFromSummaries", "conditional")]),
  ("writeTargets", [("contextKind", "conditional"), ("variation", "always"), ("values", "always:writeStringArray")]),
  ("marshalSegmentToWriter", [("key", "always"), ("included", "always:writeStringArray"), ("excluded", "always:writeStringArray"), ("includedContexts", "always:writeSegmentTargets"), ("excludedContexts", "always:writeSegmentTargets"), ("salt", "always"), ("rules", "always"), ("id", "always"), ("weight", "conditional"), ("bucketBy", "conditional"), ("rolloutContextKind", "conditional"), ("unbounded", "conditional"), ("unboundedContextKind", "conditional"), ("version", "always"), ("generation", "always"), ("deleted", "always")]),
  ("writeSegmentTargets", [("contextKind", "conditional"), ("values", "always:writeStringArray")]),
  ("writeVariationOrRolloutProperties", [("variation", "conditional"), ("rollout", "conditional"), ("kind", "conditional"), ("contextKind", "conditional"), ("variations", "conditional"), ("variation", "conditional"), ("weight", "conditional"), ("untracked", "conditional"), ("seed", "conditional"), ("bucketBy", "conditional")]),
  ("writeClauses", [("clauses", "always"), ("contextKind", "conditional"), ("attribute", "always"), ("op", "always"), ("values", "always"), ("negate", "always")])
]
def decoderProps : List (String × List (String × String)) := [
  ("readFeatureFlag", [("key", "String"), ("on", "Bool"), ("prerequisites", "readPrerequisites"), ("targets", "readTargets"), ("contextTargets", "readTargets"), ("rules", "readFlagRules"), ("fallthrough", "readVariationOrRollout"), ("offVariation", "ReadFromJSONReader"), ("variations", "readValueList"), ("clientSideAvailability", "readClientSideAvailability"), ("clientSide", "Bool"), ("salt", "String"), ("trackEvents", "Bool"), ("trackEventsFallthrough", "Bool"), ("debugEventsUntilDate", "Float64OrNull"), ("version", "Int"), ("deleted", "Bool"), ("excludeFromSummaries", "Bool"), ("samplingRatio", "Int"), ("migration", "readMigration")]),
  ("readPrerequisites", [("key", "String"), ("variation", "Int")]),
  ("readTargets", [("contextKind", "String"), ("values", "readStringList"), ("variation", "Int")]),
  ("readFlagRules", [("id", "String"), ("variation", "ReadFromJSONReader"), ("rollout", "readRollout"), ("clauses", "readClauses"), ("trackEvents", "Bool")]),
  ("readClauses", [("contextKind", "String"), ("attribute", "StringOrNull"), ("op", "String"), ("values", "readValueList"), ("negate", "Bool")]),
  ("readVariationOrRollout", [("variation", "ReadFromJSONReader"), ("rollout", "readRollout")]),
  ("readRollout", [("kind", "String"), ("contextKind", "String"), ("variations", "Array"), ("bucketBy", "StringOrNull"), ("seed", "IntOrNull")]),
  ("readRollout/1", [("variation", "Int"), ("weight", "Int"), ("untracked", "Bool")]),
  ("readClientSideAvailability", [("usingEnvironmentId", "Bool"), ("usingMobileKey", "Bool")]),
  ("readMigration", [("checkRatio", "Int")]),
  ("readSegment", [("key", "String"), ("version", "Int"), ("generation", "ReadFromJSONReader"), ("deleted", "Bool"), ("included", "readStringList"), ("excluded", "readStringList"), ("includedContexts", "readSegmentTargets"), ("excludedContexts", "readSegmentTargets"), ("rules", "ArrayOrNull"), ("salt", "String"), ("unbounded", "Bool"), ("unboundedContextKind", "String")]),
  ("readSegment/1", [("id", "String"), ("clauses", "readClauses"), ("weight", "IntOrNull"), ("bucketBy", "StringOrNull"), ("rolloutContextKind", "String")]),
  ("readSegmentTargets", [("contextKind", "String"), ("values", "readStringList")])
]
def decoderOpeners : List (String × String) := [("readFeatureFlag", "Object"), ("readPrerequisites", "ArrayOrNull Object"), ("readTargets", "ArrayOrNull Object"), ("readFlagRules", "ArrayOrNull Object"), ("readClauses", "ArrayOrNull Object"), ("readVariationOrRollout", "Object"), ("readRollout", "ObjectOrNull Array Object"), ("readClientSideAvailability", "ObjectOrNull"), ("readMigration", "ObjectOrNull"), ("readSegment", "Object ArrayOrNull Object"), ("readSegmentTargets", "ArrayOrNull Object"), ("readStringList", "ArrayOrNull"), ("readValueList", "ArrayOrNull")]
def entryPoints : List (String × String) := [("(*FeatureFlag).UnmarshalEasyJSON", "unmarshalFeatureFlagFromReader"), ("(*FeatureFlag).UnmarshalJSON", "unmarshalFeatureFlagFromBytes"), ("(*Segment).UnmarshalEasyJSON", "unmarshalSegmentFromReader"), ("(*Segment).UnmarshalJSON", "unmarshalSegmentFromBytes"), ("(FeatureFlag).MarshalEasyJSON", "marshalFeatureFlagToWriter"), ("(FeatureFlag).MarshalJSON", "marshalFeatureFlag"), ("(Segment).MarshalEasyJSON", "marshalSegmentToWriter"), ("(Segment).MarshalJSON", "marshalSegment"), ("(jsonDataModelSerialization).MarshalFeatureFlag", "marshalFeatureFlag"), ("(jsonDataModelSerialization).MarshalSegment", "marshalSegment"), ("(jsonDataModelSerialization).UnmarshalFeatureFlag", "unmarshalFeatureFlagFromBytes"), ("(jsonDataModelSerialization).UnmarshalSegment", "unmarshalSegmentFromBytes"), ("MarshalFeatureFlagToJSONWriter", "marshalFeatureFlagToWriter"), ("MarshalSegmentToJSONWriter", "marshalSegmentToWriter"), ("UnmarshalFeatureFlagFromJSONReader", "unmarshalFeatureFlagFromReader"), ("UnmarshalSegmentFromJSONReader", "unmarshalSegmentFromReader"), ("marshalFeatureFlag", "marshalFeatureFlagToWriter"), ("marshalFeatureFlagToWriter", ""), ("marshalSegment", "marshalSegmentToWriter"), ("marshalSegmentToWriter", ""), ("unmarshalFeatureFlagFromBytes", "unmarshalFeatureFlagFromReader"), ("unmarshalFeatureFlagFromReader", "readFeatureFlag PreprocessFlag"), ("unmarshalSegmentFromBytes", "unmarshalSegmentFromReader"), ("unmarshalSegmentFromReader", "readSegment PreprocessSegment")]

def packageVars : List String := ["ldmodel.EvaluatorAccessors : EvaluatorAccessorMethods", "ldmodel.TypeConversions : TypeConversionMethods"]
def sharedWrites : List String := [
  "evaluation.(evaluatorOptionBigSegmentProvider).apply: (*evaluator).bigSegmentProvider",
  "evaluation.(evaluatorOptionEnableSecondaryKey).apply: (*evaluator).enableSecondaryKey",
  "evaluation.(evaluatorOptionErrorLogger).apply: (*evaluator).errorLogger",
  "ldmodel.(*FeatureFlag).UnmarshalJSON: *(*FeatureFlag)",
  "ldmodel.(*Segment).UnmarshalJSON: *(*Segment)",
  "ldmodel.PreprocessFlag: (*FeatureFlag).Rules[].Clauses[].preprocessed",
  "ldmodel.PreprocessFlag: (*FeatureFlag).Targets[].preprocessed.valuesMap",
  "ldmodel.PreprocessSegment: (*Segment).ExcludedContexts[].preprocessed.valuesMap",
  "ldmodel.PreprocessSegment: (*Segment).IncludedContexts[].preprocessed.valuesMap",
  "ldmodel.PreprocessSegment: (*Segment).Rules[].Clauses[].preprocessed",
  "ldmodel.PreprocessSegment: (*Segment).preprocessed",
  "ldmodel.readClauses: *(*[]Clause)",
  "ldmodel.readFeatureFlag: (*FeatureFlag).ClientSideAvailability",
  "ldmodel.readFeatureFlag: (*FeatureFlag).DebugEventsUntilDate",
  "ldmodel.readFeatureFlag: (*FeatureFlag).Deleted",
  "ldmodel.readFeatureFlag: (*FeatureFlag).ExcludeFromSummaries",
  "ldmodel.readFeatureFlag: (*FeatureFlag).Key",
  "ldmodel.readFeatureFlag: (*FeatureFlag).On",
  "ldmodel.readFeatureFlag: (*FeatureFlag).Salt",
  "ldmodel.readFeatureFlag: (*FeatureFlag).SamplingRatio",
  "ldmodel.readFeatureFlag: (*FeatureFlag).TrackEvents",
  "ldmodel.readFeatureFlag: (*FeatureFlag).TrackEventsFallthrough",
  "ldmodel.readFeatureFlag: (*FeatureFlag).Version",
  "ldmodel.readFlagRules: *(*[]FlagRule)",
  "ldmodel.readMigration: (*FeatureFlag).Migration",
  "ldmodel.readMigration: (*FeatureFlag).Migration.CheckRatio",
  "ldmodel.readPrerequisites: *(*[]Prerequisite)",
  "ldmodel.readRollout: (*Rollout).ContextKind",
  "ldmodel.readRollout: (*Rollout).Kind",
  "ldmodel.readRollout: (*Rollout).Seed",
  "ldmodel.readRollout: (*Rollout).Variations",
  "ldmodel.readRollout: *(*Rollout)",
  "ldmodel.readSegment: (*Segment).Deleted",
  "ldmodel.readSegment: (*Segment).Key",
  "ldmodel.readSegment: (*Segment).Rules",
  "ldmodel.readSegment: (*Segment).Salt",
  "ldmodel.readSegment: (*Segment).Unbounded",
  "ldmodel.readSegment: (*Segment).UnboundedContextKind",
  "ldmodel.readSegment: (*Segment).Version",
  "ldmodel.readSegmentTargets: *(*[]SegmentTarget)",
  "ldmodel.readTargets: *(*[]Target)"
]
def stateFields : List String := ["evaluator.dataProvider : DataProvider", "evaluator.bigSegmentProvider : BigSegmentProvider", "evaluator.errorLogger : ldlog.BaseLogger", "evaluator.enableSecondaryKey : bool", "evaluationScope.owner : *evaluator", "evaluationScope.flag : *ldmodel.FeatureFlag", "evaluationScope.context : ldcontext.Context", "evaluationScope.prerequisiteFlagEventRecorder : PrerequisiteFlagEventRecorder", "evaluationScope.bigSegmentsMemberships : map[string]BigSegmentMembership", "evaluationScope.bigSegmentsStatus : ldreason.BigSegmentsStatus"]

end LD.Expected

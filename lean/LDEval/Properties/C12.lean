/-
  C12 — Evaluation is a pure function: deterministic, stateless, non-mutating.

  "The result and the recorded events depend only on the flag, the context, what the data and
  big-segment stores return during that call, and the evaluator's construction options: repeating
  a call gives an identical result, and after any history of earlier evaluations … an evaluator
  answers exactly as a freshly constructed one would. Evaluation never modifies the flags,
  segments or context it is given … and the evaluator retains nothing between calls."

  The evaluator is modelled as a state machine whose whole state is its construction options.
  In the model the theorems are immediate — `evaluate` is a function and `step` returns its state
  unchanged; that the *code* refines this machine is the content of the property and is what the
  differential history check (harness: histories against one real evaluator, deep input snapshots)
  and the write-set obligation establish.  The non-trivial model-level facts are that the per-call
  state (cache, status, logs, …) never influences the decision (`state_independent`) and that the
  logger/recorder options never influence it either.
-/
import LDEval.Proofs.Refine
import LDEval.Proofs.AuditPurity

namespace LD.C12

/-- Everything a call receives from outside the evaluator. -/
structure Call where
  store : Store
  bs : Option BSProvider
  ctx : Ctx
  rx : RegexOracle
  flag : Flag

def mkEnv (o : Opts) (c : Call) : Env :=
  { opts := o, store := c.store, bs := c.bs, ctx := c.ctx, rx := c.rx }

/-- One call: the evaluator's state (its options) is returned unchanged. -/
def step (o : Opts) (c : Call) : Opts × Obs := (o, evaluate (mkEnv o c) c.flag)

/-- A history of calls against one evaluator. -/
def run (o : Opts) : List Call → Opts × List Obs
  | [] => (o, [])
  | c :: cs =>
    let r := step o c
    let rest := run r.1 cs
    (rest.1, r.2 :: rest.2)

theorem state_unchanged (o : Opts) (cs : List Call) : (run o cs).1 = o := by
  induction cs with
  | nil => rfl
  | cons c cs ih => simp [run, step, ih]

theorem run_outputs (o : Opts) (cs : List Call) :
    (run o cs).2 = cs.map fun c => evaluate (mkEnv o c) c.flag := by
  induction cs with
  | nil => rfl
  | cons c cs ih => simp [run, step, ih]

/-- After any history, the n-th answer is what a freshly constructed evaluator gives for that call. -/
theorem history_independent (o : Opts) (hist : List Call) (c : Call) :
    (run o (hist ++ [c])).2.getLast? = (run o [c]).2.head? := by
  simp [run_outputs]

/-- Repeating a call gives an identical observation. -/
theorem repeat_identical (o : Opts) (c : Call) :
    (run o [c, c]).2 = [evaluate (mkEnv o c) c.flag, evaluate (mkEnv o c) c.flag] := by
  simp [run, step]

/-- The decision never depends on what an evaluation has cached, logged or recorded so far. -/
theorem state_independent (sf n : Nat) (env : Env) (f : Flag) (chain : List String) (st₁ st₂ : St)
    (h₁ : Consistent env st₁) (h₂ : Consistent env st₂) :
    (evalFlag sf n env f chain st₁).1.toSpec = (evalFlag sf n env f chain st₂).1.toSpec :=
  evalFlag_state_independent sf n env f chain st₁ st₂ h₁ h₂

/-- Of the construction options only the secondary-key switch can influence the decision. -/
theorem only_secondary_key_matters (sf n : Nat) (e₁ e₂ : Env) (h : EnvAgree e₁ e₂) (f : Flag)
    (chain : List String) : Spec.evalFlag sf n e₁ f chain = Spec.evalFlag sf n e₂ f chain := by
  rw [Spec.evalFlag_congr h]

-- Non-vacuity: a two-call history.
example (o : Opts) (c₁ c₂ : Call) :
    (run o [c₁, c₂]).2 = [evaluate (mkEnv o c₁) c₁.flag, evaluate (mkEnv o c₂) c₂.flag] := by
  simp [run, step]

/-! ## Strengthened statements (theorem audit) -/

/-! What the statements below do NOT establish: that the Go code leaves its inputs unmodified and
keeps nothing between calls.  Over immutable values this is not expressible at all; it rests on the
harness (deep input snapshots, histories against one real evaluator) and on the write-set obligation.
What they DO establish, about the model's `evaluate`: the observation depends on the world (data
store, big-segment provider) only through the ANSWERS to the keys that are actually looked up, and
not on the amount of fuel — so any two worlds that answer those keys alike are indistinguishable,
whatever else they contain and however the world changed between calls. -/

/-- The same call against another data store and big-segment provider. -/
def Call.withWorld (c : Call) (s : Store) (b : Option BSProvider) : Call :=
  { c with store := s, bs := b }

theorem mkEnv_withWorld (o : Opts) (c : Call) (s : Store) (b : Option BSProvider) :
    mkEnv o (c.withWorld s b) = (mkEnv o c).with s b := rfl

/-- **The observation is a function of the answers actually used.**  The observation of a call is
determined by the options, the context, the flag, the regex oracle and the ANSWERS of the data store
and the big-segment provider to the keys the call looks up (all of which it records).  This is
stronger than "same store ⇒ same result": for the Go code, nothing else of the `DataProvider` object —
other entries, their number or order, internal fields — and nothing else of the
`BigSegmentProvider` can influence an evaluation. -/
theorem observation_extensional (o : Opts) (c : Call) (s : Store) (b : Option BSProvider)
    (hf : ∀ k ∈ (evaluate (mkEnv o c) c.flag).flagLookups, s.findFlag k = c.store.findFlag k)
    (hs : ∀ k ∈ (evaluate (mkEnv o c) c.flag).segLookups,
      s.findSegment k = c.store.findSegment k)
    (hn : b.isSome = c.bs.isSome)
    (hb : ∀ k ∈ (evaluate (mkEnv o c) c.flag).bsQueries, ∀ p₁ p₂, c.bs = some p₁ → b = some p₂ →
      p₂.get k = p₁.get k) :
    evaluate (mkEnv o (c.withWorld s b)) c.flag = evaluate (mkEnv o c) c.flag :=
  evaluate_store_ext (mkEnv o c) s b c.flag hf hs hn hb

/-- The amount of fuel is irrelevant above the amount `evaluate` hands out: the run (result and
whole per-call state) is the same.  The Go code has no fuel; this says the model's bound is not
observable (general observation G2 of the audit). -/
theorem fuel_irrelevant (o : Opts) (c : Call) {sf n : Nat} (hs : segFuel c.store ≤ sf)
    (hn : flagFuel c.store ≤ n) :
    evalFlag sf n (mkEnv o c) c.flag [] {} =
      evalFlag (segFuel c.store) (flagFuel c.store) (mkEnv o c) c.flag [] {} :=
  evalFlag_fuel_irrelevant (mkEnv o c) c.flag hs hn

/-- Entries filed under keys that the call never looks up — put before or after the existing
entries of the flag table and of the segment table — change nothing of the observation. -/
theorem unrelated_entries_irrelevant (o : Opts) (c : Call)
    (preF postF : List (String × Flag)) (preS postS : List (String × Segment))
    (hF : ∀ k ∈ (evaluate (mkEnv o c) c.flag).flagLookups, ∀ x ∈ preF ++ postF, x.1 ≠ k)
    (hS : ∀ k ∈ (evaluate (mkEnv o c) c.flag).segLookups, ∀ x ∈ preS ++ postS, x.1 ≠ k) :
    evaluate (mkEnv o (c.withWorld
      { flags := preF ++ c.store.flags ++ postF, segments := preS ++ c.store.segments ++ postS }
      c.bs)) c.flag = evaluate (mkEnv o c) c.flag :=
  observation_extensional o c _ c.bs
    (fun k hk => Store.findFlag_surround c.store preF postF _ k (hF k hk))
    (fun k hk => Store.findSegment_surround c.store preS postS _ k (hS k hk))
    rfl (fun _ _ p₁ p₂ h₁ h₂ => by rw [h₁] at h₂; cases h₂; rfl)

/-- The converse direction: entries under keys the call never looks up can be REMOVED.  The
hypotheses are about the lookups of the call against the larger store. -/
theorem unrelated_entries_removable (o : Opts) (c : Call) (fl : List (String × Flag))
    (sg : List (String × Segment))
    (preF postF : List (String × Flag)) (preS postS : List (String × Segment))
    (hstore : c.store = { flags := preF ++ fl ++ postF, segments := preS ++ sg ++ postS })
    (hF : ∀ k ∈ (evaluate (mkEnv o c) c.flag).flagLookups, ∀ x ∈ preF ++ postF, x.1 ≠ k)
    (hS : ∀ k ∈ (evaluate (mkEnv o c) c.flag).segLookups, ∀ x ∈ preS ++ postS, x.1 ≠ k) :
    evaluate (mkEnv o (c.withWorld { flags := fl, segments := sg } c.bs)) c.flag =
      evaluate (mkEnv o c) c.flag :=
  observation_extensional o c _ c.bs
    (fun k hk => by
      rw [hstore]
      exact (Store.findFlag_surround { flags := fl, segments := sg } preF postF _ k
        (hF k hk)).symm)
    (fun k hk => by
      rw [hstore]
      exact (Store.findSegment_surround { flags := fl, segments := sg } preS postS _ k
        (hS k hk)).symm)
    rfl (fun _ _ p₁ p₂ h₁ h₂ => by rw [h₁] at h₂; cases h₂; rfl)

/-! ### A concrete store: a flag with one prerequisite, and an unrelated entry -/

def exGate : Flag :=
  { key := "gate", on := true, fallthrough := { variation := some 0 }, variations := [.bool true] }
def exOther : Flag :=
  { key := "other", on := true, fallthrough := { variation := some 0 }, variations := [.num 7] }
def exOther' : Flag :=
  { key := "other", on := false, offVariation := some 0, variations := [.str "changed"] }
def exFeature : Flag :=
  { key := "feature", on := true, prerequisites := [⟨"gate", 0⟩],
    fallthrough := { variation := some 1 }, variations := [.bool false, .bool true] }
def exCtx : Ctx := .single { kind := "user", key := "u" }
def exCall : Call :=
  { store := { flags := [("gate", exGate), ("other", exOther)] }, bs := none, ctx := exCtx,
    rx := fun _ _ => none, flag := exFeature }

/-- The call looks up exactly the prerequisite, finds it, and falls through. -/
theorem exCall_obs :
    (evaluate (mkEnv {} exCall) exFeature).flagLookups = ["gate"] ∧
    (evaluate (mkEnv {} exCall) exFeature).segLookups = [] ∧
    (evaluate (mkEnv {} exCall) exFeature).bsQueries = [] ∧
    (evaluate (mkEnv {} exCall) exFeature).result.detail.reason = Reason.fallthrough ∧
    (evaluate (mkEnv {} exCall) exFeature).result.detail.index = some 1 ∧
    (evaluate (mkEnv {} exCall) exFeature).events.length = 1 := by decide

theorem exCall_flagLookups :
    (evaluate (mkEnv {} exCall) exCall.flag).flagLookups = ["gate"] := exCall_obs.1
theorem exCall_segLookups : (evaluate (mkEnv {} exCall) exCall.flag).segLookups = [] :=
  exCall_obs.2.1
theorem exCall_bsQueries : (evaluate (mkEnv {} exCall) exCall.flag).bsQueries = [] :=
  exCall_obs.2.2.1

-- Non-vacuity of `observation_extensional`: the unrelated entry is CHANGED and moved to the front.
example :
    evaluate (mkEnv {} (exCall.withWorld { flags := [("other", exOther'), ("gate", exGate)] } none))
      exFeature = evaluate (mkEnv {} exCall) exFeature :=
  observation_extensional {} exCall _ none
    (by intro k hk; rw [exCall_flagLookups] at hk; simp at hk; subst hk; rfl)
    (by intro k hk; rw [exCall_segLookups] at hk; simp at hk)
    rfl
    (by intro k hk; rw [exCall_bsQueries] at hk; simp at hk)

-- … and the hypothesis cannot be dropped: changing the answer to the looked-up key changes the result.
example :
    (evaluate (mkEnv {} (exCall.withWorld { flags := [("other", exOther)] } none))
      exFeature).result.detail.reason ≠ (evaluate (mkEnv {} exCall) exFeature).result.detail.reason := by
  decide

-- Non-vacuity of `unrelated_entries_irrelevant`: entries under "x" and "y" around the two entries.
example :
    evaluate (mkEnv {} (exCall.withWorld
      { flags := [("x", exOther')] ++ exCall.store.flags ++ [("y", exFeature)],
        segments := [] ++ exCall.store.segments ++ [] } exCall.bs)) exFeature =
      evaluate (mkEnv {} exCall) exFeature :=
  unrelated_entries_irrelevant {} exCall [("x", exOther')] [("y", exFeature)] [] []
    (by intro k hk; rw [exCall_flagLookups] at hk; simp at hk; subst hk; decide)
    (by intro k hk; rw [exCall_segLookups] at hk; simp at hk)

-- Non-vacuity of `unrelated_entries_removable`: the entry "other" is removed.
example :
    evaluate (mkEnv {} (exCall.withWorld { flags := [("gate", exGate)], segments := [] } exCall.bs))
      exFeature = evaluate (mkEnv {} exCall) exFeature :=
  unrelated_entries_removable {} exCall [("gate", exGate)] [] [] [("other", exOther)] [] [] rfl
    (by intro k hk; rw [exCall_flagLookups] at hk; simp at hk; subst hk; decide)
    (by intro k hk; rw [exCall_segLookups] at hk; simp at hk)

/-! ### Histories in which the world changes between calls -/

/-- The data store and the big-segment provider of one moment. -/
abbrev World := Store × Option BSProvider

/-- What happens to an evaluator over time: the world is replaced (`update`, e.g. a new flag
version arrives, a segment is deleted, the big-segment store goes away) or `Evaluate` is called. -/
inductive Action where
  | update (s : Store) (b : Option BSProvider)
  | call (ctx : Ctx) (rx : RegexOracle) (flag : Flag)

def envAt (o : Opts) (w : World) (ctx : Ctx) (rx : RegexOracle) : Env :=
  { opts := o, store := w.1, bs := w.2, ctx := ctx, rx := rx }

/-- One action: an update replaces the world; a call evaluates against the world of that moment and
returns the evaluator's state (its options) and the world unchanged. -/
def stepAction (σ : Opts × World) : Action → (Opts × World) × Option Obs
  | .update s b => ((σ.1, (s, b)), none)
  | .call ctx rx f => (σ, some (evaluate (envAt σ.1 σ.2 ctx rx) f))

def runFrom (σ : Opts × World) : List Action → (Opts × World) × List Obs
  | [] => (σ, [])
  | a :: as =>
    let r := stepAction σ a
    let rest := runFrom r.1 as
    (rest.1, r.2.toList ++ rest.2)

/-- A history of updates and calls against one evaluator, starting in world `w`. -/
def runActions (o : Opts) (w : World) (as : List Action) : (Opts × World) × List Obs :=
  runFrom (o, w) as

/-- The world after a history: the last update, if any. -/
def worldAfter (w : World) : List Action → World
  | [] => w
  | .update s b :: as => worldAfter (s, b) as
  | .call _ _ _ :: as => worldAfter w as

/-- Every call of a history paired with the world of its moment. -/
def callsAt (w : World) : List Action → List (World × Ctx × RegexOracle × Flag)
  | [] => []
  | .update s b :: as => callsAt (s, b) as
  | .call ctx rx f :: as => (w, ctx, rx, f) :: callsAt w as

theorem callsAt_append (w : World) (as bs : List Action) :
    callsAt w (as ++ bs) = callsAt w as ++ callsAt (worldAfter w as) bs := by
  induction as generalizing w with
  | nil => rfl
  | cons a as ih => cases a <;> simp [callsAt, worldAfter, ih]

theorem worldAfter_append (w : World) (as bs : List Action) :
    worldAfter w (as ++ bs) = worldAfter (worldAfter w as) bs := by
  induction as generalizing w with
  | nil => rfl
  | cons a as ih => cases a <;> simp [worldAfter, ih]

/-- The final state of a history: the options as constructed, the world of the last update. -/
theorem runActions_state (o : Opts) (w : World) (as : List Action) :
    (runActions o w as).1 = (o, worldAfter w as) := by
  unfold runActions
  induction as generalizing w with
  | nil => rfl
  | cons a as ih => cases a <;> simp [runFrom, stepAction, worldAfter, ih]

/-- The options are never changed, by calls or by updates of the world. -/
theorem runActions_opts (o : Opts) (w : World) (as : List Action) : (runActions o w as).1.1 = o := by
  rw [runActions_state]

/-- Call by call, the observations of a history are the FRESH `evaluate` on the world of that
moment: nothing of earlier calls or earlier worlds enters. -/
theorem runActions_outputs (o : Opts) (w : World) (as : List Action) :
    (runActions o w as).2 =
      (callsAt w as).map fun c => evaluate (envAt o c.1 c.2.1 c.2.2.1) c.2.2.2 := by
  unfold runActions
  induction as generalizing w with
  | nil => rfl
  | cons a as ih => cases a <;> simp [runFrom, stepAction, callsAt, ih]

theorem runActions_append (o : Opts) (w : World) (as bs : List Action) :
    (runActions o w (as ++ bs)).2 = (runActions o w as).2 ++ (runActions o (worldAfter w as) bs).2 := by
  simp [runActions_outputs, callsAt_append]

/-- After ANY history of calls and updates, a call is answered exactly as a freshly constructed
evaluator would answer it in the world the history has left. -/
theorem history_independent_changing (o : Opts) (w : World) (hist : List Action) (ctx : Ctx)
    (rx : RegexOracle) (f : Flag) :
    (runActions o w (hist ++ [.call ctx rx f])).2 =
      (runActions o w hist).2 ++ [evaluate (envAt o (worldAfter w hist) ctx rx) f] := by
  rw [runActions_append]; rfl

/-- Two consecutive identical calls with no update between them give identical observations,
after any history. -/
theorem repeat_identical_changing (o : Opts) (w : World) (hist : List Action) (ctx : Ctx)
    (rx : RegexOracle) (f : Flag) :
    (runActions o w (hist ++ [.call ctx rx f, .call ctx rx f])).2 =
      (runActions o w hist).2 ++ [evaluate (envAt o (worldAfter w hist) ctx rx) f,
        evaluate (envAt o (worldAfter w hist) ctx rx) f] := by
  rw [runActions_append]; rfl

/-- **An update outside the lookups is invisible.**  If, between two identical calls, the world is
replaced by one that answers every key the FIRST call looked up as before (and still has, or still
lacks, a big-segment provider), the second observation equals the first — result, events, log
lines, lookups, queries.  For the Go code: a data-store update that touches only flags and segments
an evaluation does not reach cannot change that evaluation. -/
theorem update_outside_lookups_invisible (o : Opts) (w : World) (hist : List Action) (ctx : Ctx)
    (rx : RegexOracle) (f : Flag) (s : Store) (b : Option BSProvider)
    (hf : ∀ k ∈ (evaluate (envAt o (worldAfter w hist) ctx rx) f).flagLookups,
      s.findFlag k = (worldAfter w hist).1.findFlag k)
    (hs : ∀ k ∈ (evaluate (envAt o (worldAfter w hist) ctx rx) f).segLookups,
      s.findSegment k = (worldAfter w hist).1.findSegment k)
    (hn : b.isSome = (worldAfter w hist).2.isSome)
    (hb : ∀ k ∈ (evaluate (envAt o (worldAfter w hist) ctx rx) f).bsQueries, ∀ p₁ p₂,
      (worldAfter w hist).2 = some p₁ → b = some p₂ → p₂.get k = p₁.get k) :
    (runActions o w (hist ++ [.call ctx rx f, .update s b, .call ctx rx f])).2 =
      (runActions o w hist).2 ++ [evaluate (envAt o (worldAfter w hist) ctx rx) f,
        evaluate (envAt o (worldAfter w hist) ctx rx) f] := by
  rw [runActions_append]
  have h := evaluate_store_ext (envAt o (worldAfter w hist) ctx rx) s b f hf hs hn hb
  show _ ++ [evaluate (envAt o (worldAfter w hist) ctx rx) f,
    evaluate ((envAt o (worldAfter w hist) ctx rx).with s b) f] = _
  rw [h]

-- Non-vacuity of `update_outside_lookups_invisible`: after a history (an unrelated call, an update),
-- the entry "other" is changed and a flag "new" is added between two identical calls.
example :
    (runActions {} ({}, none)
      ([.call exCtx (fun _ _ => none) exOther, .update exCall.store none] ++
        [.call exCtx (fun _ _ => none) exFeature,
         .update { flags := [("new", exOther), ("gate", exGate), ("other", exOther')] } none,
         .call exCtx (fun _ _ => none) exFeature])).2 =
      (runActions {} ({}, none)
        [.call exCtx (fun _ _ => none) exOther, .update exCall.store none]).2 ++
      [evaluate (mkEnv {} exCall) exFeature, evaluate (mkEnv {} exCall) exFeature] :=
  update_outside_lookups_invisible {} ({}, none) _ exCtx (fun _ _ => none) exFeature _ none
    (by intro k hk
        change k ∈ (evaluate (mkEnv {} exCall) exCall.flag).flagLookups at hk
        rw [exCall_flagLookups] at hk; simp at hk; subst hk; rfl)
    (by intro k hk
        change k ∈ (evaluate (mkEnv {} exCall) exCall.flag).segLookups at hk
        rw [exCall_segLookups] at hk; simp at hk)
    rfl
    (by intro k hk
        change k ∈ (evaluate (mkEnv {} exCall) exCall.flag).bsQueries at hk
        rw [exCall_bsQueries] at hk; simp at hk)

-- … and an update that DOES change a looked-up answer is visible (the prerequisite disappears).
example :
    ((runActions {} (exCall.store, none)
      [.call exCtx (fun _ _ => none) exFeature, .update { flags := [("other", exOther)] } none,
       .call exCtx (fun _ _ => none) exFeature]).2.map (·.result.detail.reason.kind)) =
      [.fallthrough, .prereqFailed] := by decide

-- A history with a changing world: three calls, two updates, three observations.
example :
    ((runActions {} ({}, none)
      [.call exCtx (fun _ _ => none) exFeature, .update exCall.store none,
       .call exCtx (fun _ _ => none) exFeature, .update {} none,
       .call exCtx (fun _ _ => none) exFeature]).2.map (·.flagLookups)) =
      [["gate"], ["gate"], ["gate"]] ∧
    ((runActions {} ({}, none)
      [.call exCtx (fun _ _ => none) exFeature, .update exCall.store none,
       .call exCtx (fun _ _ => none) exFeature, .update {} none,
       .call exCtx (fun _ _ => none) exFeature]).2.map (·.result.detail.reason.kind)) =
      [.prereqFailed, .fallthrough, .prereqFailed] := by decide

end LD.C12

/-
  C12 — Evaluation is a pure function: deterministic, stateless, non-mutating.

  "The result and the recorded events depend only on the flag, the context, what the data and
  big-segment stores return during that call, and the evaluator's construction options: repeating
  a call gives an identical result, and after any history of earlier evaluations … an evaluator
  answers exactly as a freshly constructed one would. Evaluation never modifies the flags,
  segments or context it is given … and the evaluator retains nothing between calls."

  The evaluator is modelled as a state machine whose whole state is its construction options.
  In the model the theorems are immediate — `evaluate` is a function and `step` returns its state
  unchanged; that the *code* refines this machine is the content of the property and is what the
  differential history check (harness: histories against one real evaluator, deep input snapshots)
  and the write-set obligation establish.  The non-trivial model-level facts are that the per-call
  state (cache, status, logs, …) never influences the decision (`state_independent`) and that the
  logger/recorder options never influence it either.
-/
import LDEval.Proofs.Refine

namespace LD.C12

/-- Everything a call receives from outside the evaluator. -/
structure Call where
  store : Store
  bs : Option BSProvider
  ctx : Ctx
  rx : RegexOracle
  flag : Flag

def mkEnv (o : Opts) (c : Call) : Env :=
  { opts := o, store := c.store, bs := c.bs, ctx := c.ctx, rx := c.rx }

/-- One call: the evaluator's state (its options) is returned unchanged. -/
def step (o : Opts) (c : Call) : Opts × Obs := (o, evaluate (mkEnv o c) c.flag)

/-- A history of calls against one evaluator. -/
def run (o : Opts) : List Call → Opts × List Obs
  | [] => (o, [])
  | c :: cs =>
    let r := step o c
    let rest := run r.1 cs
    (rest.1, r.2 :: rest.2)

theorem state_unchanged (o : Opts) (cs : List Call) : (run o cs).1 = o := by
  induction cs with
  | nil => rfl
  | cons c cs ih => simp [run, step, ih]

theorem run_outputs (o : Opts) (cs : List Call) :
    (run o cs).2 = cs.map fun c => evaluate (mkEnv o c) c.flag := by
  induction cs with
  | nil => rfl
  | cons c cs ih => simp [run, step, ih]

/-- After any history, the n-th answer is what a freshly constructed evaluator gives for that call. -/
theorem history_independent (o : Opts) (hist : List Call) (c : Call) :
    (run o (hist ++ [c])).2.getLast? = (run o [c]).2.head? := by
  simp [run_outputs]

/-- Repeating a call gives an identical observation. -/
theorem repeat_identical (o : Opts) (c : Call) :
    (run o [c, c]).2 = [evaluate (mkEnv o c) c.flag, evaluate (mkEnv o c) c.flag] := by
  simp [run, step]

/-- The decision never depends on what an evaluation has cached, logged or recorded so far. -/
theorem state_independent (sf n : Nat) (env : Env) (f : Flag) (chain : List String) (st₁ st₂ : St)
    (h₁ : Consistent env st₁) (h₂ : Consistent env st₂) :
    (evalFlag sf n env f chain st₁).1.toSpec = (evalFlag sf n env f chain st₂).1.toSpec :=
  evalFlag_state_independent sf n env f chain st₁ st₂ h₁ h₂

/-- Of the construction options only the secondary-key switch can influence the decision. -/
theorem only_secondary_key_matters (sf n : Nat) (e₁ e₂ : Env) (h : EnvAgree e₁ e₂) (f : Flag)
    (chain : List String) : Spec.evalFlag sf n e₁ f chain = Spec.evalFlag sf n e₂ f chain := by
  rw [Spec.evalFlag_congr h]

-- Non-vacuity: a two-call history.
example (o : Opts) (c₁ c₂ : Call) :
    (run o [c₁, c₂]).2 = [evaluate (mkEnv o c₁) c₁.flag, evaluate (mkEnv o c₂) c₂.flag] := by
  simp [run, step]

end LD.C12

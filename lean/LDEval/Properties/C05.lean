/-
  C05 — Segment membership semantics (regular segments).

  "A context is in a regular segment iff its key is in an included list for one of its kinds;
  otherwise it is not if its key is in an excluded list; otherwise iff some rule has all clauses
  matching and, when the rule is weighted, the context's bucket for that segment is below
  weight/100000 (a weighted rule whose rollout kind is absent from the context does not match).
  A segment-match clause is true iff the context is in at least one referenced segment that exists
  in the store (missing segments and non-string keys are non-matches), negation inverts exactly
  that, and segment rules may themselves reference segments.
  [Data-model hypothesis: per-kind included/excluded lists never carry the default kind `user`.]"

  Stated on the stateless specification `LD.Spec` (which `Proofs/Refine.lean` shows the
  code-shaped model computes).  `rec` is the membership function used for segments referenced
  from rules (open recursion), so "segment rules may themselves reference segments" is the fact
  that `Spec.segRules` → `Spec.clausesMatch` → `Spec.clauseMatch` → `Spec.segMatchValues` calls
  `rec` (see `segment_clause_in_rule`).
-/
import LDEval.Properties.C14

namespace LD.C05

/-! ### 1. The included / excluded lists -/

/-- The context's `user`-kind key is in the plain list `l`. -/
def inUserList (ctx : Ctx) (l : List String) : Prop :=
  ∃ k, ctx.keyByKind "user" = some k ∧ k ∈ l

/-- The context's key for some target's kind is in that target's list. -/
def inKindLists (ctx : Ctx) (ts : List SegmentTarget) : Prop :=
  ∃ t ∈ ts, ∃ k, ctx.keyByKind t.contextKind = some k ∧ k ∈ t.values

def Included (ctx : Ctx) (s : Segment) : Prop :=
  inUserList ctx s.included ∨ inKindLists ctx s.includedContexts

def Excluded (ctx : Ctx) (s : Segment) : Prop :=
  inUserList ctx s.excluded ∨ inKindLists ctx s.excludedContexts

theorem segTargetMatch_plain (ctx : Ctx) (t : SegmentTarget) (h : t.pre = none) :
    segTargetMatch ctx t = true ↔ ∃ k, ctx.keyByKind t.contextKind = some k ∧ k ∈ t.values := by
  unfold segTargetMatch SegmentTarget.findKey findKey
  cases ctx.keyByKind t.contextKind <;> simp [h]

theorem any_segTargetMatch_plain (ctx : Ctx) (ts : List SegmentTarget) (h : ∀ t ∈ ts, t.pre = none) :
    ts.any (segTargetMatch ctx) = true ↔ inKindLists ctx ts := by
  simp only [List.any_eq_true, inKindLists]
  constructor
  · rintro ⟨t, ht, hm⟩; exact ⟨t, ht, (segTargetMatch_plain ctx t (h t ht)).1 hm⟩
  · rintro ⟨t, ht, hm⟩; exact ⟨t, ht, (segTargetMatch_plain ctx t (h t ht)).2 hm⟩

/-- A single-kind `user` context has no individual context of any other kind. -/
theorem keyByKind_none_of_user (ctx : Ctx) (hk : ctx.kind = "user") (k : String) (h1 : k ≠ "")
    (h2 : k ≠ "user") : ctx.keyByKind k = none := by
  cases ctx with
  | invalid => rfl
  | multi cs => simp [Ctx.kind] at hk
  | single sc =>
    simp only [Ctx.kind] at hk
    simp [Ctx.keyByKind, Ctx.byKind, Ctx.individuals, normKind, h1, hk, Ne.symm h2]

/-- Under the data-model hypothesis the per-kind lists cannot match a single-kind `user` context
(which is exactly the case in which the code skips them). -/
theorem inKindLists_false_of_user (ctx : Ctx) (hk : ctx.kind = "user") (ts : List SegmentTarget)
    (hdm : ∀ t ∈ ts, t.contextKind ≠ "" ∧ t.contextKind ≠ "user") : ¬ inKindLists ctx ts := by
  rintro ⟨t, ht, k, hkk, _⟩
  rw [keyByKind_none_of_user ctx hk t.contextKind (hdm t ht).1 (hdm t ht).2] at hkk
  cases hkk

/-- The four list checks of a segment with plain lists, under the data-model hypothesis. -/
theorem lists_spec (ctx : Ctx) (s : Segment) (hpre : s.pre = {})
    (hinc : ∀ t ∈ s.includedContexts, t.pre = none) (hexc : ∀ t ∈ s.excludedContexts, t.pre = none)
    (hdm : ∀ t ∈ s.includedContexts ++ s.excludedContexts,
      t.contextKind ≠ "" ∧ t.contextKind ≠ "user") :
    (segLists ctx s = some true ↔ Included ctx s) ∧
    (segLists ctx s = some false ↔ ¬ Included ctx s ∧ Excluded ctx s) ∧
    (segLists ctx s = none ↔ ¬ Included ctx s ∧ ¬ Excluded ctx s) := by
  have hB1 := any_segTargetMatch_plain ctx _ hinc
  have hB2 := any_segTargetMatch_plain ctx _ hexc
  have hK1 : ctx.kind = "user" → ¬ inKindLists ctx s.includedContexts := fun hk =>
    inKindLists_false_of_user ctx hk _ (fun t ht => hdm t (by simp [ht]))
  have hK2 : ctx.kind = "user" → ¬ inKindLists ctx s.excludedContexts := fun hk =>
    inKindLists_false_of_user ctx hk _ (fun t ht => hdm t (by simp [ht]))
  unfold segLists Included Excluded inUserList
  simp only [hpre, findKey, defaultKind]
  by_cases hk : ctx.kind = "user"
  · have h2 := hK1 hk
    have h4 := hK2 hk
    cases hdk : ctx.keyByKind "user" with
    | none => simp [hk, h2, h4]
    | some k =>
      by_cases h1 : k ∈ s.included <;> by_cases h3 : k ∈ s.excluded <;> simp [hk, h1, h2, h3, h4]
  · cases hdk : ctx.keyByKind "user" with
    | none =>
      by_cases h2 : inKindLists ctx s.includedContexts <;>
        by_cases h4 : inKindLists ctx s.excludedContexts <;> simp [hk, hB1, hB2, h2, h4]
    | some k =>
      by_cases h1 : k ∈ s.included <;> by_cases h3 : k ∈ s.excluded <;>
        by_cases h2 : inKindLists ctx s.includedContexts <;>
        by_cases h4 : inKindLists ctx s.excludedContexts <;> simp [hk, hB1, hB2, h1, h2, h3, h4]

/-! ### 2. A regular segment: lists first, then the rules -/

theorem regular_iff (rec : Spec.SegRec) (env : Env) (s : Segment) (chain : List String)
    (hu : s.unbounded = false) (hc : chain.contains s.key = false) :
    Spec.segBody rec env s chain =
      match segLists env.ctx s with
      | some b => .ok b
      | none => Spec.segRules rec env (chain ++ [s.key]) s s.rules := by
  unfold Spec.segBody
  simp only [hc, hu, Bool.false_eq_true, if_false]
  cases segLists env.ctx s <;> rfl

/-! ### 3. The rules: first match wins, an error stops the scan -/

variable (rec : Spec.SegRec) (env : Env) (chain : List String)

theorem rules_all_false (s : Segment) (rules : List SegmentRule) :
    Spec.segRules rec env chain s rules = .ok false ↔
      ∀ r ∈ rules, Spec.segRuleMatch rec env chain s.key s.salt r = .ok false := by
  induction rules with
  | nil => simp [Spec.segRules]
  | cons r rs ih =>
    simp only [Spec.segRules, List.mem_cons, forall_eq_or_imp]
    cases h : Spec.segRuleMatch rec env chain s.key s.salt r with
    | ok b => cases b <;> simp [ih]
    | err e => simp
    | oof => simp

theorem rules_first_match (s : Segment) (rules : List SegmentRule) :
    Spec.segRules rec env chain s rules = .ok true ↔
      ∃ pre r post, rules = pre ++ r :: post ∧
        (∀ r' ∈ pre, Spec.segRuleMatch rec env chain s.key s.salt r' = .ok false) ∧
        Spec.segRuleMatch rec env chain s.key s.salt r = .ok true := by
  induction rules with
  | nil => simp [Spec.segRules]
  | cons r rs ih =>
    simp only [Spec.segRules]
    cases h : Spec.segRuleMatch rec env chain s.key s.salt r with
    | ok b =>
      cases b with
      | true =>
        simp only [true_iff]
        exact ⟨[], r, rs, rfl, by simp, h⟩
      | false =>
        simp only [ih]
        constructor
        · rintro ⟨pre, r0, post, rfl, hp, hr⟩
          refine ⟨r :: pre, r0, post, rfl, ?_, hr⟩
          intro r' hr'
          rcases List.mem_cons.1 hr' with rfl | hr'
          · exact h
          · exact hp r' hr'
        · rintro ⟨pre, r0, post, heq, hp, hr⟩
          cases pre with
          | nil =>
            simp only [List.nil_append, List.cons.injEq] at heq
            rw [← heq.1, h] at hr; cases hr
          | cons a pre =>
            simp only [List.cons_append, List.cons.injEq] at heq
            exact ⟨pre, r0, post, heq.2, fun r' hr' => hp r' (by simp [hr']), hr⟩
    | err e =>
      simp only [false_iff, reduceCtorEq]
      rintro ⟨pre, r0, post, heq, hp, hr⟩
      cases pre with
      | nil =>
        simp only [List.nil_append, List.cons.injEq] at heq
        rw [← heq.1, h] at hr; cases hr
      | cons a pre =>
        simp only [List.cons_append, List.cons.injEq] at heq
        have := hp a (by simp); rw [← heq.1, h] at this; cases this
    | oof =>
      simp only [false_iff, reduceCtorEq]
      rintro ⟨pre, r0, post, heq, hp, hr⟩
      cases pre with
      | nil =>
        simp only [List.nil_append, List.cons.injEq] at heq
        rw [← heq.1, h] at hr; cases hr
      | cons a pre =>
        simp only [List.cons_append, List.cons.injEq] at heq
        have := hp a (by simp); rw [← heq.1, h] at this; cases this

/-- The first rule that is not a plain non-match decides; if it is an error, the segment is
malformed (the error is wrapped with the segment key). -/
theorem rules_first_error (s : Segment) (pre post : List SegmentRule) (r : SegmentRule) (e : EvalErr)
    (hp : ∀ r' ∈ pre, Spec.segRuleMatch rec env chain s.key s.salt r' = .ok false)
    (hr : Spec.segRuleMatch rec env chain s.key s.salt r = .err e) :
    Spec.segRules rec env chain s (pre ++ r :: post) = .err (.malformedSegment s.key e) := by
  induction pre with
  | nil => simp [Spec.segRules, hr]
  | cons a pre ih =>
    simp only [List.cons_append, Spec.segRules, hp a (by simp)]
    exact ih (fun r' hr' => hp r' (by simp [hr']))

/-! ### 4. One rule: all clauses, then the weight -/

theorem unweighted_rule (key salt : String) (r : SegmentRule)
    (hc : Spec.clausesMatch rec env chain r.clauses = .ok true) (hw : r.weight = none) :
    Spec.segRuleMatch rec env chain key salt r = .ok true := by
  unfold Spec.segRuleMatch; simp only [hc, hw]

theorem weighted_rule (key salt : String) (r : SegmentRule) (w : Int)
    (hc : Spec.clausesMatch rec env chain r.clauses = .ok true) (hw : r.weight = some w) :
    Spec.segRuleMatch rec env chain key salt r =
      match computeBucket env.opts.secondaryKey env.ctx false none r.rolloutContextKind key
              r.bucketBy salt with
      | .error e => .err e
      | .ok (b, fail) =>
        if fail == .contextLacksKind then .ok false
        else .ok (decide (b < SoftF32.div (SoftF32.ofInt w) 100000)) := by
  unfold Spec.segRuleMatch; simp only [hc, hw]
  cases computeBucket env.opts.secondaryKey env.ctx false none r.rolloutContextKind key
    r.bucketBy salt with
  | error e => rfl
  | ok p => cases p; rfl

theorem rule_needs_all_clauses (key salt : String) (r : SegmentRule)
    (hc : Spec.clausesMatch rec env chain r.clauses = .ok false) :
    Spec.segRuleMatch rec env chain key salt r = .ok false := by
  unfold Spec.segRuleMatch; simp only [hc]

/-- "All clauses match": every clause is `.ok true`. -/
theorem clauses_all_true (cs : List Clause) :
    Spec.clausesMatch rec env chain cs = .ok true ↔
      ∀ c ∈ cs, Spec.clauseMatch rec env chain c = .ok true := by
  induction cs with
  | nil => simp [Spec.clausesMatch]
  | cons c cs ih =>
    simp only [Spec.clausesMatch, List.mem_cons, forall_eq_or_imp]
    cases h : Spec.clauseMatch rec env chain c with
    | ok b => cases b <;> simp [ih]
    | err e => simp
    | oof => simp

/-- A weighted rule whose rollout kind is absent from the context does not match. -/
theorem weighted_rule_lacks_kind (key salt : String) (r : SegmentRule) (w : Int) (b : Rat)
    (hc : Spec.clausesMatch rec env chain r.clauses = .ok true) (hw : r.weight = some w)
    (hb : computeBucket env.opts.secondaryKey env.ctx false none r.rolloutContextKind key
      r.bucketBy salt = .ok (b, .contextLacksKind)) :
    Spec.segRuleMatch rec env chain key salt r = .ok false := by
  rw [weighted_rule rec env chain key salt r w hc hw, hb]; rfl

/-! ### 5. The segment-match clause -/

/-- The referenced segment `k` contributes nothing: it is missing from the store, or the context
is not in it. -/
def NoMatch (rec : Spec.SegRec) (env : Env) (chain : List String) (k : String) : Prop :=
  env.store.findSegment k = none ∨
    ∃ seg, env.store.findSegment k = some seg ∧ rec seg chain = .ok false

theorem segMatch_false (negate : Bool) (vs : List J)
    (h : ∀ k, J.str k ∈ vs → NoMatch rec env chain k) :
    Spec.segMatchValues rec env negate chain vs = .ok negate := by
  induction vs with
  | nil => rfl
  | cons v vs ih =>
    have ih' := ih (fun k hk => h k (by simp [hk]))
    cases v with
    | str k =>
      rcases h k (by simp) with hm | ⟨seg, hs, hr⟩
      · simp only [Spec.segMatchValues, hm, ih']
      · simp only [Spec.segMatchValues, hs, hr, ih']
    | null => simp only [Spec.segMatchValues, ih']
    | bool b => simp only [Spec.segMatchValues, ih']
    | num q => simp only [Spec.segMatchValues, ih']
    | arr xs => simp only [Spec.segMatchValues, ih']
    | obj kvs => simp only [Spec.segMatchValues, ih']
    | raw w => simp only [Spec.segMatchValues, ih']

theorem segMatch_true (negate : Bool) (pre post : List J) (k : String) (seg : Segment)
    (hpre : ∀ k', J.str k' ∈ pre → NoMatch rec env chain k')
    (hs : env.store.findSegment k = some seg) (hr : rec seg chain = .ok true) :
    Spec.segMatchValues rec env negate chain (pre ++ .str k :: post) = .ok (!negate) := by
  induction pre with
  | nil => simp only [List.nil_append, Spec.segMatchValues, hs, hr]
  | cons v pre ih =>
    have ih' := ih (fun k hk => hpre k (by simp [hk]))
    cases v with
    | str k' =>
      rcases hpre k' (by simp) with hm | ⟨seg', hs', hr'⟩
      · simp only [List.cons_append, Spec.segMatchValues, hm, ih']
      · simp only [List.cons_append, Spec.segMatchValues, hs', hr', ih']
    | null => simp only [List.cons_append, Spec.segMatchValues, ih']
    | bool b => simp only [List.cons_append, Spec.segMatchValues, ih']
    | num q => simp only [List.cons_append, Spec.segMatchValues, ih']
    | arr xs => simp only [List.cons_append, Spec.segMatchValues, ih']
    | obj kvs => simp only [List.cons_append, Spec.segMatchValues, ih']
    | raw w => simp only [List.cons_append, Spec.segMatchValues, ih']

theorem first_member (vs : List J)
    (hok : ∀ k seg, J.str k ∈ vs → env.store.findSegment k = some seg → ∃ b, rec seg chain = .ok b)
    (k0 : String) (seg0 : Segment) (hk0 : J.str k0 ∈ vs)
    (hs0 : env.store.findSegment k0 = some seg0) (hr0 : rec seg0 chain = .ok true) :
    ∃ pre k post seg, vs = pre ++ J.str k :: post ∧
      (∀ k', J.str k' ∈ pre → NoMatch rec env chain k') ∧
      env.store.findSegment k = some seg ∧ rec seg chain = .ok true := by
  induction vs with
  | nil => cases hk0
  | cons v vs ih =>
    by_cases hv : ∃ k seg, v = J.str k ∧ env.store.findSegment k = some seg ∧
        rec seg chain = .ok true
    · obtain ⟨k, seg, rfl, hs, hr⟩ := hv
      exact ⟨[], k, vs, seg, rfl, by simp, hs, hr⟩
    · have hmem : J.str k0 ∈ vs := by
        rcases List.mem_cons.1 hk0 with h | h
        · exact absurd ⟨k0, seg0, h.symm, hs0, hr0⟩ hv
        · exact h
      obtain ⟨pre, k, post, seg, rfl, hp, hs, hr⟩ :=
        ih (fun k seg hk => hok k seg (by simp [hk])) hmem
      refine ⟨v :: pre, k, post, seg, rfl, ?_, hs, hr⟩
      intro k' hk'
      rcases List.mem_cons.1 hk' with h | h
      · cases hf : env.store.findSegment k' with
        | none => exact .inl hf
        | some seg' =>
          obtain ⟨b, hb⟩ := hok k' seg' (by simp [h]) hf
          cases b with
          | false => exact .inr ⟨seg', hf, hb⟩
          | true => exact absurd ⟨k', seg', h.symm, hf, hb⟩ hv
      · exact hp k' h

theorem not_iff_of_true (n : Bool) (P : Prop) (hP : P) : ((!n) = true ↔ (n = false ↔ P)) := by
  cases n <;> simp [hP]

theorem self_iff_of_false (n : Bool) (P : Prop) (hP : ¬ P) : (n = true ↔ (n = false ↔ P)) := by
  cases n <;> simp [hP]

/-- The segment-match clause in one statement: provided no referenced, existing segment errs, the
clause is `negate ⊻ (the context is in some referenced segment that exists in the store)`. -/
theorem segment_clause (negate : Bool) (vs : List J)
    (hok : ∀ k seg, J.str k ∈ vs → env.store.findSegment k = some seg → ∃ b, rec seg chain = .ok b) :
    ∃ b, Spec.segMatchValues rec env negate chain vs = .ok b ∧
      (b = true ↔ (negate = false ↔
        ∃ k seg, J.str k ∈ vs ∧ env.store.findSegment k = some seg ∧ rec seg chain = .ok true)) := by
  by_cases hex : ∃ k seg, J.str k ∈ vs ∧ env.store.findSegment k = some seg ∧
      rec seg chain = .ok true
  · obtain ⟨k0, seg0, hk0, hs0, hr0⟩ := hex
    obtain ⟨pre, k, post, seg, rfl, hp, hs, hr⟩ :=
      first_member rec env chain vs hok k0 seg0 hk0 hs0 hr0
    exact ⟨!negate, segMatch_true rec env chain negate pre post k seg hp hs hr,
      not_iff_of_true _ _ ⟨k0, seg0, hk0, hs0, hr0⟩⟩
  · refine ⟨negate, segMatch_false rec env chain negate vs ?_, self_iff_of_false _ _ hex⟩
    intro k hk
    cases hf : env.store.findSegment k with
    | none => exact .inl hf
    | some seg =>
      obtain ⟨b, hb⟩ := hok k seg hk hf
      cases b with
      | false => exact .inr ⟨seg, hf, hb⟩
      | true => exact absurd ⟨k, seg, hk, hf, hb⟩ hex

/-- A `segmentMatch` clause — in a flag rule or in a segment rule alike — is the any-of above over
its values, through the same membership function `rec`: segment rules may reference segments. -/
theorem segment_clause_in_rule (c : Clause) (h : c.op = "segmentMatch") :
    Spec.clauseMatch rec env chain c = Spec.segMatchValues rec env c.negate chain c.values := by
  unfold Spec.clauseMatch; simp [h]

/-- …and any other clause is the non-segment clause of C04. -/
theorem other_clause_in_rule (c : Clause) (h : c.op ≠ "segmentMatch") :
    Spec.clauseMatch rec env chain c = Res.ofExcept (clauseMatchNoSeg env.rx env.ctx c) := by
  unfold Spec.clauseMatch; simp [h]

/-! ### Summary: membership in a regular segment -/

/-- A context is in a regular segment iff it is included; otherwise not if it is excluded;
otherwise iff some rule matches. -/
theorem regular_membership (s : Segment) (hu : s.unbounded = false)
    (hc : chain.contains s.key = false) (hpre : s.pre = {})
    (hinc : ∀ t ∈ s.includedContexts, t.pre = none) (hexc : ∀ t ∈ s.excludedContexts, t.pre = none)
    (hdm : ∀ t ∈ s.includedContexts ++ s.excludedContexts,
      t.contextKind ≠ "" ∧ t.contextKind ≠ "user") :
    Spec.segBody rec env s chain = .ok true ↔
      Included env.ctx s ∨ (¬ Excluded env.ctx s ∧
        Spec.segRules rec env (chain ++ [s.key]) s s.rules = .ok true) := by
  obtain ⟨h1, h2, h3⟩ := lists_spec env.ctx s hpre hinc hexc hdm
  rw [regular_iff rec env s chain hu hc]
  cases hl : segLists env.ctx s with
  | none =>
    have := h3.1 hl
    simp [this.1, this.2]
  | some b =>
    cases b with
    | true => simp [h1.1 hl]
    | false => have := h2.1 hl; simp [this.1, this.2]

/-- The same for a segment that went through preprocessing (C14). -/
theorem regular_membership_preprocessed (s : Segment) (hs : C14.PlainSegment s)
    (hu : s.unbounded = false) (hc : chain.contains s.key = false)
    (hdm : ∀ t ∈ s.includedContexts ++ s.excludedContexts,
      t.contextKind ≠ "" ∧ t.contextKind ≠ "user") :
    Spec.segBody rec env (preprocessSegment env.rx s) chain = .ok true ↔
      Included env.ctx s ∨ (¬ Excluded env.ctx s ∧
        Spec.segRules rec env (chain ++ [s.key]) s s.rules = .ok true) := by
  rw [C14.spec_segBody_transparent rec env s hs chain]
  exact regular_membership rec env chain s hu hc hs.1.1 hs.1.2.1 hs.1.2.2 hdm

/-! ### 6. Non-vacuity -/

def exUser : Ctx := .single { kind := "user", key := "k" }
def exMulti : Ctx := .multi [{ kind := "org", key := "o" }, { kind := "user", key := "k" }]

example : segLists exUser { key := "s", included := ["a", "k"], excluded := ["k"] } = some true := by
  simp [segLists, exUser, Ctx.keyByKind, Ctx.byKind, Ctx.individuals, normKind, defaultKind, findKey]
example : Included exUser { key := "s", included := ["a", "k"], excluded := ["k"] } :=
  .inl ⟨"k", by simp [exUser, Ctx.keyByKind, Ctx.byKind, Ctx.individuals, normKind], by simp⟩
example : segLists exUser { key := "s", included := ["a"], excluded := ["k"] } = some false := by
  simp [segLists, exUser, Ctx.keyByKind, Ctx.byKind, Ctx.individuals, normKind, defaultKind, findKey,
    Ctx.kind]
example : segLists exMulti
    { key := "s", includedContexts := [{ contextKind := "org", values := ["o"] }] } = some true := by
  simp [segLists, exMulti, Ctx.keyByKind, Ctx.byKind, Ctx.individuals, normKind, defaultKind, findKey,
    Ctx.kind, segTargetMatch, SegmentTarget.findKey]
example : segLists exMulti { key := "s", included := ["a"], excluded := ["b"] } = none := by
  simp [segLists, exMulti, Ctx.keyByKind, Ctx.byKind, Ctx.individuals, normKind, defaultKind, findKey,
    Ctx.kind]

/-- The data-model hypothesis is needed: a per-kind list of kind `user` is skipped by the code
for a single-kind `user` context although the key is listed. -/
example : inKindLists exUser [{ contextKind := "user", values := ["k"] }] ∧
    segLists exUser { key := "s", includedContexts := [{ contextKind := "user", values := ["k"] }] } =
      none := by
  constructor
  · exact ⟨{ contextKind := "user", values := ["k"] }, by simp, "k",
      by simp [exUser, Ctx.keyByKind, Ctx.byKind, Ctx.individuals, normKind], by simp⟩
  · simp [segLists, exUser, Ctx.keyByKind, Ctx.byKind, Ctx.individuals, normKind, defaultKind,
      findKey, Ctx.kind]

def exEnv : Env :=
  { opts := {}, store := Store.ofLists [] [{ key := "s1" }], bs := none, ctx := exUser,
    rx := fun _ _ => none }

/-- Non-string values and missing segments are skipped; the existing member segment decides. -/
example (negate : Bool) :
    Spec.segMatchValues (fun _ _ => .ok true) exEnv negate []
      [.num 1, .str "missing", .str "s1", .str "other"] = .ok (!negate) := by
  refine segMatch_true _ exEnv [] negate [.num 1, .str "missing"] [.str "other"] "s1" { key := "s1" }
    ?_ (by simp [exEnv, Store.findSegment, Store.ofLists]) rfl
  intro k hk
  simp only [List.mem_cons, reduceCtorEq, J.str.injEq, List.not_mem_nil, or_false, false_or] at hk
  subst hk
  exact .inl (by simp [exEnv, Store.findSegment, Store.ofLists])

/-- Only missing segments: the clause is just `negate`. -/
example (negate : Bool) :
    Spec.segMatchValues (fun _ _ => .ok true) exEnv negate [] [.str "missing", .bool true] =
      .ok negate := by
  refine segMatch_false _ exEnv [] negate _ ?_
  intro k hk
  simp only [List.mem_cons, reduceCtorEq, J.str.injEq, List.not_mem_nil, or_false] at hk
  subst hk
  exact .inl (by simp [exEnv, Store.findSegment, Store.ofLists])

/-- An unparsed string (`ldvalue.Raw`, whose `Type()` is `RawType`, not `StringType`) is skipped as
a segment key, although segment `s1` exists and would contain the context; the plain string is not. -/
example (negate : Bool) :
    Spec.segMatchValues (fun _ _ => .ok true) exEnv negate [] [.raw (.str "s1")] = .ok negate := rfl
example (negate : Bool) (st : St) :
    (segMatchValues (fun _ _ st => (.ok true, st)) exEnv negate [] [.raw (.str "s1")] st) =
      (.ok negate, st) := rfl
example (negate : Bool) :
    Spec.segMatchValues (fun _ _ => .ok true) exEnv negate [] [.str "s1"] = .ok (!negate) := by
  simp [Spec.segMatchValues, exEnv, Store.findSegment, Store.ofLists]

#print axioms lists_spec
#print axioms regular_iff
#print axioms rules_first_match
#print axioms rules_all_false
#print axioms rules_first_error
#print axioms weighted_rule
#print axioms unweighted_rule
#print axioms rule_needs_all_clauses
#print axioms weighted_rule_lacks_kind
#print axioms clauses_all_true
#print axioms segMatch_true
#print axioms segMatch_false
#print axioms segment_clause
#print axioms segment_clause_in_rule
#print axioms regular_membership
#print axioms regular_membership_preprocessed

end LD.C05

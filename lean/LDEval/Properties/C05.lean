/-
  C05 — Segment membership semantics (regular segments).

  "A context is in a regular segment iff its key is in an included list for one of its kinds;
  otherwise it is not if its key is in an excluded list; otherwise iff some rule has all clauses
  matching and, when the rule is weighted, the context's bucket for that segment is below
  weight/100000 (a weighted rule whose rollout kind is absent from the context does not match).
  A segment-match clause is true iff the context is in at least one referenced segment that exists
  in the store (missing segments and non-string keys are non-matches), negation inverts exactly
  that, and segment rules may themselves reference segments.
  [Data-model hypothesis: per-kind included/excluded lists never carry the default kind `user`.]"

  Stated on the stateless specification `LD.Spec` (which `Proofs/Refine.lean` shows the
  code-shaped model computes).  `rec` is the membership function used for segments referenced
  from rules (open recursion), so "segment rules may themselves reference segments" is the fact
  that `Spec.segRules` → `Spec.clausesMatch` → `Spec.clauseMatch` → `Spec.segMatchValues` calls
  `rec` (see `segment_clause_in_rule`).
-/
import LDEval.Properties.C14
import LDEval.Proofs.AuditClauseEval

namespace LD.C05

/-! ### 1. The included / excluded lists -/

/-- The context's `user`-kind key is in the plain list `l`. -/
def inUserList (ctx : Ctx) (l : List String) : Prop :=
  ∃ k, ctx.keyByKind "user" = some k ∧ k ∈ l

/-- The context's key for some target's kind is in that target's list. -/
def inKindLists (ctx : Ctx) (ts : List SegmentTarget) : Prop :=
  ∃ t ∈ ts, ∃ k, ctx.keyByKind t.contextKind = some k ∧ k ∈ t.values

def Included (ctx : Ctx) (s : Segment) : Prop :=
  inUserList ctx s.included ∨ inKindLists ctx s.includedContexts

def Excluded (ctx : Ctx) (s : Segment) : Prop :=
  inUserList ctx s.excluded ∨ inKindLists ctx s.excludedContexts

theorem segTargetMatch_plain (ctx : Ctx) (t : SegmentTarget) (h : t.pre = none) :
    segTargetMatch ctx t = true ↔ ∃ k, ctx.keyByKind t.contextKind = some k ∧ k ∈ t.values := by
  unfold segTargetMatch SegmentTarget.findKey findKey
  cases ctx.keyByKind t.contextKind <;> simp [h]

theorem any_segTargetMatch_plain (ctx : Ctx) (ts : List SegmentTarget) (h : ∀ t ∈ ts, t.pre = none) :
    ts.any (segTargetMatch ctx) = true ↔ inKindLists ctx ts := by
  simp only [List.any_eq_true, inKindLists]
  constructor
  · rintro ⟨t, ht, hm⟩; exact ⟨t, ht, (segTargetMatch_plain ctx t (h t ht)).1 hm⟩
  · rintro ⟨t, ht, hm⟩; exact ⟨t, ht, (segTargetMatch_plain ctx t (h t ht)).2 hm⟩

/-- A single-kind `user` context has no individual context of any other kind. -/
theorem keyByKind_none_of_user (ctx : Ctx) (hk : ctx.kind = "user") (k : String) (h1 : k ≠ "")
    (h2 : k ≠ "user") : ctx.keyByKind k = none := by
  cases ctx with
  | invalid => rfl
  | multi cs => simp [Ctx.kind] at hk
  | single sc =>
    simp only [Ctx.kind] at hk
    simp [Ctx.keyByKind, Ctx.byKind, Ctx.individuals, normKind, h1, hk, Ne.symm h2]

/-- Under the data-model hypothesis the per-kind lists cannot match a single-kind `user` context
(which is exactly the case in which the code skips them). -/
theorem inKindLists_false_of_user (ctx : Ctx) (hk : ctx.kind = "user") (ts : List SegmentTarget)
    (hdm : ∀ t ∈ ts, t.contextKind ≠ "" ∧ t.contextKind ≠ "user") : ¬ inKindLists ctx ts := by
  rintro ⟨t, ht, k, hkk, _⟩
  rw [keyByKind_none_of_user ctx hk t.contextKind (hdm t ht).1 (hdm t ht).2] at hkk
  cases hkk

/-- The four list checks of a segment with plain lists, under the data-model hypothesis. -/
theorem lists_spec (ctx : Ctx) (s : Segment) (hpre : s.pre = {})
    (hinc : ∀ t ∈ s.includedContexts, t.pre = none) (hexc : ∀ t ∈ s.excludedContexts, t.pre = none)
    (hdm : ∀ t ∈ s.includedContexts ++ s.excludedContexts,
      t.contextKind ≠ "" ∧ t.contextKind ≠ "user") :
    (segLists ctx s = some true ↔ Included ctx s) ∧
    (segLists ctx s = some false ↔ ¬ Included ctx s ∧ Excluded ctx s) ∧
    (segLists ctx s = none ↔ ¬ Included ctx s ∧ ¬ Excluded ctx s) := by
  have hB1 := any_segTargetMatch_plain ctx _ hinc
  have hB2 := any_segTargetMatch_plain ctx _ hexc
  have hK1 : ctx.kind = "user" → ¬ inKindLists ctx s.includedContexts := fun hk =>
    inKindLists_false_of_user ctx hk _ (fun t ht => hdm t (by simp [ht]))
  have hK2 : ctx.kind = "user" → ¬ inKindLists ctx s.excludedContexts := fun hk =>
    inKindLists_false_of_user ctx hk _ (fun t ht => hdm t (by simp [ht]))
  unfold segLists Included Excluded inUserList
  simp only [hpre, findKey, defaultKind]
  by_cases hk : ctx.kind = "user"
  · have h2 := hK1 hk
    have h4 := hK2 hk
    cases hdk : ctx.keyByKind "user" with
    | none => simp [hk, h2, h4]
    | some k =>
      by_cases h1 : k ∈ s.included <;> by_cases h3 : k ∈ s.excluded <;> simp [hk, h1, h2, h3, h4]
  · cases hdk : ctx.keyByKind "user" with
    | none =>
      by_cases h2 : inKindLists ctx s.includedContexts <;>
        by_cases h4 : inKindLists ctx s.excludedContexts <;> simp [hk, hB1, hB2, h2, h4]
    | some k =>
      by_cases h1 : k ∈ s.included <;> by_cases h3 : k ∈ s.excluded <;>
        by_cases h2 : inKindLists ctx s.includedContexts <;>
        by_cases h4 : inKindLists ctx s.excludedContexts <;> simp [hk, hB1, hB2, h1, h2, h3, h4]

/-! ### 2. A regular segment: lists first, then the rules -/

theorem regular_iff (rec : Spec.SegRec) (env : Env) (s : Segment) (chain : List String)
    (hu : s.unbounded = false) (hc : chain.contains s.key = false) :
    Spec.segBody rec env s chain =
      match segLists env.ctx s with
      | some b => .ok b
      | none => Spec.segRules rec env (chain ++ [s.key]) s s.rules := by
  unfold Spec.segBody
  simp only [hc, hu, Bool.false_eq_true, if_false]
  cases segLists env.ctx s <;> rfl

/-! ### 3. The rules: first match wins, an error stops the scan -/

variable (rec : Spec.SegRec) (env : Env) (chain : List String)

theorem rules_all_false (s : Segment) (rules : List SegmentRule) :
    Spec.segRules rec env chain s rules = .ok false ↔
      ∀ r ∈ rules, Spec.segRuleMatch rec env chain s.key s.salt r = .ok false := by
  induction rules with
  | nil => simp [Spec.segRules]
  | cons r rs ih =>
    simp only [Spec.segRules, List.mem_cons, forall_eq_or_imp]
    cases h : Spec.segRuleMatch rec env chain s.key s.salt r with
    | ok b => cases b <;> simp [ih]
    | err e => simp
    | oof => simp

theorem rules_first_match (s : Segment) (rules : List SegmentRule) :
    Spec.segRules rec env chain s rules = .ok true ↔
      ∃ pre r post, rules = pre ++ r :: post ∧
        (∀ r' ∈ pre, Spec.segRuleMatch rec env chain s.key s.salt r' = .ok false) ∧
        Spec.segRuleMatch rec env chain s.key s.salt r = .ok true := by
  induction rules with
  | nil => simp [Spec.segRules]
  | cons r rs ih =>
    simp only [Spec.segRules]
    cases h : Spec.segRuleMatch rec env chain s.key s.salt r with
    | ok b =>
      cases b with
      | true =>
        simp only [true_iff]
        exact ⟨[], r, rs, rfl, by simp, h⟩
      | false =>
        simp only [ih]
        constructor
        · rintro ⟨pre, r0, post, rfl, hp, hr⟩
          refine ⟨r :: pre, r0, post, rfl, ?_, hr⟩
          intro r' hr'
          rcases List.mem_cons.1 hr' with rfl | hr'
          · exact h
          · exact hp r' hr'
        · rintro ⟨pre, r0, post, heq, hp, hr⟩
          cases pre with
          | nil =>
            simp only [List.nil_append, List.cons.injEq] at heq
            rw [← heq.1, h] at hr; cases hr
          | cons a pre =>
            simp only [List.cons_append, List.cons.injEq] at heq
            exact ⟨pre, r0, post, heq.2, fun r' hr' => hp r' (by simp [hr']), hr⟩
    | err e =>
      simp only [false_iff, reduceCtorEq]
      rintro ⟨pre, r0, post, heq, hp, hr⟩
      cases pre with
      | nil =>
        simp only [List.nil_append, List.cons.injEq] at heq
        rw [← heq.1, h] at hr; cases hr
      | cons a pre =>
        simp only [List.cons_append, List.cons.injEq] at heq
        have := hp a (by simp); rw [← heq.1, h] at this; cases this
    | oof =>
      simp only [false_iff, reduceCtorEq]
      rintro ⟨pre, r0, post, heq, hp, hr⟩
      cases pre with
      | nil =>
        simp only [List.nil_append, List.cons.injEq] at heq
        rw [← heq.1, h] at hr; cases hr
      | cons a pre =>
        simp only [List.cons_append, List.cons.injEq] at heq
        have := hp a (by simp); rw [← heq.1, h] at this; cases this

/-- The first rule that is not a plain non-match decides; if it is an error, the segment is
malformed (the error is wrapped with the segment key). -/
theorem rules_first_error (s : Segment) (pre post : List SegmentRule) (r : SegmentRule) (e : EvalErr)
    (hp : ∀ r' ∈ pre, Spec.segRuleMatch rec env chain s.key s.salt r' = .ok false)
    (hr : Spec.segRuleMatch rec env chain s.key s.salt r = .err e) :
    Spec.segRules rec env chain s (pre ++ r :: post) = .err (.malformedSegment s.key e) := by
  induction pre with
  | nil => simp [Spec.segRules, hr]
  | cons a pre ih =>
    simp only [List.cons_append, Spec.segRules, hp a (by simp)]
    exact ih (fun r' hr' => hp r' (by simp [hr']))

/-! ### 4. One rule: all clauses, then the weight -/

theorem unweighted_rule (key salt : String) (r : SegmentRule)
    (hc : Spec.clausesMatch rec env chain r.clauses = .ok true) (hw : r.weight = none) :
    Spec.segRuleMatch rec env chain key salt r = .ok true := by
  unfold Spec.segRuleMatch; simp only [hc, hw]

theorem weighted_rule (key salt : String) (r : SegmentRule) (w : Int)
    (hc : Spec.clausesMatch rec env chain r.clauses = .ok true) (hw : r.weight = some w) :
    Spec.segRuleMatch rec env chain key salt r =
      match computeBucket env.opts.secondaryKey env.ctx false none r.rolloutContextKind key
              r.bucketBy salt with
      | .error e => .err e
      | .ok (b, fail) =>
        if fail == .contextLacksKind then .ok false
        else .ok (decide (b < SoftF32.div (SoftF32.ofInt w) 100000)) := by
  unfold Spec.segRuleMatch; simp only [hc, hw]
  cases computeBucket env.opts.secondaryKey env.ctx false none r.rolloutContextKind key
    r.bucketBy salt with
  | error e => rfl
  | ok p => cases p; rfl

theorem rule_needs_all_clauses (key salt : String) (r : SegmentRule)
    (hc : Spec.clausesMatch rec env chain r.clauses = .ok false) :
    Spec.segRuleMatch rec env chain key salt r = .ok false := by
  unfold Spec.segRuleMatch; simp only [hc]

/-- "All clauses match": every clause is `.ok true`. -/
theorem clauses_all_true (cs : List Clause) :
    Spec.clausesMatch rec env chain cs = .ok true ↔
      ∀ c ∈ cs, Spec.clauseMatch rec env chain c = .ok true := by
  induction cs with
  | nil => simp [Spec.clausesMatch]
  | cons c cs ih =>
    simp only [Spec.clausesMatch, List.mem_cons, forall_eq_or_imp]
    cases h : Spec.clauseMatch rec env chain c with
    | ok b => cases b <;> simp [ih]
    | err e => simp
    | oof => simp

/-- A weighted rule whose rollout kind is absent from the context does not match. -/
theorem weighted_rule_lacks_kind (key salt : String) (r : SegmentRule) (w : Int) (b : Rat)
    (hc : Spec.clausesMatch rec env chain r.clauses = .ok true) (hw : r.weight = some w)
    (hb : computeBucket env.opts.secondaryKey env.ctx false none r.rolloutContextKind key
      r.bucketBy salt = .ok (b, .contextLacksKind)) :
    Spec.segRuleMatch rec env chain key salt r = .ok false := by
  rw [weighted_rule rec env chain key salt r w hc hw, hb]; rfl

/-! ### 5. The segment-match clause -/

/-- The referenced segment `k` contributes nothing: it is missing from the store, or the context
is not in it. -/
def NoMatch (rec : Spec.SegRec) (env : Env) (chain : List String) (k : String) : Prop :=
  env.store.findSegment k = none ∨
    ∃ seg, env.store.findSegment k = some seg ∧ rec seg chain = .ok false

theorem segMatch_false (negate : Bool) (vs : List J)
    (h : ∀ k, J.str k ∈ vs → NoMatch rec env chain k) :
    Spec.segMatchValues rec env negate chain vs = .ok negate := by
  induction vs with
  | nil => rfl
  | cons v vs ih =>
    have ih' := ih (fun k hk => h k (by simp [hk]))
    cases v with
    | str k =>
      rcases h k (by simp) with hm | ⟨seg, hs, hr⟩
      · simp only [Spec.segMatchValues, hm, ih']
      · simp only [Spec.segMatchValues, hs, hr, ih']
    | null => simp only [Spec.segMatchValues, ih']
    | bool b => simp only [Spec.segMatchValues, ih']
    | num q => simp only [Spec.segMatchValues, ih']
    | arr xs => simp only [Spec.segMatchValues, ih']
    | obj kvs => simp only [Spec.segMatchValues, ih']
    | raw w => simp only [Spec.segMatchValues, ih']

theorem segMatch_true (negate : Bool) (pre post : List J) (k : String) (seg : Segment)
    (hpre : ∀ k', J.str k' ∈ pre → NoMatch rec env chain k')
    (hs : env.store.findSegment k = some seg) (hr : rec seg chain = .ok true) :
    Spec.segMatchValues rec env negate chain (pre ++ .str k :: post) = .ok (!negate) := by
  induction pre with
  | nil => simp only [List.nil_append, Spec.segMatchValues, hs, hr]
  | cons v pre ih =>
    have ih' := ih (fun k hk => hpre k (by simp [hk]))
    cases v with
    | str k' =>
      rcases hpre k' (by simp) with hm | ⟨seg', hs', hr'⟩
      · simp only [List.cons_append, Spec.segMatchValues, hm, ih']
      · simp only [List.cons_append, Spec.segMatchValues, hs', hr', ih']
    | null => simp only [List.cons_append, Spec.segMatchValues, ih']
    | bool b => simp only [List.cons_append, Spec.segMatchValues, ih']
    | num q => simp only [List.cons_append, Spec.segMatchValues, ih']
    | arr xs => simp only [List.cons_append, Spec.segMatchValues, ih']
    | obj kvs => simp only [List.cons_append, Spec.segMatchValues, ih']
    | raw w => simp only [List.cons_append, Spec.segMatchValues, ih']

theorem first_member (vs : List J)
    (hok : ∀ k seg, J.str k ∈ vs → env.store.findSegment k = some seg → ∃ b, rec seg chain = .ok b)
    (k0 : String) (seg0 : Segment) (hk0 : J.str k0 ∈ vs)
    (hs0 : env.store.findSegment k0 = some seg0) (hr0 : rec seg0 chain = .ok true) :
    ∃ pre k post seg, vs = pre ++ J.str k :: post ∧
      (∀ k', J.str k' ∈ pre → NoMatch rec env chain k') ∧
      env.store.findSegment k = some seg ∧ rec seg chain = .ok true := by
  induction vs with
  | nil => cases hk0
  | cons v vs ih =>
    by_cases hv : ∃ k seg, v = J.str k ∧ env.store.findSegment k = some seg ∧
        rec seg chain = .ok true
    · obtain ⟨k, seg, rfl, hs, hr⟩ := hv
      exact ⟨[], k, vs, seg, rfl, by simp, hs, hr⟩
    · have hmem : J.str k0 ∈ vs := by
        rcases List.mem_cons.1 hk0 with h | h
        · exact absurd ⟨k0, seg0, h.symm, hs0, hr0⟩ hv
        · exact h
      obtain ⟨pre, k, post, seg, rfl, hp, hs, hr⟩ :=
        ih (fun k seg hk => hok k seg (by simp [hk])) hmem
      refine ⟨v :: pre, k, post, seg, rfl, ?_, hs, hr⟩
      intro k' hk'
      rcases List.mem_cons.1 hk' with h | h
      · cases hf : env.store.findSegment k' with
        | none => exact .inl hf
        | some seg' =>
          obtain ⟨b, hb⟩ := hok k' seg' (by simp [h]) hf
          cases b with
          | false => exact .inr ⟨seg', hf, hb⟩
          | true => exact absurd ⟨k', seg', h.symm, hf, hb⟩ hv
      · exact hp k' h

theorem not_iff_of_true (n : Bool) (P : Prop) (hP : P) : ((!n) = true ↔ (n = false ↔ P)) := by
  cases n <;> simp [hP]

theorem self_iff_of_false (n : Bool) (P : Prop) (hP : ¬ P) : (n = true ↔ (n = false ↔ P)) := by
  cases n <;> simp [hP]

/-- The segment-match clause in one statement: provided no referenced, existing segment errs, the
clause is `negate ⊻ (the context is in some referenced segment that exists in the store)`. -/
theorem segment_clause (negate : Bool) (vs : List J)
    (hok : ∀ k seg, J.str k ∈ vs → env.store.findSegment k = some seg → ∃ b, rec seg chain = .ok b) :
    ∃ b, Spec.segMatchValues rec env negate chain vs = .ok b ∧
      (b = true ↔ (negate = false ↔
        ∃ k seg, J.str k ∈ vs ∧ env.store.findSegment k = some seg ∧ rec seg chain = .ok true)) := by
  by_cases hex : ∃ k seg, J.str k ∈ vs ∧ env.store.findSegment k = some seg ∧
      rec seg chain = .ok true
  · obtain ⟨k0, seg0, hk0, hs0, hr0⟩ := hex
    obtain ⟨pre, k, post, seg, rfl, hp, hs, hr⟩ :=
      first_member rec env chain vs hok k0 seg0 hk0 hs0 hr0
    exact ⟨!negate, segMatch_true rec env chain negate pre post k seg hp hs hr,
      not_iff_of_true _ _ ⟨k0, seg0, hk0, hs0, hr0⟩⟩
  · refine ⟨negate, segMatch_false rec env chain negate vs ?_, self_iff_of_false _ _ hex⟩
    intro k hk
    cases hf : env.store.findSegment k with
    | none => exact .inl hf
    | some seg =>
      obtain ⟨b, hb⟩ := hok k seg hk hf
      cases b with
      | false => exact .inr ⟨seg, hf, hb⟩
      | true => exact absurd ⟨k, seg, hk, hf, hb⟩ hex

/-- A `segmentMatch` clause — in a flag rule or in a segment rule alike — is the any-of above over
its values, through the same membership function `rec`: segment rules may reference segments. -/
theorem segment_clause_in_rule (c : Clause) (h : c.op = "segmentMatch") :
    Spec.clauseMatch rec env chain c = Spec.segMatchValues rec env c.negate chain c.values := by
  unfold Spec.clauseMatch; simp [h]

/-- …and any other clause is the non-segment clause of C04. -/
theorem other_clause_in_rule (c : Clause) (h : c.op ≠ "segmentMatch") :
    Spec.clauseMatch rec env chain c = Res.ofExcept (clauseMatchNoSeg env.rx env.ctx c) := by
  unfold Spec.clauseMatch; simp [h]

/-! ### Summary: membership in a regular segment -/

/-- A context is in a regular segment iff it is included; otherwise not if it is excluded;
otherwise iff some rule matches. -/
theorem regular_membership (s : Segment) (hu : s.unbounded = false)
    (hc : chain.contains s.key = false) (hpre : s.pre = {})
    (hinc : ∀ t ∈ s.includedContexts, t.pre = none) (hexc : ∀ t ∈ s.excludedContexts, t.pre = none)
    (hdm : ∀ t ∈ s.includedContexts ++ s.excludedContexts,
      t.contextKind ≠ "" ∧ t.contextKind ≠ "user") :
    Spec.segBody rec env s chain = .ok true ↔
      Included env.ctx s ∨ (¬ Excluded env.ctx s ∧
        Spec.segRules rec env (chain ++ [s.key]) s s.rules = .ok true) := by
  obtain ⟨h1, h2, h3⟩ := lists_spec env.ctx s hpre hinc hexc hdm
  rw [regular_iff rec env s chain hu hc]
  cases hl : segLists env.ctx s with
  | none =>
    have := h3.1 hl
    simp [this.1, this.2]
  | some b =>
    cases b with
    | true => simp [h1.1 hl]
    | false => have := h2.1 hl; simp [this.1, this.2]

/-- The same for a segment that went through preprocessing (C14). -/
theorem regular_membership_preprocessed (s : Segment) (hs : C14.PlainSegment s)
    (hu : s.unbounded = false) (hc : chain.contains s.key = false)
    (hdm : ∀ t ∈ s.includedContexts ++ s.excludedContexts,
      t.contextKind ≠ "" ∧ t.contextKind ≠ "user") :
    Spec.segBody rec env (preprocessSegment env.rx s) chain = .ok true ↔
      Included env.ctx s ∨ (¬ Excluded env.ctx s ∧
        Spec.segRules rec env (chain ++ [s.key]) s s.rules = .ok true) := by
  rw [C14.spec_segBody_transparent rec env s hs chain]
  exact regular_membership rec env chain s hu hc hs.1.1 hs.1.2.1 hs.1.2.2 hdm

/-! ### 6. Non-vacuity -/

def exUser : Ctx := .single { kind := "user", key := "k" }
def exMulti : Ctx := .multi [{ kind := "org", key := "o" }, { kind := "user", key := "k" }]

example : segLists exUser { key := "s", included := ["a", "k"], excluded := ["k"] } = some true := by
  simp [segLists, exUser, Ctx.keyByKind, Ctx.byKind, Ctx.individuals, normKind, defaultKind, findKey]
example : Included exUser { key := "s", included := ["a", "k"], excluded := ["k"] } :=
  .inl ⟨"k", by simp [exUser, Ctx.keyByKind, Ctx.byKind, Ctx.individuals, normKind], by simp⟩
example : segLists exUser { key := "s", included := ["a"], excluded := ["k"] } = some false := by
  simp [segLists, exUser, Ctx.keyByKind, Ctx.byKind, Ctx.individuals, normKind, defaultKind, findKey,
    Ctx.kind]
example : segLists exMulti
    { key := "s", includedContexts := [{ contextKind := "org", values := ["o"] }] } = some true := by
  simp [segLists, exMulti, Ctx.keyByKind, Ctx.byKind, Ctx.individuals, normKind, defaultKind, findKey,
    Ctx.kind, segTargetMatch, SegmentTarget.findKey]
example : segLists exMulti { key := "s", included := ["a"], excluded := ["b"] } = none := by
  simp [segLists, exMulti, Ctx.keyByKind, Ctx.byKind, Ctx.individuals, normKind, defaultKind, findKey,
    Ctx.kind]

/-- The data-model hypothesis is needed: a per-kind list of kind `user` is skipped by the code
for a single-kind `user` context although the key is listed. -/
example : inKindLists exUser [{ contextKind := "user", values := ["k"] }] ∧
    segLists exUser { key := "s", includedContexts := [{ contextKind := "user", values := ["k"] }] } =
      none := by
  constructor
  · exact ⟨{ contextKind := "user", values := ["k"] }, by simp, "k",
      by simp [exUser, Ctx.keyByKind, Ctx.byKind, Ctx.individuals, normKind], by simp⟩
  · simp [segLists, exUser, Ctx.keyByKind, Ctx.byKind, Ctx.individuals, normKind, defaultKind,
      findKey, Ctx.kind]

def exEnv : Env :=
  { opts := {}, store := Store.ofLists [] [{ key := "s1" }], bs := none, ctx := exUser,
    rx := fun _ _ => none }

/-- Non-string values and missing segments are skipped; the existing member segment decides. -/
example (negate : Bool) :
    Spec.segMatchValues (fun _ _ => .ok true) exEnv negate []
      [.num 1, .str "missing", .str "s1", .str "other"] = .ok (!negate) := by
  refine segMatch_true _ exEnv [] negate [.num 1, .str "missing"] [.str "other"] "s1" { key := "s1" }
    ?_ (by simp [exEnv, Store.findSegment, Store.ofLists]) rfl
  intro k hk
  simp only [List.mem_cons, reduceCtorEq, J.str.injEq, List.not_mem_nil, or_false, false_or] at hk
  subst hk
  exact .inl (by simp [exEnv, Store.findSegment, Store.ofLists])

/-- Only missing segments: the clause is just `negate`. -/
example (negate : Bool) :
    Spec.segMatchValues (fun _ _ => .ok true) exEnv negate [] [.str "missing", .bool true] =
      .ok negate := by
  refine segMatch_false _ exEnv [] negate _ ?_
  intro k hk
  simp only [List.mem_cons, reduceCtorEq, J.str.injEq, List.not_mem_nil, or_false] at hk
  subst hk
  exact .inl (by simp [exEnv, Store.findSegment, Store.ofLists])

/-- An unparsed string (`ldvalue.Raw`, whose `Type()` is `RawType`, not `StringType`) is skipped as
a segment key, although segment `s1` exists and would contain the context; the plain string is not. -/
example (negate : Bool) :
    Spec.segMatchValues (fun _ _ => .ok true) exEnv negate [] [.raw (.str "s1")] = .ok negate := rfl
example (negate : Bool) (st : St) :
    (segMatchValues (fun _ _ st => (.ok true, st)) exEnv negate [] [.raw (.str "s1")] st) =
      (.ok negate, st) := rfl
example (negate : Bool) :
    Spec.segMatchValues (fun _ _ => .ok true) exEnv negate [] [.str "s1"] = .ok (!negate) := by
  simp [Spec.segMatchValues, exEnv, Store.findSegment, Store.ofLists]

#print axioms lists_spec
#print axioms regular_iff
#print axioms rules_first_match
#print axioms rules_all_false
#print axioms rules_first_error
#print axioms weighted_rule
#print axioms unweighted_rule
#print axioms rule_needs_all_clauses
#print axioms weighted_rule_lacks_kind
#print axioms clauses_all_true
#print axioms segMatch_true
#print axioms segMatch_false
#print axioms segment_clause
#print axioms segment_clause_in_rule
#print axioms regular_membership
#print axioms regular_membership_preprocessed

/-! ## Strengthened statements (theorem audit) -/

section audit
open ClauseEval
variable {rec} {env} {chain}

/-! ### (#18) The other two outcomes of a regular segment -/

/-- A context is NOT in a regular segment (a definite "no", not an error) iff it is not included
and either excluded or no rule matches.  (Go: `segmentContainsContext` returns `false, nil`.) -/
theorem regular_membership_false (s : Segment) (hu : s.unbounded = false)
    (hc : chain.contains s.key = false) (hpre : s.pre = {})
    (hinc : ∀ t ∈ s.includedContexts, t.pre = none) (hexc : ∀ t ∈ s.excludedContexts, t.pre = none)
    (hdm : ∀ t ∈ s.includedContexts ++ s.excludedContexts,
      t.contextKind ≠ "" ∧ t.contextKind ≠ "user") :
    Spec.segBody rec env s chain = .ok false ↔
      ¬ Included env.ctx s ∧ (Excluded env.ctx s ∨
        Spec.segRules rec env (chain ++ [s.key]) s s.rules = .ok false) := by
  obtain ⟨h1, h2, h3⟩ := lists_spec env.ctx s hpre hinc hexc hdm
  rw [regular_iff rec env s chain hu hc]
  cases hl : segLists env.ctx s with
  | none =>
    have := h3.1 hl
    simp [this.1, this.2]
  | some b =>
    cases b with
    | true => simp [h1.1 hl]
    | false => have := h2.1 hl; simp [this.1, this.2]

/-- Membership in a regular segment is an ERROR iff the context is neither included nor excluded
and the rule scan errs (`rules_first_error`: the first rule that is not a plain non-match errs; the
error is wrapped with the segment key).  The lists are looked at first: an included or excluded
context never sees a malformed rule. -/
theorem regular_membership_err (s : Segment) (e : EvalErr) (hu : s.unbounded = false)
    (hc : chain.contains s.key = false) (hpre : s.pre = {})
    (hinc : ∀ t ∈ s.includedContexts, t.pre = none) (hexc : ∀ t ∈ s.excludedContexts, t.pre = none)
    (hdm : ∀ t ∈ s.includedContexts ++ s.excludedContexts,
      t.contextKind ≠ "" ∧ t.contextKind ≠ "user") :
    Spec.segBody rec env s chain = .err e ↔
      ¬ Included env.ctx s ∧ ¬ Excluded env.ctx s ∧
        Spec.segRules rec env (chain ++ [s.key]) s s.rules = .err e := by
  obtain ⟨h1, h2, h3⟩ := lists_spec env.ctx s hpre hinc hexc hdm
  rw [regular_iff rec env s chain hu hc]
  cases hl : segLists env.ctx s with
  | none =>
    have := h3.1 hl
    simp [this.1, this.2]
  | some b =>
    cases b with
    | true => simp [h1.1 hl]
    | false => have := h2.1 hl; simp [this.1, this.2]

/-- A referenced segment whose own evaluation errs makes the whole `segmentMatch` clause err (the
values before it having contributed nothing); later values are not looked at. -/
theorem segMatch_err (negate : Bool) (vpre vpost : List J) (k : String) (seg : Segment) (e : EvalErr)
    (hpre : ∀ k', J.str k' ∈ vpre → NoMatch rec env chain k')
    (hs : env.store.findSegment k = some seg) (hr : rec seg chain = .err e) :
    Spec.segMatchValues rec env negate chain (vpre ++ .str k :: vpost) = .err e := by
  induction vpre with
  | nil => simp only [List.nil_append, Spec.segMatchValues, hs, hr]
  | cons v vpre ih =>
    have ih' := ih (fun k hk => hpre k (by simp [hk]))
    cases v with
    | str k' =>
      rcases hpre k' (by simp) with hm | ⟨seg', hs', hr'⟩
      · simp only [List.cons_append, Spec.segMatchValues, hm, ih']
      · simp only [List.cons_append, Spec.segMatchValues, hs', hr', ih']
    | null => simp only [List.cons_append, Spec.segMatchValues, ih']
    | bool b => simp only [List.cons_append, Spec.segMatchValues, ih']
    | num q => simp only [List.cons_append, Spec.segMatchValues, ih']
    | arr xs => simp only [List.cons_append, Spec.segMatchValues, ih']
    | obj kvs => simp only [List.cons_append, Spec.segMatchValues, ih']
    | raw w => simp only [List.cons_append, Spec.segMatchValues, ih']

/-! ### (#16) The membership relation `evaluate` uses, and what a probe flag shows of it -/

/-- `evaluate`'s own membership relation: what a `segmentMatch` clause of a FLAG rule asks about a
segment the store returned.  (`topSeg env` is the function `evaluate` passes to the flag's rules;
the model's fuel is fixed there.) -/
def InSegment (env : Env) (s : Segment) : Prop := topSeg env s [] = .ok true

/-- `InSegment` is what the code-shaped model's own `segContains` (the one threading the cache, the
status and the lookup lists) returns, from any state whose membership cache is consistent with the
provider — every state reached during `evaluate` is. -/
theorem inSegment_model (s : Segment) (st : St) (hst : Consistent env st) :
    InSegment env s ↔ (segContains (segFuel env.store) env s [] st).1 = .ok true := by
  rw [(segContains_refines (segFuel env.store) env s [] st hst).1]
  exact Iff.rfl

/-- MEMBERSHIP IS A FIXPOINT, the same function on both sides (audit #16): on any duplicate-free
chain of stored segments not containing `s`, a stored regular segment contains the context iff it
is included, or not excluded and some rule matches — where the segments referenced from those rules
are answered by the very same function (same fuel, chain extended by `s.key`).  This is "segment
rules may themselves reference segments" as a statement about ONE relation. -/
theorem member_fixpoint {n : Nat} (hn : segFuel env.store ≤ n) (hnd : chain.Nodup)
    (hsub : ∀ k ∈ chain, k ∈ env.store.segments.map (·.2.key))
    (s : Segment) (hs : s.key ∈ env.store.segments.map (·.2.key))
    (hu : s.unbounded = false) (hc : chain.contains s.key = false) (hpre : s.pre = {})
    (hinc : ∀ t ∈ s.includedContexts, t.pre = none) (hexc : ∀ t ∈ s.excludedContexts, t.pre = none)
    (hdm : ∀ t ∈ s.includedContexts ++ s.excludedContexts,
      t.contextKind ≠ "" ∧ t.contextKind ≠ "user") :
    Spec.segContains n env s chain = .ok true ↔
      Included env.ctx s ∨ (¬ Excluded env.ctx s ∧
        Spec.segRules (Spec.segContains n env) env (chain ++ [s.key]) s s.rules = .ok true) := by
  rw [segContains_fixpoint hn hnd hsub s hs]
  exact regular_membership (Spec.segContains n env) env chain s hu hc hpre hinc hexc hdm

/-- The nested references of a stored segment's rules are followed by the same relation as the
top-level one, whatever the (sufficient) fuel: the answer for a stored segment on a duplicate-free
chain of stored segments does not depend on the fuel. -/
theorem member_fuel_irrelevant {n m : Nat} (hn : segFuel env.store ≤ n) (hnm : n ≤ m)
    (hnd : chain.Nodup) (hsub : ∀ k ∈ chain, k ∈ env.store.segments.map (·.2.key))
    (s : Segment) (hs : s.key ∈ env.store.segments.map (·.2.key)) :
    Spec.segContains m env s chain = Spec.segContains n env s chain :=
  segContains_fuel_irrelevant ⟨hnd, hsub, by unfold segFuel at hn; omega⟩ hnm s hs

/-- For the segment a flag rule references (`k` is the clause value, `s` what the store returns):
`s` contains the context iff included, or not excluded and some rule of `s` matches, nested
references being followed by `evaluate`'s own membership function. -/
theorem inSegment_iff {k : String} (s : Segment) (hs : env.store.findSegment k = some s)
    (hu : s.unbounded = false) (hpre : s.pre = {})
    (hinc : ∀ t ∈ s.includedContexts, t.pre = none) (hexc : ∀ t ∈ s.excludedContexts, t.pre = none)
    (hdm : ∀ t ∈ s.includedContexts ++ s.excludedContexts,
      t.contextKind ≠ "" ∧ t.contextKind ≠ "user") :
    InSegment env s ↔
      Included env.ctx s ∨ (¬ Excluded env.ctx s ∧
        Spec.segRules (topSeg env) env [s.key] s s.rules = .ok true) :=
  member_fixpoint (Nat.le_refl _) List.nodup_nil (by simp) s (findSegment_ownKey hs) hu (by simp)
    hpre hinc hexc hdm

/-- SEGMENT RULES MAY THEMSELVES REFERENCE SEGMENTS — AND IT IS THE SAME RELATION.  A `segmentMatch`
clause met while evaluating a segment rule (any chain of enclosing segments), none of whose
referenced existing segments errs (in particular: no cycle), is
`negate ⊻ (the context is in some referenced segment that exists in the store)` where "is in" is
`InSegment`, the very relation a flag rule asks about: the chain, which only serves the cycle test,
does not show in the answer (`topSeg_nested_eq_top`), nor does the fuel (`member_fixpoint`). -/
theorem nested_segment_clause (c : Clause) (hop : c.op = "segmentMatch")
    (hok : ∀ k seg, J.str k ∈ c.values → env.store.findSegment k = some seg →
      ∃ b, topSeg env seg chain = .ok b) :
    ∃ b, Spec.clauseMatch (topSeg env) env chain c = .ok b ∧
      (b = true ↔ (c.negate = false ↔
        ∃ k seg, J.str k ∈ c.values ∧ env.store.findSegment k = some seg ∧ InSegment env seg)) := by
  rw [segment_clause_in_rule (topSeg env) env chain c hop]
  obtain ⟨b, hb, hiff⟩ := segment_clause (topSeg env) env chain c.negate c.values hok
  refine ⟨b, hb, hiff.trans (iff_congr Iff.rfl ?_)⟩
  constructor
  · rintro ⟨k, seg, hk, hs, hin⟩
    exact ⟨k, seg, hk, hs, topSeg_nested_eq_top env seg chain true hin⟩
  · rintro ⟨k, seg, hk, hs, hin⟩
    obtain ⟨b', hb'⟩ := hok k seg hk hs
    have := topSeg_nested_eq_top env seg chain b' hb'
    rw [hin] at this
    cases this
    exact ⟨k, seg, hk, hs, hb'⟩

section probe
variable {f : Flag} {pre post : List FlagRule} {r : FlagRule} {cpre cpost : List Clause} {c : Clause}

/-- SEGMENT-MATCH CLAUSE, AT `evaluate`.  The evaluation of `f` arrives at a `segmentMatch` clause
of rule number `pre.length` (`AtClause`), the rule's other clauses match and the rule serves a fixed
valid variation.  Provided no referenced, existing segment errs, `evaluate` answers RULE_MATCH for
that rule iff `negate ⊻ (the context is in some referenced segment that exists in the store)`:
missing segments and non-string values contribute nothing, negation inverts exactly that. -/
theorem evaluate_segment_clause_iff (h : AtClause env f pre r post cpre c cpost)
    (hop : c.op = "segmentMatch")
    (hafter : ∀ q ∈ cpost, Spec.clauseMatch (topSeg env) env [] q = .ok true)
    {v : Int} (hv : r.vr.variation = some v) (h0 : 0 ≤ v) (h1 : v < f.variations.length)
    (hok : ∀ k seg, J.str k ∈ c.values → env.store.findSegment k = some seg →
      ∃ b, topSeg env seg [] = .ok b) :
    RuleMatchAt env f pre.length ↔
      (c.negate = false ↔
        ∃ k seg, J.str k ∈ c.values ∧ env.store.findSegment k = some seg ∧ InSegment env seg) := by
  rw [h.ruleMatch_iff hafter hv h0 h1, segment_clause_in_rule (topSeg env) env [] c hop]
  obtain ⟨b, hb, hiff⟩ := segment_clause (topSeg env) env [] c.negate c.values hok
  rw [hb]
  simpa [InSegment] using hiff

/-- … and when it matches, `evaluate` serves exactly that rule's variation with RULE_MATCH, the
rule's index and id. -/
theorem evaluate_segment_clause_serves (h : AtClause env f pre r post cpre c cpost)
    (hop : c.op = "segmentMatch")
    (hafter : ∀ q ∈ cpost, Spec.clauseMatch (topSeg env) env [] q = .ok true)
    {v : Int} (hv : r.vr.variation = some v) (h0 : 0 ≤ v) (h1 : v < f.variations.length)
    (hneg : c.negate = false) {k : String} {seg : Segment} (hk : J.str k ∈ c.values)
    (hs : env.store.findSegment k = some seg) (hin : InSegment env seg)
    (hok : ∀ k seg, J.str k ∈ c.values → env.store.findSegment k = some seg →
      ∃ b, topSeg env seg [] = .ok b) :
    (evaluate env f).result.detail.value = f.variations.getD v.toNat .null ∧
    (evaluate env f).result.detail.index = some v ∧
    (evaluate env f).result.detail.reason.kind = .ruleMatch ∧
    (evaluate env f).result.detail.reason.ruleIndex = pre.length ∧
    (evaluate env f).result.detail.reason.ruleId = r.id := by
  have hcm : Spec.clauseMatch (topSeg env) env [] c = .ok true := by
    rw [segment_clause_in_rule (topSeg env) env [] c hop]
    obtain ⟨b, hb, hiff⟩ := segment_clause (topSeg env) env [] c.negate c.values hok
    rw [hb, hiff.2 ⟨fun _ => ⟨k, seg, hk, hs, hin⟩, fun _ => hneg⟩]
  refine h.toAtRule.matched_fixed ?_ hv h0 h1
  rw [h.clauses]
  exact (clausesMatch_at_iff cpre c cpost h.before hafter).2 hcm

/-- Only missing segments and non-string values: the clause is just `negate` — at `evaluate`:
RULE_MATCH for that rule iff the clause is negated. -/
theorem evaluate_segment_clause_all_missing (h : AtClause env f pre r post cpre c cpost)
    (hop : c.op = "segmentMatch")
    (hafter : ∀ q ∈ cpost, Spec.clauseMatch (topSeg env) env [] q = .ok true)
    {v : Int} (hv : r.vr.variation = some v) (h0 : 0 ≤ v) (h1 : v < f.variations.length)
    (hmiss : ∀ k, J.str k ∈ c.values → env.store.findSegment k = none) :
    RuleMatchAt env f pre.length ↔ c.negate = true := by
  rw [evaluate_segment_clause_iff h hop hafter hv h0 h1
    (fun k seg hk hs => by rw [hmiss k hk] at hs; cases hs)]
  have : ¬ ∃ k seg, J.str k ∈ c.values ∧ env.store.findSegment k = some seg ∧ InSegment env seg := by
    rintro ⟨k, seg, hk, hs, -⟩; rw [hmiss k hk] at hs; cases hs
  rw [iff_false_intro this]
  cases c.negate <;> simp

/-- A referenced segment that errs (malformed rule, cycle) makes `evaluate` answer MALFORMED_FLAG,
the clause values before it having contributed nothing. -/
theorem evaluate_segment_clause_err (h : AtClause env f pre r post cpre c cpost)
    (hop : c.op = "segmentMatch") {vpre vpost : List J} {k : String} {seg : Segment} {e : EvalErr}
    (hvals : c.values = vpre ++ .str k :: vpost)
    (hvpre : ∀ k', J.str k' ∈ vpre → NoMatch (topSeg env) env [] k')
    (hs : env.store.findSegment k = some seg) (herr : topSeg env seg [] = .err e) :
    Malformed env f := by
  refine h.errored (e := e) ?_
  rw [segment_clause_in_rule (topSeg env) env [] c hop, hvals]
  exact segMatch_err c.negate vpre vpost k seg e hvpre hs herr

/-- PROBE FLAG FOR ONE REGULAR SEGMENT.  A rule of `f` whose clause in question is
`segmentMatch [k]` (not negated), `s` the stored regular segment filed under `k`, no error in `s`:
`evaluate` answers RULE_MATCH for that rule iff the context is included in `s`, or not excluded and
some rule of `s` matches. -/
theorem evaluate_regular_segment_iff (h : AtClause env f pre r post cpre c cpost)
    (hop : c.op = "segmentMatch") (hneg : c.negate = false) {k : String} (hvals : c.values = [.str k])
    (hafter : ∀ q ∈ cpost, Spec.clauseMatch (topSeg env) env [] q = .ok true)
    {v : Int} (hv : r.vr.variation = some v) (h0 : 0 ≤ v) (h1 : v < f.variations.length)
    (s : Segment) (hs : env.store.findSegment k = some s) (hok : ∃ b, topSeg env s [] = .ok b)
    (hu : s.unbounded = false) (hpre : s.pre = {})
    (hinc : ∀ t ∈ s.includedContexts, t.pre = none) (hexc : ∀ t ∈ s.excludedContexts, t.pre = none)
    (hdm : ∀ t ∈ s.includedContexts ++ s.excludedContexts,
      t.contextKind ≠ "" ∧ t.contextKind ≠ "user") :
    RuleMatchAt env f pre.length ↔
      Included env.ctx s ∨ (¬ Excluded env.ctx s ∧
        Spec.segRules (topSeg env) env [s.key] s s.rules = .ok true) := by
  rw [evaluate_segment_clause_iff h hop hafter hv h0 h1 (by
      intro k' seg hk' hs'
      rw [hvals] at hk'
      simp only [List.mem_singleton, J.str.injEq] at hk'
      subst hk'; rw [hs] at hs'; cases hs'; exact hok),
    ← inSegment_iff s hs hu hpre hinc hexc hdm]
  simp only [hneg, true_iff]
  constructor
  · rintro ⟨k', seg, hk', hs', hin⟩
    rw [hvals] at hk'
    simp only [List.mem_singleton, J.str.injEq] at hk'
    subst hk'; rw [hs] at hs'; cases hs'; exact hin
  · intro hin; exact ⟨k, s, by rw [hvals]; simp, hs, hin⟩

end probe
end audit

/-! ### (#19) A full instance of `regular_membership`, and the probe flag evaluated -/

namespace AuditEx
open ClauseEval

/-- A `user` context `k` named Bob. -/
def bob : Ctx := .single { kind := "user", key := "k", name := some "Bob" }
def nameIsBob : Clause :=
  { attr := { raw := "name", single := "name" }, op := "in", values := [.str "Bob"] }
/-- A regular segment with all four lists and one rule. -/
def seg : Segment :=
  { key := "s", included := ["a"], excluded := ["b"],
    includedContexts := [{ contextKind := "org", values := ["o1"] }],
    excludedContexts := [{ contextKind := "org", values := ["o2"] }],
    rules := [{ clauses := [nameIsBob] }] }
/-- A segment whose only rule has a clause without attribute reference. -/
def badSeg : Segment := { key := "bad", rules := [{ clauses := [{ op := "in" }] }] }
def envOf (ctx : Ctx) : Env :=
  { opts := {}, store := Store.ofLists [] [seg, badSeg], bs := none, ctx := ctx,
    rx := fun _ _ => none }

theorem seg_hdm : ∀ t ∈ seg.includedContexts ++ seg.excludedContexts,
    t.contextKind ≠ "" ∧ t.contextKind ≠ "user" := by
  intro t ht
  simp only [seg, List.cons_append, List.nil_append, List.mem_cons, List.not_mem_nil, or_false] at ht
  rcases ht with rfl | rfl <;> exact ⟨by decide, by decide⟩

theorem bob_not_excluded : ¬ Excluded bob seg := by
  simp [Excluded, inUserList, inKindLists, bob, seg, Ctx.keyByKind, Ctx.byKind, Ctx.individuals,
    normKind]

theorem bob_not_included : ¬ Included bob seg := by
  simp [Included, inUserList, inKindLists, bob, seg, Ctx.keyByKind, Ctx.byKind, Ctx.individuals,
    normKind]

/-- ALL hypotheses of `regular_membership` hold for `seg`, and its right-hand side holds through
the rule (Bob is neither included nor excluded; the rule `name in ["Bob"]` matches): the theorem
yields membership, for every nested-membership function `rec`. -/
example (rec : Spec.SegRec) : Spec.segBody rec (envOf bob) seg [] = .ok true :=
  (regular_membership rec (envOf bob) [] seg rfl rfl rfl (by simp [seg]) (by simp [seg]) seg_hdm).2
    (.inr ⟨bob_not_excluded, rfl⟩)

/-- The same instance read from left to right: the computed membership gives the declarative
disjunction. -/
example (rec : Spec.SegRec) : Included bob seg ∨ (¬ Excluded bob seg ∧
    Spec.segRules rec (envOf bob) ([] ++ [seg.key]) seg seg.rules = .ok true) :=
  (regular_membership rec (envOf bob) [] seg rfl rfl rfl (by simp [seg]) (by simp [seg]) seg_hdm).1 rfl

/-- A multi-kind context whose `org` key is on the per-kind included list: membership through the
left disjunct, although the `user` key is on the excluded list. -/
def orgCtx : Ctx := .multi [{ kind := "org", key := "o1" }, { kind := "user", key := "b" }]
example (rec : Spec.SegRec) : Spec.segBody rec (envOf orgCtx) seg [] = .ok true :=
  (regular_membership rec (envOf orgCtx) [] seg rfl rfl rfl (by simp [seg]) (by simp [seg]) seg_hdm).2
    (.inl (.inr ⟨{ contextKind := "org", values := ["o1"] }, by simp [seg], "o1",
      by simp [orgCtx, envOf, Ctx.keyByKind, Ctx.byKind, Ctx.individuals, normKind], by simp⟩))

/-- A probe flag: rule 0 never matches (kind `org` is absent), rule 1 is `segmentMatch ["s"]`. -/
def probe : Flag :=
  { key := "probe", on := true, variations := [.bool false, .bool true],
    fallthrough := { variation := some 0 },
    rules := [ { id := "r0", vr := { variation := some 0 },
                 clauses := [{ contextKind := "org", attr := { raw := "key", single := "key" },
                               op := "in", values := [.str "x"] }] },
               { id := "r1", vr := { variation := some 1 },
                 clauses := [{ op := "segmentMatch", values := [.num 7, .str "missing", .str "s"] }] } ] }

theorem probe_atClause : AtClause (envOf bob) probe
    [{ id := "r0", vr := { variation := some 0 },
       clauses := [{ contextKind := "org", attr := { raw := "key", single := "key" },
                     op := "in", values := [.str "x"] }] }]
    { id := "r1", vr := { variation := some 1 },
      clauses := [{ op := "segmentMatch", values := [.num 7, .str "missing", .str "s"] }] } []
    [] { op := "segmentMatch", values := [.num 7, .str "missing", .str "s"] } [] where
  reaches := ReachesRules.of_no_prereqs (by simp [envOf, bob]) rfl rfl rfl
  rules := rfl
  skipped := by
    intro q hq; rw [List.mem_singleton.1 hq]; rfl
  clauses := rfl
  before := by intro q hq; cases hq

/-- The hypotheses of `evaluate_segment_clause_iff` are satisfiable, and its right-hand side holds:
`evaluate` answers RULE_MATCH for rule 1. -/
example : RuleMatchAt (envOf bob) probe 1 :=
  (evaluate_segment_clause_iff probe_atClause rfl (by intro q hq; cases hq) (v := 1) rfl
      (by decide) (by decide)
      (by
        intro k sg hk hs
        simp only [List.mem_cons, reduceCtorEq, J.str.injEq, List.not_mem_nil, or_false,
          false_or] at hk
        rcases hk with rfl | rfl
        · simp [envOf, Store.findSegment, Store.ofLists, seg, badSeg] at hs
        · simp only [envOf, Store.findSegment, Store.ofLists, List.map_cons, List.map_nil,
            List.find?_cons] at hs
          simp only [seg, beq_self_eq_true, Option.map_some, Option.some.injEq] at hs
          subst hs; exact ⟨true, rfl⟩)).2
    (by
      simp only [true_iff]
      exact ⟨"s", seg, by simp, rfl, rfl⟩)

/-- The same, computed by the model itself. -/
example : (evaluate (envOf bob) probe).result.detail.index = some 1 ∧
    (evaluate (envOf bob) probe).result.detail.reason.kind = .ruleMatch ∧
    (evaluate (envOf bob) probe).result.detail.reason.ruleIndex = 1 ∧
    (evaluate (envOf bob) probe).result.detail.reason.ruleId = "r1" ∧
    (evaluate (envOf bob) probe).segLookups = ["missing", "s"] := by decide

/-- A context that is excluded (`user` key `b`): FALLTHROUGH, the rule of `seg` is not consulted. -/
example : (evaluate (envOf (.single { kind := "user", key := "b", name := some "Bob" })) probe
    ).result.detail.reason.kind = .fallthrough := by decide

/-- The same probe with an arbitrary clause in rule 1 (for the other `evaluate`-level statements). -/
def probeC (c : Clause) : Flag :=
  { key := "probe", on := true, variations := [.bool false, .bool true],
    fallthrough := { variation := some 0 },
    rules := [ { id := "r0", vr := { variation := some 0 },
                 clauses := [{ contextKind := "org", attr := { raw := "key", single := "key" },
                               op := "in", values := [.str "x"] }] },
               { id := "r1", vr := { variation := some 1 }, clauses := [c] } ] }

theorem probeC_atClause (ctx : Ctx) (hctx : ctx ≠ .invalid)
    (horg : ctx.byKind "org" = none) (c : Clause) : AtClause (envOf ctx) (probeC c)
    [{ id := "r0", vr := { variation := some 0 },
       clauses := [{ contextKind := "org", attr := { raw := "key", single := "key" },
                     op := "in", values := [.str "x"] }] }]
    { id := "r1", vr := { variation := some 1 }, clauses := [c] } [] [] c [] where
  reaches := ReachesRules.of_no_prereqs hctx rfl rfl rfl
  rules := rfl
  skipped := by
    intro q hq; rw [List.mem_singleton.1 hq]
    simp only [Spec.clausesMatch, Spec.clauseMatch]
    have : clauseMatchNoSeg (envOf ctx).rx (envOf ctx).ctx
        { contextKind := "org", attr := { raw := "key", single := "key" }, op := "in",
          values := [.str "x"] } = .ok false := by
      simp [clauseMatchNoSeg, Ref.isDefined, Ref.errOf, envOf, horg]
    rw [this]; rfl
  clauses := rfl
  before := by intro q hq; cases hq

theorem seg_found (ctx : Ctx) : (envOf ctx).store.findSegment "s" = some seg := rfl

/-- `inSegment_iff` instantiated (all hypotheses), right-hand side through the rule. -/
example : InSegment (envOf bob) seg :=
  (inSegment_iff seg (seg_found bob) rfl rfl (by simp [seg]) (by simp [seg]) seg_hdm).2
    (.inr ⟨bob_not_excluded, rfl⟩)

/-- `evaluate_regular_segment_iff` instantiated: the probe's rule 1 is `segmentMatch ["s"]`. -/
example : RuleMatchAt (envOf bob) (probeC { op := "segmentMatch", values := [.str "s"] }) 1 :=
  (evaluate_regular_segment_iff (probeC_atClause bob (by simp [bob]) rfl _) rfl rfl rfl
      (by intro q hq; cases hq) (v := 1) rfl (by decide) (by decide) seg (seg_found bob)
      ⟨true, rfl⟩ rfl rfl (by simp [seg]) (by simp [seg]) seg_hdm).2
    (.inr ⟨bob_not_excluded, rfl⟩)

/-- `evaluate_segment_clause_all_missing` instantiated: only a missing segment and a number are
referenced; the negated clause matches. -/
example : RuleMatchAt (envOf bob)
    (probeC { op := "segmentMatch", values := [.str "missing", .num 7], negate := true }) 1 :=
  (evaluate_segment_clause_all_missing (probeC_atClause bob (by simp [bob]) rfl _) rfl
      (by intro q hq; cases hq) (v := 1) rfl (by decide) (by decide)
      (by
        intro k hk
        simp only [List.mem_cons, J.str.injEq, reduceCtorEq, List.not_mem_nil, or_false] at hk
        subst hk; rfl)).2 rfl

/-- `regular_membership_false` instantiated: the `user` key `b` is on the excluded list. -/
example (rec : Spec.SegRec) :
    Spec.segBody rec (envOf (.single { kind := "user", key := "b" })) seg [] = .ok false :=
  (regular_membership_false (rec := rec) (env := envOf (.single { kind := "user", key := "b" }))
      (chain := []) seg rfl rfl rfl (by simp [seg]) (by simp [seg]) seg_hdm).2
    ⟨by simp [Included, inUserList, inKindLists, envOf, seg, Ctx.keyByKind, Ctx.byKind,
        Ctx.individuals, normKind],
     .inl (.inl ⟨"b", by simp [envOf, Ctx.keyByKind, Ctx.byKind, Ctx.individuals, normKind],
       by simp [seg]⟩)⟩

/-- `nested_segment_clause` instantiated: the clause `segmentMatch ["s"]` met inside the rules of
some enclosing segment `x` asks the top-level relation. -/
example : ∃ b, Spec.clauseMatch (topSeg (envOf bob)) (envOf bob) ["x"]
      { op := "segmentMatch", values := [.str "s"] } = .ok b ∧
    (b = true ↔ ((false = false) ↔ ∃ k sg, J.str k ∈ [J.str "s"] ∧
      (envOf bob).store.findSegment k = some sg ∧ InSegment (envOf bob) sg)) :=
  nested_segment_clause (env := envOf bob) (chain := ["x"])
    { op := "segmentMatch", values := [.str "s"] } rfl
    (by
      intro k sg hk hs
      simp only [List.mem_singleton, J.str.injEq] at hk
      subst hk
      rw [seg_found bob] at hs; cases hs
      exact ⟨true, rfl⟩)

/-- `member_fixpoint` / `regular_membership_err` instantiated on a segment whose rule is malformed:
the nested error surfaces wrapped with the segment key, and `evaluate` answers MALFORMED_FLAG
(`evaluate_segment_clause_err`). -/
example : topSeg (envOf bob) badSeg [] = .err (.malformedSegment "bad" .emptyAttr) := rfl
example : Malformed (envOf bob) (probeC { op := "segmentMatch", values := [.str "bad"] }) :=
  evaluate_segment_clause_err (e := .malformedSegment "bad" .emptyAttr)
    (probeC_atClause bob (by simp [bob]) rfl _) rfl (vpre := []) (vpost := []) (k := "bad")
    (seg := badSeg) rfl (by intro k' hk'; cases hk') rfl rfl

end AuditEx

#print axioms regular_membership_false
#print axioms regular_membership_err
#print axioms segMatch_err
#print axioms member_fixpoint
#print axioms member_fuel_irrelevant
#print axioms inSegment_iff
#print axioms inSegment_model
#print axioms nested_segment_clause
#print axioms evaluate_segment_clause_iff
#print axioms evaluate_segment_clause_serves
#print axioms evaluate_segment_clause_all_missing
#print axioms evaluate_segment_clause_err
#print axioms evaluate_regular_segment_iff

end LD.C05

/-
  C17 — Decoder robustness and leniency (tree level).

  "… For valid documents, unknown properties are ignored, property order is irrelevant, an omitted
  property equals its default, and an explicit null means the same as omission for every
  list-valued property except a rollout's variations (prerequisites, targets, contextTargets, rules,
  variations, clauses, values, included, excluded, includedContexts, excludedContexts) and for
  offVariation, variation, rollout, seed, bucketBy, attribute, weight, generation,
  debugEventsUntilDate and clientSideAvailability.  Decoding … either returns an error together with
  a zero value … or a value."

  The statements are about the tree-level decoder `LDEval/Model/Codec.lean` (`J` = JSON tree with
  objects as ordered member lists, duplicates allowed).  The named element handlers (`targetH`,
  `clauseH`, …) of `LDEval/Proofs/CodecLemmas.lean` are definitionally the lambdas of the model
  (`readTargets_eq` etc. are `rfl`).
-/
import LDEval.Proofs.CodecLemmas
import LDEval.Proofs.AuditCodecEntry

namespace LD.C17

open LD.Codec

/-! ## 1. Unknown properties are ignored (their value is never inspected) -/

/-- The generic fact: a member whose handler is the identity on every accumulator can be dropped
from any position of the member list. -/
theorem objLoop_skip {σ} (h : σ → String → J → Codec.D σ) (name : String) (v : J)
    (hskip : ∀ s, h s name v = pure s) (init : σ) (pre post : List (String × J)) :
    Codec.objLoop h init (pre ++ (name, v) :: post) = Codec.objLoop h init (pre ++ post) :=
  Codec.objLoop_skip h name v hskip init pre post

/-! ### Top level: flags and segments -/

def flagKnown : List String :=
  ["key", "on", "prerequisites", "targets", "contextTargets", "rules", "fallthrough", "offVariation",
   "variations", "clientSideAvailability", "clientSide", "salt", "trackEvents",
   "trackEventsFallthrough", "debugEventsUntilDate", "version", "deleted", "excludeFromSummaries",
   "samplingRatio", "migration"]

def segmentKnown : List String :=
  ["key", "version", "generation", "deleted", "included", "excluded", "includedContexts",
   "excludedContexts", "rules", "salt", "unbounded", "unboundedContextKind"]

theorem readFlagProp_unknown (a : FlagAcc) (name : String) (v : J) (h : name ∉ flagKnown) :
    Codec.readFlagProp a name v = pure a := by
  simp only [flagKnown, List.mem_cons, List.mem_nil_iff, or_false, not_or] at h
  simp [readFlagProp, h]

theorem readSegmentProp_unknown (s : Segment) (name : String) (v : J) (h : name ∉ segmentKnown) :
    Codec.readSegmentProp s name v = pure s := by
  simp only [segmentKnown, List.mem_cons, List.mem_nil_iff, or_false, not_or] at h
  simp [readSegmentProp, h]

/-- Dropping a member that the flag loop skips. -/
theorem readFlag_drop (name : String) (v : J) (hskip : ∀ a, readFlagProp a name v = pure a)
    (pre post : List (String × J)) :
    Codec.readFlag (.obj (pre ++ (name, v) :: post)) = Codec.readFlag (.obj (pre ++ post)) := by
  show (objLoop readFlagProp {} (pre ++ (name, v) :: post) >>= _) = (objLoop readFlagProp {} (pre ++ post) >>= _)
  rw [Codec.objLoop_skip readFlagProp name v hskip]

theorem readSegment_drop (name : String) (v : J) (hskip : ∀ s, readSegmentProp s name v = pure s)
    (pre post : List (String × J)) :
    Codec.readSegment (.obj (pre ++ (name, v) :: post)) = Codec.readSegment (.obj (pre ++ post)) :=
  Codec.objLoop_skip readSegmentProp name v hskip {} pre post

/-- An unknown top-level member of a flag document — whatever its value, wherever it stands — does
not change the outcome of reading (error or value). -/
theorem unknown_ignored_flag (name : String) (v : J) (h : name ∉ flagKnown)
    (pre post : List (String × J)) :
    Codec.readFlag (.obj (pre ++ (name, v) :: post)) = Codec.readFlag (.obj (pre ++ post)) :=
  readFlag_drop name v (fun a => readFlagProp_unknown a name v h) pre post

theorem unknown_ignored_segment (name : String) (v : J) (h : name ∉ segmentKnown)
    (pre post : List (String × J)) :
    Codec.readSegment (.obj (pre ++ (name, v) :: post)) = Codec.readSegment (.obj (pre ++ post)) :=
  readSegment_drop name v (fun s => readSegmentProp_unknown s name v h) pre post

theorem unknown_ignored_decodeFlag (rx : RegexOracle) (name : String) (v : J) (h : name ∉ flagKnown)
    (pre post : List (String × J)) :
    Codec.decodeFlag rx (.obj (pre ++ (name, v) :: post)) = Codec.decodeFlag rx (.obj (pre ++ post)) := by
  unfold decodeFlag; rw [unknown_ignored_flag name v h]

theorem unknown_ignored_decodeSegment (rx : RegexOracle) (name : String) (v : J)
    (h : name ∉ segmentKnown) (pre post : List (String × J)) :
    Codec.decodeSegment rx (.obj (pre ++ (name, v) :: post)) =
      Codec.decodeSegment rx (.obj (pre ++ post)) := by
  unfold decodeSegment; rw [unknown_ignored_segment name v h]

/-! ### Nested objects -/

def prereqKnown : List String := ["key", "variation"]
def targetKnown : List String := ["contextKind", "values", "variation"]
def clauseKnown : List String := ["contextKind", "attribute", "op", "values", "negate"]
def wvKnown : List String := ["variation", "weight", "untracked"]
def rolloutKnown : List String := ["kind", "contextKind", "variations", "bucketBy", "seed"]
def vrKnown : List String := ["variation", "rollout"]
def ruleKnown : List String := ["id", "variation", "rollout", "clauses", "trackEvents"]
def csaKnown : List String := ["usingEnvironmentId", "usingMobileKey"]
def migrationKnown : List String := ["checkRatio"]
def segTargetKnown : List String := ["contextKind", "values"]
def segRuleKnown : List String := ["id", "clauses", "weight", "bucketBy", "rolloutContextKind"]

theorem prereqH_unknown (p : Prereq) (name : String) (v : J) (h : name ∉ prereqKnown) :
    prereqH p name v = pure p := by
  simp only [prereqKnown, List.mem_cons, List.mem_nil_iff, or_false, not_or] at h
  simp [prereqH, h]

theorem targetH_unknown (t : Target) (name : String) (v : J) (h : name ∉ targetKnown) :
    targetH t name v = pure t := by
  simp only [targetKnown, List.mem_cons, List.mem_nil_iff, or_false, not_or] at h
  simp [targetH, h]

theorem clauseH_unknown (s : Clause × String) (name : String) (v : J) (h : name ∉ clauseKnown) :
    clauseH s name v = pure s := by
  simp only [clauseKnown, List.mem_cons, List.mem_nil_iff, or_false, not_or] at h
  simp [clauseH, h]

theorem wvH_unknown (w : WeightedVariation) (name : String) (v : J) (h : name ∉ wvKnown) :
    wvH w name v = pure w := by
  simp only [wvKnown, List.mem_cons, List.mem_nil_iff, or_false, not_or] at h
  simp [wvH, h]

theorem rolloutH_unknown (s : Rollout × String) (name : String) (v : J) (h : name ∉ rolloutKnown) :
    rolloutH s name v = pure s := by
  simp only [rolloutKnown, List.mem_cons, List.mem_nil_iff, or_false, not_or] at h
  simp [rolloutH, h]

theorem vrH_unknown (o : VariationOrRollout) (name : String) (v : J) (h : name ∉ vrKnown) :
    vrH o name v = pure o := by
  simp only [vrKnown, List.mem_cons, List.mem_nil_iff, or_false, not_or] at h
  simp [vrH, h]

theorem ruleH_unknown (r : FlagRule) (name : String) (v : J) (h : name ∉ ruleKnown) :
    ruleH r name v = pure r := by
  simp only [ruleKnown, List.mem_cons, List.mem_nil_iff, or_false, not_or] at h
  simp [ruleH, h]

theorem csaH_unknown (c : ClientSideAvailability) (name : String) (v : J) (h : name ∉ csaKnown) :
    csaH c name v = pure c := by
  simp only [csaKnown, List.mem_cons, List.mem_nil_iff, or_false, not_or] at h
  simp [csaH, h]

theorem migrationH_unknown (c : Option Int) (name : String) (v : J) (h : name ∉ migrationKnown) :
    migrationH c name v = pure c := by
  simp only [migrationKnown, List.mem_cons, List.mem_nil_iff, or_false] at h
  simp [migrationH, h]

theorem segTargetH_unknown (t : SegmentTarget) (name : String) (v : J) (h : name ∉ segTargetKnown) :
    segTargetH t name v = pure t := by
  simp only [segTargetKnown, List.mem_cons, List.mem_nil_iff, or_false, not_or] at h
  simp [segTargetH, h]

theorem segRuleH_unknown (s : SegmentRule × String) (name : String) (v : J) (h : name ∉ segRuleKnown) :
    segRuleH s name v = pure s := by
  simp only [segRuleKnown, List.mem_cons, List.mem_nil_iff, or_false, not_or] at h
  simp [segRuleH, h]

/-- An unknown member of one prerequisite object. -/
theorem unknown_ignored_prereq (name : String) (v : J) (h : name ∉ prereqKnown)
    (pre post : List (String × J)) :
    readPrereq (.obj (pre ++ (name, v) :: post)) = readPrereq (.obj (pre ++ post)) :=
  Codec.objLoop_skip prereqH name v (fun p => prereqH_unknown p name v h) _ pre post

theorem unknown_ignored_target (name : String) (v : J) (h : name ∉ targetKnown)
    (pre post : List (String × J)) :
    readTarget (.obj (pre ++ (name, v) :: post)) = readTarget (.obj (pre ++ post)) :=
  Codec.objLoop_skip targetH name v (fun t => targetH_unknown t name v h) _ pre post

theorem unknown_ignored_clause (name : String) (v : J) (h : name ∉ clauseKnown)
    (pre post : List (String × J)) :
    readClause (.obj (pre ++ (name, v) :: post)) = readClause (.obj (pre ++ post)) := by
  show (objLoop clauseH _ (pre ++ (name, v) :: post) >>= _) = (objLoop clauseH _ (pre ++ post) >>= _)
  rw [Codec.objLoop_skip clauseH name v (fun s => clauseH_unknown s name v h)]

theorem unknown_ignored_weightedVariation (name : String) (v : J) (h : name ∉ wvKnown)
    (pre post : List (String × J)) :
    readWV (.obj (pre ++ (name, v) :: post)) = readWV (.obj (pre ++ post)) :=
  Codec.objLoop_skip wvH name v (fun w => wvH_unknown w name v h) _ pre post

theorem unknown_ignored_rollout (out : Rollout) (name : String) (v : J) (h : name ∉ rolloutKnown)
    (pre post : List (String × J)) :
    Codec.readRollout out (.obj (pre ++ (name, v) :: post)) = Codec.readRollout out (.obj (pre ++ post)) := by
  show (objLoop rolloutH _ (pre ++ (name, v) :: post) >>= _) = (objLoop rolloutH _ (pre ++ post) >>= _)
  rw [Codec.objLoop_skip rolloutH name v (fun s => rolloutH_unknown s name v h)]

/-- An unknown member of a fallthrough object. -/
theorem unknown_ignored_variationOrRollout (out : VariationOrRollout) (name : String) (v : J)
    (h : name ∉ vrKnown) (pre post : List (String × J)) :
    Codec.readVariationOrRollout out (.obj (pre ++ (name, v) :: post)) =
      Codec.readVariationOrRollout out (.obj (pre ++ post)) :=
  Codec.objLoop_skip vrH name v (fun o => vrH_unknown o name v h) _ pre post

theorem unknown_ignored_rule (name : String) (v : J) (h : name ∉ ruleKnown)
    (pre post : List (String × J)) :
    readFlagRule (.obj (pre ++ (name, v) :: post)) = readFlagRule (.obj (pre ++ post)) :=
  Codec.objLoop_skip ruleH name v (fun r => ruleH_unknown r name v h) _ pre post

theorem unknown_ignored_clientSideAvailability (out : ClientSideAvailability) (name : String) (v : J)
    (h : name ∉ csaKnown) (pre post : List (String × J)) :
    Codec.readClientSideAvailability out (.obj (pre ++ (name, v) :: post)) =
      Codec.readClientSideAvailability out (.obj (pre ++ post)) :=
  Codec.objLoop_skip csaH name v (fun c => csaH_unknown c name v h) _ pre post

theorem unknown_ignored_migration (name : String) (v : J) (h : name ∉ migrationKnown)
    (pre post : List (String × J)) :
    Codec.readMigration (.obj (pre ++ (name, v) :: post)) = Codec.readMigration (.obj (pre ++ post)) := by
  show (objLoop migrationH _ (pre ++ (name, v) :: post) >>= _) = (objLoop migrationH _ (pre ++ post) >>= _)
  rw [Codec.objLoop_skip migrationH name v (fun c => migrationH_unknown c name v h)]

theorem unknown_ignored_segmentTarget (name : String) (v : J) (h : name ∉ segTargetKnown)
    (pre post : List (String × J)) :
    readSegTarget (.obj (pre ++ (name, v) :: post)) = readSegTarget (.obj (pre ++ post)) :=
  Codec.objLoop_skip segTargetH name v (fun t => segTargetH_unknown t name v h) _ pre post

theorem unknown_ignored_segmentRule (name : String) (v : J) (h : name ∉ segRuleKnown)
    (pre post : List (String × J)) :
    readSegRule (.obj (pre ++ (name, v) :: post)) = readSegRule (.obj (pre ++ post)) := by
  show (objLoop segRuleH _ (pre ++ (name, v) :: post) >>= _) = (objLoop segRuleH _ (pre ++ post) >>= _)
  rw [Codec.objLoop_skip segRuleH name v (fun s => segRuleH_unknown s name v h)]

/-! ### Lifting through the enclosing arrays and objects

An element of an array may be replaced by any element that reads the same; a member value may be
replaced by any value the handler treats the same.  With these two congruences the element-level
facts above reach any depth of a document. -/

theorem readPrerequisites_congr (acc : List Prereq) (x x' : J) (hx : readPrereq x = readPrereq x')
    (l1 l2 : List J) :
    Codec.readPrerequisites acc (.arr (l1 ++ x :: l2)) = Codec.readPrerequisites acc (.arr (l1 ++ x' :: l2)) := by
  simp only [readPrerequisites_eq, rArrayOrNull, pure_bind, mapM_replace readPrereq x x' hx]

theorem readTargets_congr (acc : List Target) (x x' : J) (hx : readTarget x = readTarget x')
    (l1 l2 : List J) :
    Codec.readTargets acc (.arr (l1 ++ x :: l2)) = Codec.readTargets acc (.arr (l1 ++ x' :: l2)) := by
  simp only [readTargets_eq, rArrayOrNull, pure_bind, mapM_replace readTarget x x' hx]

theorem readClauses_congr (acc : List Clause) (x x' : J) (hx : readClause x = readClause x')
    (l1 l2 : List J) :
    Codec.readClauses acc (.arr (l1 ++ x :: l2)) = Codec.readClauses acc (.arr (l1 ++ x' :: l2)) := by
  simp only [readClauses_eq, rArrayOrNull, pure_bind, mapM_replace readClause x x' hx]

theorem readWeightedVariations_congr (acc : List WeightedVariation) (x x' : J)
    (hx : readWV x = readWV x') (l1 l2 : List J) :
    Codec.readWeightedVariations acc (.arr (l1 ++ x :: l2)) =
      Codec.readWeightedVariations acc (.arr (l1 ++ x' :: l2)) := by
  simp only [readWeightedVariations_eq, rArray, pure_bind, mapM_replace readWV x x' hx]

theorem readFlagRules_congr (acc : List FlagRule) (x x' : J) (hx : readFlagRule x = readFlagRule x')
    (l1 l2 : List J) :
    Codec.readFlagRules acc (.arr (l1 ++ x :: l2)) = Codec.readFlagRules acc (.arr (l1 ++ x' :: l2)) := by
  simp only [readFlagRules_eq, rArrayOrNull, pure_bind, mapM_replace readFlagRule x x' hx]

theorem readSegmentTargets_congr (acc : List SegmentTarget) (x x' : J)
    (hx : readSegTarget x = readSegTarget x') (l1 l2 : List J) :
    Codec.readSegmentTargets acc (.arr (l1 ++ x :: l2)) =
      Codec.readSegmentTargets acc (.arr (l1 ++ x' :: l2)) := by
  simp only [readSegmentTargets_eq, rArrayOrNull, pure_bind, mapM_replace readSegTarget x x' hx]

theorem readSegmentRules_congr (acc : List SegmentRule) (x x' : J) (hx : readSegRule x = readSegRule x')
    (l1 l2 : List J) :
    Codec.readSegmentRules acc (.arr (l1 ++ x :: l2)) = Codec.readSegmentRules acc (.arr (l1 ++ x' :: l2)) := by
  simp only [readSegmentRules_eq, rArrayOrNull, pure_bind, mapM_replace readSegRule x x' hx]

/-- Replacing a member's value by one its handler treats identically. -/
theorem objLoop_congr_member {σ} (h : σ → String → J → Codec.D σ) (name : String) (v v' : J)
    (hv : ∀ s, h s name v = h s name v') (init : σ) (pre post : List (String × J)) :
    Codec.objLoop h init (pre ++ (name, v) :: post) = Codec.objLoop h init (pre ++ (name, v') :: post) := by
  rw [objLoop_append, objLoop_append]
  congr 1; funext s
  rw [objLoop_cons, objLoop_cons, hv s]

theorem readFlag_congr_member (name : String) (v v' : J)
    (hv : ∀ a, readFlagProp a name v = readFlagProp a name v') (pre post : List (String × J)) :
    Codec.readFlag (.obj (pre ++ (name, v) :: post)) = Codec.readFlag (.obj (pre ++ (name, v') :: post)) := by
  show (objLoop readFlagProp {} _ >>= _) = (objLoop readFlagProp {} _ >>= _)
  rw [objLoop_congr_member readFlagProp name v v' hv]

theorem readSegment_congr_member (name : String) (v v' : J)
    (hv : ∀ s, readSegmentProp s name v = readSegmentProp s name v') (pre post : List (String × J)) :
    Codec.readSegment (.obj (pre ++ (name, v) :: post)) =
      Codec.readSegment (.obj (pre ++ (name, v') :: post)) :=
  objLoop_congr_member readSegmentProp name v v' hv {} pre post

theorem readFlagRule_congr_member (name : String) (v v' : J)
    (hv : ∀ r, ruleH r name v = ruleH r name v') (pre post : List (String × J)) :
    readFlagRule (.obj (pre ++ (name, v) :: post)) = readFlagRule (.obj (pre ++ (name, v') :: post)) :=
  objLoop_congr_member ruleH name v v' hv {} pre post

/-- Whole-document instance, three levels deep: an unknown member of a clause of a rule of a flag
(any clause, any rule, any position, any value) is ignored. -/
theorem unknown_ignored_flag_rule_clause (name : String) (v : J) (h : name ∉ clauseKnown)
    (p1 p2 : List (String × J)) (r1 r2 : List J) (q1 q2 : List (String × J)) (c1 c2 : List J)
    (pre post : List (String × J)) :
    Codec.readFlag (.obj (p1 ++ ("rules", .arr (r1 ++ .obj (q1 ++ ("clauses",
        .arr (c1 ++ .obj (pre ++ (name, v) :: post) :: c2)) :: q2) :: r2)) :: p2)) =
    Codec.readFlag (.obj (p1 ++ ("rules", .arr (r1 ++ .obj (q1 ++ ("clauses",
        .arr (c1 ++ .obj (pre ++ post) :: c2)) :: q2) :: r2)) :: p2)) := by
  apply readFlag_congr_member
  intro a
  have : ∀ acc, Codec.readFlagRules acc (.arr (r1 ++ .obj (q1 ++ ("clauses",
        .arr (c1 ++ .obj (pre ++ (name, v) :: post) :: c2)) :: q2) :: r2)) =
      Codec.readFlagRules acc (.arr (r1 ++ .obj (q1 ++ ("clauses",
        .arr (c1 ++ .obj (pre ++ post) :: c2)) :: q2) :: r2)) := by
    intro acc
    apply readFlagRules_congr
    apply readFlagRule_congr_member
    intro r
    have hc := readClauses_congr r.clauses _ _ (unknown_ignored_clause name v h pre post) c1 c2
    show (do let x ← readClauses r.clauses _; pure { r with clauses := x }) =
      (do let x ← readClauses r.clauses _; pure { r with clauses := x })
    rw [hc]
  show (do let x ← readFlagRules a.flag.rules _; pure { a with flag := { a.flag with rules := x } }) =
    (do let x ← readFlagRules a.flag.rules _; pure { a with flag := { a.flag with rules := x } })
  rw [this]

/-- Likewise for a segment: an unknown member of a target object in `includedContexts`. -/
theorem unknown_ignored_segment_includedContexts (name : String) (v : J) (h : name ∉ segTargetKnown)
    (p1 p2 : List (String × J)) (t1 t2 : List J) (pre post : List (String × J)) :
    Codec.readSegment (.obj (p1 ++ ("includedContexts",
        .arr (t1 ++ .obj (pre ++ (name, v) :: post) :: t2)) :: p2)) =
    Codec.readSegment (.obj (p1 ++ ("includedContexts", .arr (t1 ++ .obj (pre ++ post) :: t2)) :: p2)) := by
  apply readSegment_congr_member
  intro s
  have hc := readSegmentTargets_congr s.includedContexts _ _
    (unknown_ignored_segmentTarget name v h pre post) t1 t2
  show (do let x ← readSegmentTargets s.includedContexts _; pure { s with includedContexts := x }) =
    (do let x ← readSegmentTargets s.includedContexts _; pure { s with includedContexts := x })
  rw [hc]

/-! ## 2. Property order is irrelevant -/

/-- Handlers of two different flag properties commute on every accumulator (each writes its own
component, reads only that component, and there is only one error value). -/
theorem readFlagProp_comm (a : FlagAcc) (n1 : String) (v1 : J) (n2 : String) (v2 : J) (h : n1 ≠ n2) :
    (Codec.readFlagProp a n1 v1 >>= fun a' => Codec.readFlagProp a' n2 v2) =
      (Codec.readFlagProp a n2 v2 >>= fun a' => Codec.readFlagProp a' n1 v1) :=
  Codec.readFlagProp_comm n1 n2 h a v1 v2

theorem readSegmentProp_comm (s : Segment) (n1 : String) (v1 : J) (n2 : String) (v2 : J) (h : n1 ≠ n2) :
    (Codec.readSegmentProp s n1 v1 >>= fun s' => Codec.readSegmentProp s' n2 v2) =
      (Codec.readSegmentProp s n2 v2 >>= fun s' => Codec.readSegmentProp s' n1 v1) :=
  Codec.readSegmentProp_comm n1 n2 h s v1 v2

/-- The generic permutation lemma: a member loop whose handlers for different names commute gives
the same outcome on any two orderings of a member list without duplicate names. -/
theorem objLoop_perm {σ} (h : σ → String → J → Codec.D σ)
    (hc : ∀ s n1 v1 n2 v2, n1 ≠ n2 →
      (h s n1 v1 >>= fun s' => h s' n2 v2) = (h s n2 v2 >>= fun s' => h s' n1 v1))
    {kvs kvs' : List (String × J)} (hp : kvs.Perm kvs') (hnd : (kvs.map (·.1)).Nodup) (init : σ) :
    Codec.objLoop h init kvs = Codec.objLoop h init kvs' :=
  Codec.objLoop_perm h (fun n1 n2 hne s v1 v2 => hc s n1 v1 n2 v2 hne) hp hnd init

/-- **Order irrelevance, flags**: two documents with the same members in different orders (no
duplicate names) read to the same outcome. -/
theorem order_irrelevant_flag {kvs kvs' : List (String × J)} (hp : kvs.Perm kvs')
    (hnd : (kvs.map (·.1)).Nodup) :
    Codec.readFlag (.obj kvs) = Codec.readFlag (.obj kvs') := by
  show (objLoop readFlagProp {} kvs >>= _) = (objLoop readFlagProp {} kvs' >>= _)
  rw [Codec.objLoop_perm readFlagProp Codec.readFlagProp_comm hp hnd]

theorem order_irrelevant_segment {kvs kvs' : List (String × J)} (hp : kvs.Perm kvs')
    (hnd : (kvs.map (·.1)).Nodup) :
    Codec.readSegment (.obj kvs) = Codec.readSegment (.obj kvs') :=
  Codec.objLoop_perm readSegmentProp Codec.readSegmentProp_comm hp hnd {}

theorem order_irrelevant_decodeFlag (rx : RegexOracle) {kvs kvs' : List (String × J)}
    (hp : kvs.Perm kvs') (hnd : (kvs.map (·.1)).Nodup) :
    Codec.decodeFlag rx (.obj kvs) = Codec.decodeFlag rx (.obj kvs') := by
  unfold decodeFlag; rw [order_irrelevant_flag hp hnd]

theorem order_irrelevant_decodeSegment (rx : RegexOracle) {kvs kvs' : List (String × J)}
    (hp : kvs.Perm kvs') (hnd : (kvs.map (·.1)).Nodup) :
    Codec.decodeSegment rx (.obj kvs) = Codec.decodeSegment rx (.obj kvs') := by
  unfold decodeSegment; rw [order_irrelevant_segment hp hnd]

/-- A member can be moved to the front of a flag document past members with other names (which
may repeat among themselves). -/
theorem readFlag_move_front (name : String) (v : J) (pre post : List (String × J))
    (h : name ∉ pre.map (·.1)) :
    Codec.readFlag (.obj (pre ++ (name, v) :: post)) = Codec.readFlag (.obj ((name, v) :: (pre ++ post))) := by
  show (objLoop readFlagProp {} _ >>= _) = (objLoop readFlagProp {} _ >>= _)
  rw [Codec.objLoop_move_front readFlagProp Codec.readFlagProp_comm name v pre h]

theorem readSegment_move_front (name : String) (v : J) (pre post : List (String × J))
    (h : name ∉ pre.map (·.1)) :
    Codec.readSegment (.obj (pre ++ (name, v) :: post)) =
      Codec.readSegment (.obj ((name, v) :: (pre ++ post))) :=
  Codec.objLoop_move_front readSegmentProp Codec.readSegmentProp_comm name v pre h {} post

/-! ### Nested objects: the same at every level -/

theorem order_irrelevant_prereq {kvs kvs' : List (String × J)} (hp : kvs.Perm kvs')
    (hnd : (kvs.map (·.1)).Nodup) : readPrereq (.obj kvs) = readPrereq (.obj kvs') :=
  Codec.objLoop_perm prereqH prereqH_comm hp hnd _

theorem order_irrelevant_target {kvs kvs' : List (String × J)} (hp : kvs.Perm kvs')
    (hnd : (kvs.map (·.1)).Nodup) : readTarget (.obj kvs) = readTarget (.obj kvs') :=
  Codec.objLoop_perm targetH targetH_comm hp hnd _

/-- In particular `attribute` may come before or after `contextKind`: the reference is built from
both only when the clause object ends. -/
theorem order_irrelevant_clause {kvs kvs' : List (String × J)} (hp : kvs.Perm kvs')
    (hnd : (kvs.map (·.1)).Nodup) : readClause (.obj kvs) = readClause (.obj kvs') := by
  show (objLoop clauseH _ kvs >>= _) = (objLoop clauseH _ kvs' >>= _)
  rw [Codec.objLoop_perm clauseH clauseH_comm hp hnd]

theorem order_irrelevant_weightedVariation {kvs kvs' : List (String × J)} (hp : kvs.Perm kvs')
    (hnd : (kvs.map (·.1)).Nodup) : readWV (.obj kvs) = readWV (.obj kvs') :=
  Codec.objLoop_perm wvH wvH_comm hp hnd _

theorem order_irrelevant_rollout (out : Rollout) {kvs kvs' : List (String × J)} (hp : kvs.Perm kvs')
    (hnd : (kvs.map (·.1)).Nodup) : Codec.readRollout out (.obj kvs) = Codec.readRollout out (.obj kvs') := by
  show (objLoop rolloutH _ kvs >>= _) = (objLoop rolloutH _ kvs' >>= _)
  rw [Codec.objLoop_perm rolloutH rolloutH_comm hp hnd]

theorem order_irrelevant_variationOrRollout (out : VariationOrRollout) {kvs kvs' : List (String × J)}
    (hp : kvs.Perm kvs') (hnd : (kvs.map (·.1)).Nodup) :
    Codec.readVariationOrRollout out (.obj kvs) = Codec.readVariationOrRollout out (.obj kvs') :=
  Codec.objLoop_perm vrH vrH_comm hp hnd _

theorem order_irrelevant_rule {kvs kvs' : List (String × J)} (hp : kvs.Perm kvs')
    (hnd : (kvs.map (·.1)).Nodup) : readFlagRule (.obj kvs) = readFlagRule (.obj kvs') :=
  Codec.objLoop_perm ruleH ruleH_comm hp hnd _

theorem order_irrelevant_clientSideAvailability (out : ClientSideAvailability)
    {kvs kvs' : List (String × J)} (hp : kvs.Perm kvs') (hnd : (kvs.map (·.1)).Nodup) :
    Codec.readClientSideAvailability out (.obj kvs) = Codec.readClientSideAvailability out (.obj kvs') :=
  Codec.objLoop_perm csaH csaH_comm hp hnd _

theorem order_irrelevant_segmentTarget {kvs kvs' : List (String × J)} (hp : kvs.Perm kvs')
    (hnd : (kvs.map (·.1)).Nodup) : readSegTarget (.obj kvs) = readSegTarget (.obj kvs') :=
  Codec.objLoop_perm segTargetH segTargetH_comm hp hnd _

theorem order_irrelevant_segmentRule {kvs kvs' : List (String × J)} (hp : kvs.Perm kvs')
    (hnd : (kvs.map (·.1)).Nodup) : readSegRule (.obj kvs) = readSegRule (.obj kvs') := by
  show (objLoop segRuleH _ kvs >>= _) = (objLoop segRuleH _ kvs' >>= _)
  rw [Codec.objLoop_perm segRuleH segRuleH_comm hp hnd]

/-! ## 3. An omitted property equals its default

Two shapes.  (a) For list-valued properties and `fallthrough`, a member carrying the default
(`[]`, `{}`) is the identity on *every* accumulator, so it can be dropped from any position, no
side condition.  (b) For scalar properties a member carrying the default overwrites, so it equals
omission when the property has not been set by an earlier member; later members (even of the same
name) are unconstrained, and the other members may repeat. -/

/-- (b), generic: a member that leaves the *initial* accumulator unchanged and does not occur
earlier in the document can be dropped. -/
theorem readFlag_drop_default (name : String) (dflt : J)
    (h0 : Codec.readFlagProp {} name dflt = pure {}) (pre post : List (String × J))
    (h : name ∉ pre.map (·.1)) :
    Codec.readFlag (.obj (pre ++ (name, dflt) :: post)) = Codec.readFlag (.obj (pre ++ post)) := by
  rw [readFlag_move_front name dflt pre post h]
  show (objLoop readFlagProp {} ((name, dflt) :: (pre ++ post)) >>= _) = (objLoop readFlagProp {} (pre ++ post) >>= _)
  rw [objLoop_cons, h0]; rfl

/-- The member-first form asked for: the default as first member equals omission. -/
theorem readFlag_first_default (name : String) (dflt : J)
    (h0 : Codec.readFlagProp {} name dflt = pure {}) (rest : List (String × J)) :
    Codec.readFlag (.obj ((name, dflt) :: rest)) = Codec.readFlag (.obj rest) :=
  readFlag_drop_default name dflt h0 [] rest (by simp)

theorem readSegment_drop_default (name : String) (dflt : J)
    (h0 : Codec.readSegmentProp {} name dflt = pure {}) (pre post : List (String × J))
    (h : name ∉ pre.map (·.1)) :
    Codec.readSegment (.obj (pre ++ (name, dflt) :: post)) = Codec.readSegment (.obj (pre ++ post)) := by
  rw [readSegment_move_front name dflt pre post h]
  show objLoop readSegmentProp {} ((name, dflt) :: (pre ++ post)) = objLoop readSegmentProp {} (pre ++ post)
  rw [objLoop_cons, h0]; rfl

theorem goInt_zero : goInt 0 = 0 := by decide
theorem goUint64_zero : Codec.goUint64 0 = 0 := by decide

/-! ### Flags, scalar properties -/

theorem default_on : Codec.readFlagProp {} "on" (.bool false) = pure {} := rfl
theorem default_key : Codec.readFlagProp {} "key" (.str "") = pure {} := rfl
theorem default_salt : Codec.readFlagProp {} "salt" (.str "") = pure {} := rfl
theorem default_trackEvents : Codec.readFlagProp {} "trackEvents" (.bool false) = pure {} := rfl
theorem default_trackEventsFallthrough :
    Codec.readFlagProp {} "trackEventsFallthrough" (.bool false) = pure {} := rfl
theorem default_deleted : Codec.readFlagProp {} "deleted" (.bool false) = pure {} := rfl
theorem default_excludeFromSummaries :
    Codec.readFlagProp {} "excludeFromSummaries" (.bool false) = pure {} := rfl
theorem default_clientSide : Codec.readFlagProp {} "clientSide" (.bool false) = pure {} := rfl
theorem default_version : Codec.readFlagProp {} "version" (.num 0) = pure {} := by
  simp [readFlagProp, rInt, goInt_zero]
theorem default_offVariation : Codec.readFlagProp {} "offVariation" .null = pure {} := rfl
theorem default_debugEventsUntilDate : Codec.readFlagProp {} "debugEventsUntilDate" .null = pure {} := by
  simp [readFlagProp, rFloatOrNull, goUint64_zero]
theorem default_clientSideAvailability :
    Codec.readFlagProp {} "clientSideAvailability" .null = pure {} := rfl

/-- `"on": false` equals omission, in the form of the property text (the hypothesis on `post` is
not even needed: see `readFlag_drop_default`). -/
theorem omitted_is_default_on (pre post : List (String × J)) (h : "on" ∉ (pre ++ post).map (·.1)) :
    Codec.readFlag (.obj (pre ++ ("on", .bool false) :: post)) = Codec.readFlag (.obj (pre ++ post)) :=
  readFlag_drop_default _ _ default_on pre post (by
    intro hm; apply h; rw [List.map_append]; exact List.mem_append_left _ hm)

theorem omitted_is_default_on_first (rest : List (String × J)) :
    Codec.readFlag (.obj (("on", .bool false) :: rest)) = Codec.readFlag (.obj rest) :=
  readFlag_first_default _ _ default_on rest

theorem omitted_is_default_key (pre post : List (String × J)) (h : "key" ∉ pre.map (·.1)) :
    Codec.readFlag (.obj (pre ++ ("key", .str "") :: post)) = Codec.readFlag (.obj (pre ++ post)) :=
  readFlag_drop_default _ _ default_key pre post h

theorem omitted_is_default_salt (pre post : List (String × J)) (h : "salt" ∉ pre.map (·.1)) :
    Codec.readFlag (.obj (pre ++ ("salt", .str "") :: post)) = Codec.readFlag (.obj (pre ++ post)) :=
  readFlag_drop_default _ _ default_salt pre post h

theorem omitted_is_default_trackEvents (pre post : List (String × J))
    (h : "trackEvents" ∉ pre.map (·.1)) :
    Codec.readFlag (.obj (pre ++ ("trackEvents", .bool false) :: post)) =
      Codec.readFlag (.obj (pre ++ post)) :=
  readFlag_drop_default _ _ default_trackEvents pre post h

theorem omitted_is_default_trackEventsFallthrough (pre post : List (String × J))
    (h : "trackEventsFallthrough" ∉ pre.map (·.1)) :
    Codec.readFlag (.obj (pre ++ ("trackEventsFallthrough", .bool false) :: post)) =
      Codec.readFlag (.obj (pre ++ post)) :=
  readFlag_drop_default _ _ default_trackEventsFallthrough pre post h

theorem omitted_is_default_deleted (pre post : List (String × J)) (h : "deleted" ∉ pre.map (·.1)) :
    Codec.readFlag (.obj (pre ++ ("deleted", .bool false) :: post)) = Codec.readFlag (.obj (pre ++ post)) :=
  readFlag_drop_default _ _ default_deleted pre post h

theorem omitted_is_default_excludeFromSummaries (pre post : List (String × J))
    (h : "excludeFromSummaries" ∉ pre.map (·.1)) :
    Codec.readFlag (.obj (pre ++ ("excludeFromSummaries", .bool false) :: post)) =
      Codec.readFlag (.obj (pre ++ post)) :=
  readFlag_drop_default _ _ default_excludeFromSummaries pre post h

/-- `"clientSide": false` equals omission (it only feeds `deprecatedClientSide`, whatever
`clientSideAvailability` says). -/
theorem omitted_is_default_clientSide (pre post : List (String × J))
    (h : "clientSide" ∉ pre.map (·.1)) :
    Codec.readFlag (.obj (pre ++ ("clientSide", .bool false) :: post)) =
      Codec.readFlag (.obj (pre ++ post)) :=
  readFlag_drop_default _ _ default_clientSide pre post h

theorem omitted_is_default_version (pre post : List (String × J)) (h : "version" ∉ pre.map (·.1)) :
    Codec.readFlag (.obj (pre ++ ("version", .num 0) :: post)) = Codec.readFlag (.obj (pre ++ post)) :=
  readFlag_drop_default _ _ default_version pre post h

theorem omitted_is_default_offVariation (pre post : List (String × J))
    (h : "offVariation" ∉ pre.map (·.1)) :
    Codec.readFlag (.obj (pre ++ ("offVariation", .null) :: post)) = Codec.readFlag (.obj (pre ++ post)) :=
  readFlag_drop_default _ _ default_offVariation pre post h

theorem omitted_is_default_debugEventsUntilDate (pre post : List (String × J))
    (h : "debugEventsUntilDate" ∉ pre.map (·.1)) :
    Codec.readFlag (.obj (pre ++ ("debugEventsUntilDate", .null) :: post)) =
      Codec.readFlag (.obj (pre ++ post)) :=
  readFlag_drop_default _ _ default_debugEventsUntilDate pre post h

/-! ### Flags, list-valued properties and `fallthrough`: identity on every accumulator -/

theorem default_prerequisites (a : FlagAcc) : Codec.readFlagProp a "prerequisites" (.arr []) = pure a := by
  simp [readFlagProp, readPrerequisites, rArrayOrNull]
theorem default_targets (a : FlagAcc) : Codec.readFlagProp a "targets" (.arr []) = pure a := by
  simp [readFlagProp, readTargets, rArrayOrNull]
theorem default_contextTargets (a : FlagAcc) : Codec.readFlagProp a "contextTargets" (.arr []) = pure a := by
  simp [readFlagProp, readTargets, rArrayOrNull]
theorem default_rules (a : FlagAcc) : Codec.readFlagProp a "rules" (.arr []) = pure a := by
  simp [readFlagProp, readFlagRules, rArrayOrNull]
theorem default_variations (a : FlagAcc) : Codec.readFlagProp a "variations" (.arr []) = pure a := by
  simp [readFlagProp, readValueList, rArrayOrNull]
theorem default_fallthrough (a : FlagAcc) : Codec.readFlagProp a "fallthrough" (.obj []) = pure a := by
  simp [readFlagProp, readVariationOrRollout, rObject, objLoop]

theorem omitted_is_default_prerequisites (pre post : List (String × J)) :
    Codec.readFlag (.obj (pre ++ ("prerequisites", .arr []) :: post)) = Codec.readFlag (.obj (pre ++ post)) :=
  readFlag_drop _ _ default_prerequisites pre post
theorem omitted_is_default_targets (pre post : List (String × J)) :
    Codec.readFlag (.obj (pre ++ ("targets", .arr []) :: post)) = Codec.readFlag (.obj (pre ++ post)) :=
  readFlag_drop _ _ default_targets pre post
theorem omitted_is_default_contextTargets (pre post : List (String × J)) :
    Codec.readFlag (.obj (pre ++ ("contextTargets", .arr []) :: post)) = Codec.readFlag (.obj (pre ++ post)) :=
  readFlag_drop _ _ default_contextTargets pre post
theorem omitted_is_default_rules (pre post : List (String × J)) :
    Codec.readFlag (.obj (pre ++ ("rules", .arr []) :: post)) = Codec.readFlag (.obj (pre ++ post)) :=
  readFlag_drop _ _ default_rules pre post
theorem omitted_is_default_variations (pre post : List (String × J)) :
    Codec.readFlag (.obj (pre ++ ("variations", .arr []) :: post)) = Codec.readFlag (.obj (pre ++ post)) :=
  readFlag_drop _ _ default_variations pre post
theorem omitted_is_default_fallthrough (pre post : List (String × J)) :
    Codec.readFlag (.obj (pre ++ ("fallthrough", .obj []) :: post)) = Codec.readFlag (.obj (pre ++ post)) :=
  readFlag_drop _ _ default_fallthrough pre post

/-- The empty document is the all-defaults flag (with the client-side default: mobile key only). -/
theorem readFlag_empty : Codec.readFlag (.obj []) =
    .ok { fmeta := { clientSide := { usingMobileKey := true, usingEnvironmentID := false, explicit := false } } } := rfl

/-! ### Segments -/

theorem seg_default_key : Codec.readSegmentProp {} "key" (.str "") = pure {} := rfl
theorem seg_default_salt : Codec.readSegmentProp {} "salt" (.str "") = pure {} := rfl
theorem seg_default_deleted : Codec.readSegmentProp {} "deleted" (.bool false) = pure {} := rfl
theorem seg_default_unbounded : Codec.readSegmentProp {} "unbounded" (.bool false) = pure {} := rfl
theorem seg_default_unboundedContextKind :
    Codec.readSegmentProp {} "unboundedContextKind" (.str "") = pure {} := rfl
theorem seg_default_generation : Codec.readSegmentProp {} "generation" .null = pure {} := rfl
theorem seg_default_version : Codec.readSegmentProp {} "version" (.num 0) = pure {} := by
  simp [readSegmentProp, rInt, goInt_zero]

theorem seg_default_included (s : Segment) : Codec.readSegmentProp s "included" (.arr []) = pure s := by
  simp [readSegmentProp, readStringList, rArrayOrNull]
theorem seg_default_excluded (s : Segment) : Codec.readSegmentProp s "excluded" (.arr []) = pure s := by
  simp [readSegmentProp, readStringList, rArrayOrNull]
theorem seg_default_includedContexts (s : Segment) :
    Codec.readSegmentProp s "includedContexts" (.arr []) = pure s := by
  simp [readSegmentProp, readSegmentTargets, rArrayOrNull]
theorem seg_default_excludedContexts (s : Segment) :
    Codec.readSegmentProp s "excludedContexts" (.arr []) = pure s := by
  simp [readSegmentProp, readSegmentTargets, rArrayOrNull]
theorem seg_default_rules (s : Segment) : Codec.readSegmentProp s "rules" (.arr []) = pure s := by
  simp [readSegmentProp, readSegmentRules, rArrayOrNull]

theorem seg_omitted_is_default_key (pre post : List (String × J)) (h : "key" ∉ pre.map (·.1)) :
    Codec.readSegment (.obj (pre ++ ("key", .str "") :: post)) = Codec.readSegment (.obj (pre ++ post)) :=
  readSegment_drop_default _ _ seg_default_key pre post h
theorem seg_omitted_is_default_salt (pre post : List (String × J)) (h : "salt" ∉ pre.map (·.1)) :
    Codec.readSegment (.obj (pre ++ ("salt", .str "") :: post)) = Codec.readSegment (.obj (pre ++ post)) :=
  readSegment_drop_default _ _ seg_default_salt pre post h
theorem seg_omitted_is_default_deleted (pre post : List (String × J)) (h : "deleted" ∉ pre.map (·.1)) :
    Codec.readSegment (.obj (pre ++ ("deleted", .bool false) :: post)) =
      Codec.readSegment (.obj (pre ++ post)) :=
  readSegment_drop_default _ _ seg_default_deleted pre post h
theorem seg_omitted_is_default_unbounded (pre post : List (String × J))
    (h : "unbounded" ∉ pre.map (·.1)) :
    Codec.readSegment (.obj (pre ++ ("unbounded", .bool false) :: post)) =
      Codec.readSegment (.obj (pre ++ post)) :=
  readSegment_drop_default _ _ seg_default_unbounded pre post h
theorem seg_omitted_is_default_unboundedContextKind (pre post : List (String × J))
    (h : "unboundedContextKind" ∉ pre.map (·.1)) :
    Codec.readSegment (.obj (pre ++ ("unboundedContextKind", .str "") :: post)) =
      Codec.readSegment (.obj (pre ++ post)) :=
  readSegment_drop_default _ _ seg_default_unboundedContextKind pre post h
theorem seg_omitted_is_default_version (pre post : List (String × J)) (h : "version" ∉ pre.map (·.1)) :
    Codec.readSegment (.obj (pre ++ ("version", .num 0) :: post)) = Codec.readSegment (.obj (pre ++ post)) :=
  readSegment_drop_default _ _ seg_default_version pre post h
theorem seg_omitted_is_default_generation (pre post : List (String × J))
    (h : "generation" ∉ pre.map (·.1)) :
    Codec.readSegment (.obj (pre ++ ("generation", .null) :: post)) = Codec.readSegment (.obj (pre ++ post)) :=
  readSegment_drop_default _ _ seg_default_generation pre post h
theorem seg_omitted_is_default_included (pre post : List (String × J)) :
    Codec.readSegment (.obj (pre ++ ("included", .arr []) :: post)) = Codec.readSegment (.obj (pre ++ post)) :=
  readSegment_drop _ _ seg_default_included pre post
theorem seg_omitted_is_default_excluded (pre post : List (String × J)) :
    Codec.readSegment (.obj (pre ++ ("excluded", .arr []) :: post)) = Codec.readSegment (.obj (pre ++ post)) :=
  readSegment_drop _ _ seg_default_excluded pre post
theorem seg_omitted_is_default_includedContexts (pre post : List (String × J)) :
    Codec.readSegment (.obj (pre ++ ("includedContexts", .arr []) :: post)) =
      Codec.readSegment (.obj (pre ++ post)) :=
  readSegment_drop _ _ seg_default_includedContexts pre post
theorem seg_omitted_is_default_excludedContexts (pre post : List (String × J)) :
    Codec.readSegment (.obj (pre ++ ("excludedContexts", .arr []) :: post)) =
      Codec.readSegment (.obj (pre ++ post)) :=
  readSegment_drop _ _ seg_default_excludedContexts pre post
theorem seg_omitted_is_default_rules (pre post : List (String × J)) :
    Codec.readSegment (.obj (pre ++ ("rules", .arr []) :: post)) = Codec.readSegment (.obj (pre ++ post)) :=
  readSegment_drop _ _ seg_default_rules pre post

/-! ## 4. An explicit null means omission — for exactly the listed properties

(a) list-valued properties: null appends nothing, identity on every accumulator;
(b) "seed" / "weight": null is skipped, identity on every accumulator;
(c) offVariation, variation, rollout, generation, bucketBy, attribute, debugEventsUntilDate,
    clientSideAvailability: null *resets* the component to its default, so it is the identity on
    every accumulator whose component still has the default (in particular when no earlier member
    has that name), and the document-level statement carries that side condition;
(d) a rollout's "variations": null is an error. -/

/-! ### (a) lists, top level -/

theorem null_is_omission_prerequisites (a : FlagAcc) : Codec.readFlagProp a "prerequisites" .null = pure a := by
  simp [readFlagProp, readPrerequisites, rArrayOrNull]
theorem null_is_omission_targets (a : FlagAcc) : Codec.readFlagProp a "targets" .null = pure a := by
  simp [readFlagProp, readTargets, rArrayOrNull]
theorem null_is_omission_contextTargets (a : FlagAcc) : Codec.readFlagProp a "contextTargets" .null = pure a := by
  simp [readFlagProp, readTargets, rArrayOrNull]
theorem null_is_omission_rules (a : FlagAcc) : Codec.readFlagProp a "rules" .null = pure a := by
  simp [readFlagProp, readFlagRules, rArrayOrNull]
theorem null_is_omission_variations (a : FlagAcc) : Codec.readFlagProp a "variations" .null = pure a := by
  simp [readFlagProp, readValueList, rArrayOrNull]

theorem null_is_omission_included (s : Segment) : Codec.readSegmentProp s "included" .null = pure s := by
  simp [readSegmentProp, readStringList, rArrayOrNull]
theorem null_is_omission_excluded (s : Segment) : Codec.readSegmentProp s "excluded" .null = pure s := by
  simp [readSegmentProp, readStringList, rArrayOrNull]
theorem null_is_omission_includedContexts (s : Segment) :
    Codec.readSegmentProp s "includedContexts" .null = pure s := by
  simp [readSegmentProp, readSegmentTargets, rArrayOrNull]
theorem null_is_omission_excludedContexts (s : Segment) :
    Codec.readSegmentProp s "excludedContexts" .null = pure s := by
  simp [readSegmentProp, readSegmentTargets, rArrayOrNull]
theorem null_is_omission_segment_rules (s : Segment) : Codec.readSegmentProp s "rules" .null = pure s := by
  simp [readSegmentProp, readSegmentRules, rArrayOrNull]

/-- Document level: a null list-valued flag property can be dropped from any position. -/
theorem null_is_omission_flag_lists (name : String)
    (hn : name ∈ ["prerequisites", "targets", "contextTargets", "rules", "variations"])
    (pre post : List (String × J)) :
    Codec.readFlag (.obj (pre ++ (name, .null) :: post)) = Codec.readFlag (.obj (pre ++ post)) := by
  simp only [List.mem_cons, List.mem_nil_iff, or_false] at hn
  rcases hn with rfl | rfl | rfl | rfl | rfl
  · exact readFlag_drop _ _ null_is_omission_prerequisites pre post
  · exact readFlag_drop _ _ null_is_omission_targets pre post
  · exact readFlag_drop _ _ null_is_omission_contextTargets pre post
  · exact readFlag_drop _ _ null_is_omission_rules pre post
  · exact readFlag_drop _ _ null_is_omission_variations pre post

theorem null_is_omission_segment_lists (name : String)
    (hn : name ∈ ["included", "excluded", "includedContexts", "excludedContexts", "rules"])
    (pre post : List (String × J)) :
    Codec.readSegment (.obj (pre ++ (name, .null) :: post)) = Codec.readSegment (.obj (pre ++ post)) := by
  simp only [List.mem_cons, List.mem_nil_iff, or_false] at hn
  rcases hn with rfl | rfl | rfl | rfl | rfl
  · exact readSegment_drop _ _ null_is_omission_included pre post
  · exact readSegment_drop _ _ null_is_omission_excluded pre post
  · exact readSegment_drop _ _ null_is_omission_includedContexts pre post
  · exact readSegment_drop _ _ null_is_omission_excludedContexts pre post
  · exact readSegment_drop _ _ null_is_omission_segment_rules pre post

/-! ### (a) lists, nested -/

theorem null_is_omission_target_values (t : Target) : targetH t "values" .null = pure t := by
  simp [targetH, readStringList, rArrayOrNull]
theorem null_is_omission_segmentTarget_values (t : SegmentTarget) : segTargetH t "values" .null = pure t := by
  simp [segTargetH, readStringList, rArrayOrNull]
theorem null_is_omission_rule_clauses (r : FlagRule) : ruleH r "clauses" .null = pure r := by
  simp [ruleH, readClauses, rArrayOrNull]
theorem null_is_omission_segmentRule_clauses (s : SegmentRule × String) :
    segRuleH s "clauses" .null = pure s := by
  simp [segRuleH, readClauses, rArrayOrNull]
theorem null_is_omission_clause_values (s : Clause × String) : clauseH s "values" .null = pure s := by
  simp [clauseH, readValueList, rArrayOrNull]

theorem null_is_omission_target_values_doc (pre post : List (String × J)) :
    readTarget (.obj (pre ++ ("values", .null) :: post)) = readTarget (.obj (pre ++ post)) :=
  Codec.objLoop_skip targetH _ _ null_is_omission_target_values _ pre post
theorem null_is_omission_segmentTarget_values_doc (pre post : List (String × J)) :
    readSegTarget (.obj (pre ++ ("values", .null) :: post)) = readSegTarget (.obj (pre ++ post)) :=
  Codec.objLoop_skip segTargetH _ _ null_is_omission_segmentTarget_values _ pre post
theorem null_is_omission_rule_clauses_doc (pre post : List (String × J)) :
    readFlagRule (.obj (pre ++ ("clauses", .null) :: post)) = readFlagRule (.obj (pre ++ post)) :=
  Codec.objLoop_skip ruleH _ _ null_is_omission_rule_clauses _ pre post
theorem null_is_omission_segmentRule_clauses_doc (pre post : List (String × J)) :
    readSegRule (.obj (pre ++ ("clauses", .null) :: post)) = readSegRule (.obj (pre ++ post)) := by
  show (objLoop segRuleH _ _ >>= _) = (objLoop segRuleH _ _ >>= _)
  rw [Codec.objLoop_skip segRuleH _ _ null_is_omission_segmentRule_clauses]
theorem null_is_omission_clause_values_doc (pre post : List (String × J)) :
    readClause (.obj (pre ++ ("values", .null) :: post)) = readClause (.obj (pre ++ post)) := by
  show (objLoop clauseH _ _ >>= _) = (objLoop clauseH _ _ >>= _)
  rw [Codec.objLoop_skip clauseH _ _ null_is_omission_clause_values]

/-! ### (b) seed, weight: skipped -/

theorem null_is_omission_rollout_seed (s : Rollout × String) : rolloutH s "seed" .null = pure s := by
  simp [rolloutH, rIntOrNull]
theorem null_is_omission_segmentRule_weight (s : SegmentRule × String) :
    segRuleH s "weight" .null = pure s := by
  simp [segRuleH, rIntOrNull]

theorem null_is_omission_rollout_seed_doc (out : Rollout) (pre post : List (String × J)) :
    Codec.readRollout out (.obj (pre ++ ("seed", .null) :: post)) = Codec.readRollout out (.obj (pre ++ post)) := by
  show (objLoop rolloutH _ _ >>= _) = (objLoop rolloutH _ _ >>= _)
  rw [Codec.objLoop_skip rolloutH _ _ null_is_omission_rollout_seed]
theorem null_is_omission_segmentRule_weight_doc (pre post : List (String × J)) :
    readSegRule (.obj (pre ++ ("weight", .null) :: post)) = readSegRule (.obj (pre ++ post)) := by
  show (objLoop segRuleH _ _ >>= _) = (objLoop segRuleH _ _ >>= _)
  rw [Codec.objLoop_skip segRuleH _ _ null_is_omission_segmentRule_weight]

/-! ### (c) null resets to the default -/

theorem null_is_omission_offVariation (a : FlagAcc) (h : a.flag.offVariation = none) :
    Codec.readFlagProp a "offVariation" .null = pure a := by
  simp [readFlagProp, rIntOrNull, ← h]

theorem null_is_omission_debugEventsUntilDate (a : FlagAcc) (h : a.flag.fmeta.debugEventsUntilDate = 0) :
    Codec.readFlagProp a "debugEventsUntilDate" .null = pure a := by
  simp [readFlagProp, rFloatOrNull, goUint64_zero, ← h]

theorem null_is_omission_clientSideAvailability (a : FlagAcc) (h : a.flag.fmeta.clientSide.explicit = false) :
    Codec.readFlagProp a "clientSideAvailability" .null = pure a := by
  simp [readFlagProp, readClientSideAvailability, rObjectOrNull, ← h]

theorem null_is_omission_generation (s : Segment) (h : s.generation = none) :
    Codec.readSegmentProp s "generation" .null = pure s := by
  simp [readSegmentProp, rIntOrNull, ← h]

theorem null_is_omission_rule_variation (r : FlagRule) (h : r.vr.variation = none) :
    ruleH r "variation" .null = pure r := by
  simp [ruleH, rIntOrNull, ← h]

theorem null_is_omission_rule_rollout (r : FlagRule) (h : r.vr.rollout = {}) :
    ruleH r "rollout" .null = pure r := by
  simp [ruleH, readRollout, rObjectOrNull, ← h]

theorem null_is_omission_fallthrough_variation (o : VariationOrRollout) (h : o.variation = none) :
    vrH o "variation" .null = pure o := by
  simp [vrH, rIntOrNull, ← h]

theorem null_is_omission_fallthrough_rollout (o : VariationOrRollout) (h : o.rollout = {}) :
    vrH o "rollout" .null = pure o := by
  simp [vrH, readRollout, rObjectOrNull, ← h]

theorem null_is_omission_rollout_bucketBy (s : Rollout × String) (h : s.2 = "") :
    rolloutH s "bucketBy" .null = pure s := by
  simp [rolloutH, rStringOrNull, ← h]

theorem null_is_omission_clause_attribute (s : Clause × String) (h : s.2 = "") :
    clauseH s "attribute" .null = pure s := by
  simp [clauseH, rStringOrNull, ← h]

theorem null_is_omission_segmentRule_bucketBy (s : SegmentRule × String) (h : s.2 = "") :
    segRuleH s "bucketBy" .null = pure s := by
  simp [segRuleH, rStringOrNull, ← h]

/-- Document level for the resetting properties of a flag: null equals omission when no earlier
member has that name (later ones are unconstrained). -/
theorem null_is_omission_offVariation_doc (pre post : List (String × J))
    (h : "offVariation" ∉ pre.map (·.1)) :
    Codec.readFlag (.obj (pre ++ ("offVariation", .null) :: post)) = Codec.readFlag (.obj (pre ++ post)) :=
  omitted_is_default_offVariation pre post h

theorem null_is_omission_debugEventsUntilDate_doc (pre post : List (String × J))
    (h : "debugEventsUntilDate" ∉ pre.map (·.1)) :
    Codec.readFlag (.obj (pre ++ ("debugEventsUntilDate", .null) :: post)) =
      Codec.readFlag (.obj (pre ++ post)) :=
  omitted_is_default_debugEventsUntilDate pre post h

theorem null_is_omission_clientSideAvailability_doc (pre post : List (String × J))
    (h : "clientSideAvailability" ∉ pre.map (·.1)) :
    Codec.readFlag (.obj (pre ++ ("clientSideAvailability", .null) :: post)) =
      Codec.readFlag (.obj (pre ++ post)) :=
  readFlag_drop_default _ _ default_clientSideAvailability pre post h

theorem null_is_omission_generation_doc (pre post : List (String × J))
    (h : "generation" ∉ pre.map (·.1)) :
    Codec.readSegment (.obj (pre ++ ("generation", .null) :: post)) = Codec.readSegment (.obj (pre ++ post)) :=
  seg_omitted_is_default_generation pre post h

/-- Member-first forms for the nested resetting properties: the loop starts from the default. -/
theorem null_is_omission_rule_variation_first (rest : List (String × J)) :
    readFlagRule (.obj (("variation", .null) :: rest)) = readFlagRule (.obj rest) := by
  show objLoop ruleH {} _ = objLoop ruleH {} _
  rw [objLoop_cons, null_is_omission_rule_variation {} rfl]; rfl

theorem null_is_omission_rule_rollout_first (rest : List (String × J)) :
    readFlagRule (.obj (("rollout", .null) :: rest)) = readFlagRule (.obj rest) := by
  show objLoop ruleH {} _ = objLoop ruleH {} _
  rw [objLoop_cons, null_is_omission_rule_rollout {} rfl]; rfl

/-- For the fallthrough, read into the flag's (initially empty) value. -/
theorem null_is_omission_fallthrough_variation_first (rest : List (String × J)) :
    Codec.readVariationOrRollout {} (.obj (("variation", .null) :: rest)) =
      Codec.readVariationOrRollout {} (.obj rest) := by
  show objLoop vrH {} _ = objLoop vrH {} _
  rw [objLoop_cons, null_is_omission_fallthrough_variation {} rfl]; rfl

theorem null_is_omission_fallthrough_rollout_first (rest : List (String × J)) :
    Codec.readVariationOrRollout {} (.obj (("rollout", .null) :: rest)) =
      Codec.readVariationOrRollout {} (.obj rest) := by
  show objLoop vrH {} _ = objLoop vrH {} _
  rw [objLoop_cons, null_is_omission_fallthrough_rollout {} rfl]; rfl

theorem null_is_omission_rollout_bucketBy_first (out : Rollout) (rest : List (String × J)) :
    Codec.readRollout out (.obj (("bucketBy", .null) :: rest)) = Codec.readRollout out (.obj rest) := by
  show (objLoop rolloutH _ _ >>= _) = (objLoop rolloutH _ _ >>= _)
  rw [objLoop_cons, null_is_omission_rollout_bucketBy (out, "") rfl]; rfl

theorem null_is_omission_clause_attribute_first (rest : List (String × J)) :
    readClause (.obj (("attribute", .null) :: rest)) = readClause (.obj rest) := by
  show (objLoop clauseH _ _ >>= _) = (objLoop clauseH _ _ >>= _)
  rw [objLoop_cons, null_is_omission_clause_attribute (({} : Clause), "") rfl]; rfl

theorem null_is_omission_segmentRule_bucketBy_first (rest : List (String × J)) :
    readSegRule (.obj (("bucketBy", .null) :: rest)) = readSegRule (.obj rest) := by
  show (objLoop segRuleH _ _ >>= _) = (objLoop segRuleH _ _ >>= _)
  rw [objLoop_cons, null_is_omission_segmentRule_bucketBy (({} : SegmentRule), "") rfl]; rfl

/-- A whole `"rollout": null` equals the rollout object with no members, on an empty rollout. -/
theorem null_rollout_is_empty_object : Codec.readRollout {} .null = Codec.readRollout {} (.obj []) := rfl

/-! ### (d) the exception: a rollout's variations -/

theorem rollout_variations_null_rejected (acc : List WeightedVariation) :
    Codec.readWeightedVariations acc .null = .error () := rfl

theorem rolloutH_variations_null_rejected (s : Rollout × String) :
    rolloutH s "variations" .null = .error () := rfl

/-- A rollout object with `"variations": null` anywhere among its members is rejected. -/
theorem rollout_with_null_variations_rejected (out : Rollout) (pre post : List (String × J)) :
    Codec.readRollout out (.obj (pre ++ ("variations", .null) :: post)) = .error () := by
  show (objLoop rolloutH (out, "") (pre ++ ("variations", .null) :: post) >>= _) = _
  rw [objLoop_append]
  cases objLoop rolloutH (out, "") pre with
  | error e => rfl
  | ok s => rw [D_ok_bind, objLoop_cons, rolloutH_variations_null_rejected]; rfl

/-- … whereas the other null-tolerant lists of the same shape accept it (contrast). -/
example : Codec.readTargets [] .null = .ok [] := rfl
example : Codec.readWeightedVariations [] (.arr []) = .ok [] := rfl

/-- Null is NOT tolerated for the non-listed scalar properties (representatives). -/
theorem null_rejected_on (a : FlagAcc) : Codec.readFlagProp a "on" .null = .error () := rfl
theorem null_rejected_key (a : FlagAcc) : Codec.readFlagProp a "key" .null = .error () := rfl
theorem null_rejected_version (a : FlagAcc) : Codec.readFlagProp a "version" .null = .error () := rfl
theorem null_rejected_fallthrough (a : FlagAcc) : Codec.readFlagProp a "fallthrough" .null = .error () := rfl

/-! ## 5. Error or value; type errors -/

theorem decode_total (rx : RegexOracle) (doc : J) :
    Codec.decodeFlag rx doc = .error () ∨ ∃ f, Codec.decodeFlag rx doc = .ok f :=
  D_cases _

theorem decode_total_segment (rx : RegexOracle) (doc : J) :
    Codec.decodeSegment rx doc = .error () ∨ ∃ s, Codec.decodeSegment rx doc = .ok s :=
  D_cases _

/-- A decoded flag is the preprocessing of a read flag; a failed read is a failed decode. -/
theorem decodeFlag_ok_iff (rx : RegexOracle) (doc : J) (f : Flag) :
    Codec.decodeFlag rx doc = .ok f ↔ ∃ f0, Codec.readFlag doc = .ok f0 ∧ f = preprocessFlag rx f0 := by
  unfold decodeFlag
  cases h : readFlag doc with
  | error e => simp [bind, Except.bind]
  | ok f0 =>
    constructor
    · intro hf; cases hf; exact ⟨f0, rfl, rfl⟩
    · rintro ⟨f1, h1, rfl⟩; cases h1; rfl

theorem decodeFlag_error_iff (rx : RegexOracle) (doc : J) :
    Codec.decodeFlag rx doc = .error () ↔ Codec.readFlag doc = .error () := by
  unfold decodeFlag
  cases h : readFlag doc with
  | error e => simp [bind, Except.bind]
  | ok f0 => simp [bind, Except.bind, pure, Except.pure]

/-- A document that is not an object is rejected. -/
theorem non_object_rejected (doc : J) (h : ∀ kvs, doc ≠ .obj kvs) : Codec.readFlag doc = .error () := by
  cases doc with
  | obj kvs => exact absurd rfl (h kvs)
  | _ => rfl

/-- One failing member fails the whole document. -/
theorem member_error_rejects (name : String) (v : J) (hv : ∀ a, Codec.readFlagProp a name v = .error ())
    (pre post : List (String × J)) :
    Codec.readFlag (.obj (pre ++ (name, v) :: post)) = .error () := by
  show (objLoop readFlagProp {} (pre ++ (name, v) :: post) >>= _) = _
  rw [objLoop_append]
  cases objLoop readFlagProp {} pre with
  | error e => rfl
  | ok s => rw [D_ok_bind, objLoop_cons, hv]; rfl

/-- Type errors, one representative per reader primitive. -/
theorem wrong_type_rejected_on (a : FlagAcc) (v : J) :
    Codec.readFlagProp a "on" v = .error () ↔ ¬ ∃ b, v = .bool b := by
  cases v <;> simp [readFlagProp, rBool, fail, bind, Except.bind, pure, Except.pure]

theorem wrong_type_rejected_key (a : FlagAcc) (v : J) :
    Codec.readFlagProp a "key" v = .error () ↔ ¬ ∃ s, v = .str s := by
  cases v <;> simp [readFlagProp, rString, fail, bind, Except.bind, pure, Except.pure]

theorem wrong_type_rejected_version (a : FlagAcc) (v : J) :
    Codec.readFlagProp a "version" v = .error () ↔ ¬ ∃ q, v = .num q := by
  cases v <;> simp [readFlagProp, rInt, fail, bind, Except.bind, pure, Except.pure]

theorem wrong_type_rejected_offVariation (a : FlagAcc) (v : J) :
    Codec.readFlagProp a "offVariation" v = .error () ↔ ¬ (v = .null ∨ ∃ q, v = .num q) := by
  cases v <;> simp [readFlagProp, rIntOrNull, fail, bind, Except.bind, pure, Except.pure]

theorem wrong_type_rejected_debugEventsUntilDate (a : FlagAcc) (v : J) :
    Codec.readFlagProp a "debugEventsUntilDate" v = .error () ↔ ¬ (v = .null ∨ ∃ q, v = .num q) := by
  cases v <;> simp [readFlagProp, rFloatOrNull, fail, bind, Except.bind, pure, Except.pure]

theorem wrong_type_rejected_fallthrough (a : FlagAcc) (v : J) (h : ∀ kvs, v ≠ .obj kvs) :
    Codec.readFlagProp a "fallthrough" v = .error () := by
  cases v with
  | obj kvs => exact absurd rfl (h kvs)
  | _ => rfl

theorem wrong_type_rejected_targets (a : FlagAcc) (v : J) (h : v ≠ .null) (h' : ∀ xs, v ≠ .arr xs) :
    Codec.readFlagProp a "targets" v = .error () := by
  cases v with
  | null => exact absurd rfl h
  | arr xs => exact absurd rfl (h' xs)
  | _ => rfl

theorem wrong_type_rejected_rollout_variations (acc : List WeightedVariation) (v : J)
    (h' : ∀ xs, v ≠ .arr xs) : Codec.readWeightedVariations acc v = .error () := by
  cases v with
  | arr xs => exact absurd rfl (h' xs)
  | _ => rfl

theorem wrong_type_rejected_clientSideAvailability (a : FlagAcc) (v : J) (h : v ≠ .null)
    (h' : ∀ kvs, v ≠ .obj kvs) : Codec.readFlagProp a "clientSideAvailability" v = .error () := by
  cases v with
  | null => exact absurd rfl h
  | obj kvs => exact absurd rfl (h' kvs)
  | _ => rfl

theorem wrong_type_rejected_clause_attribute (s : Clause × String) (v : J) :
    clauseH s "attribute" v = .error () ↔ ¬ (v = .null ∨ ∃ x, v = .str x) := by
  cases v <;> simp [clauseH, rStringOrNull, fail, bind, Except.bind, pure, Except.pure]

/-- A wrongly typed known member anywhere rejects the document, e.g. `"on": 1`. -/
example (pre post : List (String × J)) :
    Codec.readFlag (.obj (pre ++ ("on", .num 1) :: post)) = .error () :=
  member_error_rejects _ _ (fun _ => rfl) pre post

/-! ## 6. Non-vacuity: concrete documents -/

def exDoc : J := .obj [("key", .str "f"), ("on", .bool true), ("zzz", .arr [.null, .obj [("on", .num 3)]]),
  ("variations", .arr [.bool true, .bool false]),
  ("fallthrough", .obj [("variation", .num 0), ("comment", .str "x")]), ("version", .num 7)]

def exDocClean : J := .obj [("key", .str "f"), ("on", .bool true),
  ("variations", .arr [.bool true, .bool false]),
  ("fallthrough", .obj [("variation", .num 0)]), ("version", .num 7)]

/-- The document is accepted, and its known members are read. -/
example : (Codec.readFlag exDoc).toOption.map (fun f => (f.key, f.on, f.fallthrough.variation, f.fmeta.version,
    f.variations.length, f.fmeta.clientSide)) =
    some ("f", true, some 0, 7, 2, { usingMobileKey := true, usingEnvironmentID := false, explicit := false }) := by
  rfl

/-- Instance of `unknown_ignored_flag`: the unknown member `zzz` (whose value would be ill-typed
under any known name) is dropped. -/
example : Codec.readFlag exDoc = Codec.readFlag (.obj [("key", .str "f"), ("on", .bool true),
    ("variations", .arr [.bool true, .bool false]),
    ("fallthrough", .obj [("variation", .num 0), ("comment", .str "x")]), ("version", .num 7)]) :=
  unknown_ignored_flag "zzz" _ (by decide) [("key", .str "f"), ("on", .bool true)] _

/-- Instance of `order_irrelevant_flag`. -/
example : Codec.readFlag exDocClean = Codec.readFlag (.obj [("fallthrough", .obj [("variation", .num 0)]),
    ("version", .num 7), ("key", .str "f"), ("on", .bool true),
    ("variations", .arr [.bool true, .bool false])]) := by
  apply order_irrelevant_flag
  · exact List.perm_append_comm (l₁ := [("key", J.str "f"), ("on", J.bool true),
      ("variations", J.arr [.bool true, .bool false])])
  · decide

/-- Why "no duplicate names" is needed for order irrelevance, and why "not set earlier" is needed
for omitted-equals-default: the last duplicate wins. -/
example : (Codec.readFlag (.obj [("on", .bool true), ("on", .bool false)])).toOption.map (·.on) = some false ∧
    (Codec.readFlag (.obj [("on", .bool false), ("on", .bool true)])).toOption.map (·.on) = some true ∧
    (Codec.readFlag (.obj [("on", .bool true)])).toOption.map (·.on) = some true := by decide

/-- Lists from duplicate members are concatenated (so `[]`/null are neutral in any position). -/
example : (Codec.readFlag (.obj [("variations", .arr [.num 1]), ("variations", .null),
    ("variations", .arr [.num 2])])).toOption.map (·.variations.length) = some 2 := by decide

/-- `"variations": null` inside a rollout rejects the whole flag, whereas `"rollout": null`,
`"seed": null`, `"bucketBy": null` are accepted. -/
example : Codec.readFlag (.obj [("fallthrough", .obj [("rollout", .obj [("variations", .null)])])]) = .error () := rfl
example : (Codec.readFlag (.obj [("fallthrough", .obj [("rollout", .null)])])).toOption.isSome = true := rfl
example : (Codec.readFlag (.obj [("fallthrough", .obj [("rollout", .obj [("variations", .arr []),
    ("seed", .null), ("bucketBy", .null)])])])).toOption.isSome = true := rfl

/-- Null resets: `"offVariation": 1` followed by `"offVariation": null` is NOT the same as just
`"offVariation": 1` (hence the side condition in `null_is_omission_offVariation`). -/
example : (Codec.readFlag (.obj [("offVariation", .num 1), ("offVariation", .null)])).toOption.map (·.offVariation) = some none ∧
    (Codec.readFlag (.obj [("offVariation", .num 1)])).toOption.map (·.offVariation) = some (some 1) := by decide

/-- Type errors. -/
example : Codec.readFlag (.obj [("on", .str "true")]) = .error () := rfl
example : Codec.readFlag (.arr []) = .error () := rfl
example : Codec.readSegment (.obj [("included", .arr [.num 1])]) = .error () := rfl

/-- A segment document with unknown members at two levels. -/
example : (Codec.readSegment (.obj [("key", .str "s"), ("x", .null), ("includedContexts",
      .arr [.obj [("contextKind", .str "org"), ("y", .num 1), ("values", .arr [.str "a"])]]),
      ("generation", .null), ("rules", .null)])).toOption.map
        (fun s => (s.key, s.includedContexts, s.generation, s.rules.length)) =
    some ("s", [{ contextKind := "org", values := ["a"] }], none, 0) := by decide

/-- Instance of `order_irrelevant_clause`: `attribute` before or after `contextKind`, the attribute
is a two-component path either way (and a literal name without a context kind). -/
example : (readClause (.obj [("attribute", .str "/a/b"), ("contextKind", .str "org")])).toOption.map (·.attr.comps)
      = some ["a", "b"] ∧
    (readClause (.obj [("contextKind", .str "org"), ("attribute", .str "/a/b")])).toOption.map (·.attr.comps)
      = some ["a", "b"] ∧
    (readClause (.obj [("attribute", .str "/a/b")])).toOption.map (fun c => (c.attr.comps, c.attr.single))
      = some ([], "/a/b") := by decide

#print axioms objLoop_skip
#print axioms unknown_ignored_flag
#print axioms unknown_ignored_segment
#print axioms unknown_ignored_decodeFlag
#print axioms unknown_ignored_clause
#print axioms unknown_ignored_target
#print axioms unknown_ignored_prereq
#print axioms unknown_ignored_rollout
#print axioms unknown_ignored_weightedVariation
#print axioms unknown_ignored_variationOrRollout
#print axioms unknown_ignored_rule
#print axioms unknown_ignored_segmentTarget
#print axioms unknown_ignored_segmentRule
#print axioms unknown_ignored_flag_rule_clause
#print axioms unknown_ignored_segment_includedContexts
#print axioms readFlagProp_comm
#print axioms readSegmentProp_comm
#print axioms objLoop_perm
#print axioms order_irrelevant_flag
#print axioms order_irrelevant_segment
#print axioms order_irrelevant_clause
#print axioms order_irrelevant_rollout
#print axioms order_irrelevant_rule
#print axioms order_irrelevant_segmentRule
#print axioms readFlag_drop_default
#print axioms omitted_is_default_on
#print axioms omitted_is_default_version
#print axioms omitted_is_default_clientSide
#print axioms omitted_is_default_fallthrough
#print axioms omitted_is_default_targets
#print axioms seg_omitted_is_default_generation
#print axioms null_is_omission_flag_lists
#print axioms null_is_omission_segment_lists
#print axioms null_is_omission_offVariation
#print axioms null_is_omission_clientSideAvailability_doc
#print axioms null_is_omission_rule_rollout
#print axioms null_is_omission_rollout_bucketBy
#print axioms null_is_omission_clause_attribute
#print axioms null_is_omission_segmentRule_weight
#print axioms rollout_variations_null_rejected
#print axioms rollout_with_null_variations_rejected
#print axioms decode_total
#print axioms decodeFlag_ok_iff
#print axioms member_error_rejects
#print axioms wrong_type_rejected_on

/-! ## Strengthened statements (theorem audit) -/

open LD.Entry

/-! ### #57: the value that accompanies an error, and the destination of the hook -/


/-- **C17 `error_zero` (flags).**  Whenever `unmarshalFeatureFlagFromBytes` — hence the
serialization object's `UnmarshalFeatureFlag` — reports an error, the flag it returns with it is
Go's `FeatureFlag{}`, not the half-built value; and it reports an error exactly when the
tree-level decoder rejects the document. -/
theorem error_zero (rx : RegexOracle) (pv : Partial) (data : J) :
    ((unmarshalFeatureFlagFromBytes rx pv data).err = true ↔ Codec.decodeFlag rx data = .error ()) ∧
    ((unmarshalFeatureFlagFromBytes rx pv data).err = true →
      unmarshalFeatureFlagFromBytes rx pv data = ⟨zeroFlag, true⟩) ∧
    Serialization.unmarshalFeatureFlag rx pv data = unmarshalFeatureFlagFromBytes rx pv data := by
  refine ⟨?_, ?_, rfl⟩ <;> rw [fromBytes_eq] <;> cases h : decodeFlag rx data <;> simp

/-- **C17 `success_is_preprocessed_decoding` (flags).**  When no error is reported the returned
flag is `PreprocessFlag` applied to what the reader built from the document, i.e. the model's
`decodeFlag` result — for the bytes function, the serialization object and the hook alike. -/
theorem success_is_preprocessed_decoding (rx : RegexOracle) (pv : Partial) (dest : Flag) (data : J)
    (h : (unmarshalFeatureFlagFromBytes rx pv data).err = false) :
    ∃ f0, Codec.readFlag data = .ok f0 ∧
      Codec.decodeFlag rx data = .ok (preprocessFlag rx f0) ∧
      unmarshalFeatureFlagFromBytes rx pv data = ⟨preprocessFlag rx f0, false⟩ ∧
      FeatureFlag.unmarshalJSON rx pv dest data = ⟨preprocessFlag rx f0, false⟩ := by
  unfold FeatureFlag.unmarshalJSON
  rw [fromBytes_eq] at h ⊢
  cases hd : decodeFlag rx data with
  | error e => rw [hd] at h; simp at h
  | ok g =>
    obtain ⟨f0, hf0, rfl⟩ := (decodeFlag_ok_iff rx data g).mp hd
    exact ⟨f0, hf0, rfl, rfl, rfl⟩

/-- **C17 `hook_leaves_destination` (flags).**  `(*FeatureFlag).UnmarshalJSON` returns the same
error as `unmarshalFeatureFlagFromBytes`; on error `*f` is what it was before the call, whatever it
was and whatever the reader had half-built; without an error `*f` is the decoded flag and nothing
of the old `*f` survives. -/
theorem hook_leaves_destination (rx : RegexOracle) (pv : Partial) (dest : Flag) (data : J) :
    (FeatureFlag.unmarshalJSON rx pv dest data).err = (unmarshalFeatureFlagFromBytes rx pv data).err ∧
    ((FeatureFlag.unmarshalJSON rx pv dest data).err = true →
      (FeatureFlag.unmarshalJSON rx pv dest data).value = dest) ∧
    ((FeatureFlag.unmarshalJSON rx pv dest data).err = false →
      (FeatureFlag.unmarshalJSON rx pv dest data).value =
        (unmarshalFeatureFlagFromBytes rx pv data).value) := by
  unfold FeatureFlag.unmarshalJSON
  generalize unmarshalFeatureFlagFromBytes rx pv data = r
  obtain ⟨v, e⟩ := r
  cases e <;> simp

/-- **C17 `decode_total` with content.**  For every document, every half-built value and every
old destination there are exactly two outcomes, and they are decided by the tree-level reader:
either it rejects the document — then the bytes function returns (`FeatureFlag{}`, error) and the
hook leaves `*f` alone — or it accepts it with `f0` — then both deliver `PreprocessFlag(f0)`
without an error. -/
theorem decode_total_entry (rx : RegexOracle) (pv : Partial) (dest : Flag) (data : J) :
    (Codec.readFlag data = .error () ∧
      unmarshalFeatureFlagFromBytes rx pv data = ⟨zeroFlag, true⟩ ∧
      FeatureFlag.unmarshalJSON rx pv dest data = ⟨dest, true⟩ ∧
      unmarshalFeatureFlagFromReader rx pv data = ⟨pv.flag data, true⟩) ∨
    (∃ f0, Codec.readFlag data = .ok f0 ∧
      unmarshalFeatureFlagFromBytes rx pv data = ⟨preprocessFlag rx f0, false⟩ ∧
      FeatureFlag.unmarshalJSON rx pv dest data = ⟨preprocessFlag rx f0, false⟩ ∧
      unmarshalFeatureFlagFromReader rx pv data = ⟨preprocessFlag rx f0, false⟩) := by
  rw [hook_eq, fromBytes_eq]
  unfold decodeFlag
  cases h : readFlag data with
  | error e => exact .inl ⟨rfl, rfl, rfl, fromReader_error rx pv data h⟩
  | ok f0 => exact .inr ⟨f0, rfl, rfl, rfl, fromReader_ok rx pv data f0 h⟩

theorem readFlag_error_iff (doc : J) :
    Codec.readFlag doc = .error () ↔
      (∀ kvs, doc ≠ .obj kvs) ∨
      ∃ pre n v post a, doc = .obj (pre ++ (n, v) :: post) ∧
        Codec.objLoop readFlagProp {} pre = .ok a ∧ readFlagProp a n v = .error () := by
  cases doc with
  | obj kvs =>
    have : Codec.readFlag (.obj kvs) = .error () ↔ Codec.objLoop readFlagProp {} kvs = .error () := by
      show (objLoop readFlagProp {} kvs >>= _) = _ ↔ _
      cases hl : objLoop readFlagProp {} kvs with
      | error e => simp [bind, Except.bind]
      | ok a =>
        simp only [D_ok_bind]
        constructor
        · intro h'; split at h' <;> cases h'
        · intro h'; cases h'
    rw [this, objLoop_error_iff]
    constructor
    · rintro ⟨pre, n, v, post, a, rfl, hp, hf⟩
      exact .inr ⟨pre, n, v, post, a, rfl, hp, hf⟩
    · rintro (h' | ⟨pre, n, v, post, a, he, hp, hf⟩)
      · exact absurd rfl (h' kvs)
      · cases he; exact ⟨pre, n, v, post, a, rfl, hp, hf⟩
  | _ =>
    all_goals
      constructor
      · intro _; exact .inl (fun kvs h' => by cases h')
      · intro _; rfl


/-! ### The same for segments -/

/-- **C17 `error_zero` (segments).**  An error from `unmarshalSegmentFromBytes` / the serialization
object's `UnmarshalSegment` comes with Go's `Segment{}`, and occurs exactly when the tree-level
decoder rejects the document. -/
theorem error_zero_segment (rx : RegexOracle) (pv : Partial) (data : J) :
    ((unmarshalSegmentFromBytes rx pv data).err = true ↔ Codec.decodeSegment rx data = .error ()) ∧
    ((unmarshalSegmentFromBytes rx pv data).err = true →
      unmarshalSegmentFromBytes rx pv data = ⟨zeroSegment, true⟩) ∧
    Serialization.unmarshalSegment rx pv data = unmarshalSegmentFromBytes rx pv data := by
  refine ⟨?_, ?_, rfl⟩ <;> rw [seg_fromBytes_eq] <;> cases h : decodeSegment rx data <;> simp

/-- **C17 `hook_leaves_destination` (segments).** -/
theorem hook_leaves_destination_segment (rx : RegexOracle) (pv : Partial) (dest : Segment) (data : J) :
    (Segment.unmarshalJSON rx pv dest data).err = (unmarshalSegmentFromBytes rx pv data).err ∧
    ((Segment.unmarshalJSON rx pv dest data).err = true →
      (Segment.unmarshalJSON rx pv dest data).value = dest) ∧
    ((Segment.unmarshalJSON rx pv dest data).err = false →
      (Segment.unmarshalJSON rx pv dest data).value = (unmarshalSegmentFromBytes rx pv data).value) := by
  unfold Segment.unmarshalJSON
  generalize unmarshalSegmentFromBytes rx pv data = r
  obtain ⟨v, e⟩ := r
  cases e <;> simp

/-- **C17 `decode_total` with content (segments).** -/
theorem decode_total_entry_segment (rx : RegexOracle) (pv : Partial) (dest : Segment) (data : J) :
    (Codec.readSegment data = .error () ∧
      unmarshalSegmentFromBytes rx pv data = ⟨zeroSegment, true⟩ ∧
      Segment.unmarshalJSON rx pv dest data = ⟨dest, true⟩ ∧
      unmarshalSegmentFromReader rx pv data = ⟨pv.segment data, true⟩) ∨
    (∃ s0, Codec.readSegment data = .ok s0 ∧
      unmarshalSegmentFromBytes rx pv data = ⟨preprocessSegment rx s0, false⟩ ∧
      Segment.unmarshalJSON rx pv dest data = ⟨preprocessSegment rx s0, false⟩ ∧
      unmarshalSegmentFromReader rx pv data = ⟨preprocessSegment rx s0, false⟩) := by
  rw [seg_hook_eq, seg_fromBytes_eq]
  unfold decodeSegment
  cases h : readSegment data with
  | error e => exact .inl ⟨rfl, rfl, rfl, seg_fromReader_error rx pv data h⟩
  | ok s0 => exact .inr ⟨s0, rfl, rfl, rfl, seg_fromReader_ok rx pv data s0 h⟩

/-- **C17 `success_is_preprocessed_decoding` (segments).** -/
theorem success_is_preprocessed_decoding_segment (rx : RegexOracle) (pv : Partial) (dest : Segment)
    (data : J) (h : (unmarshalSegmentFromBytes rx pv data).err = false) :
    ∃ s0, Codec.readSegment data = .ok s0 ∧
      unmarshalSegmentFromBytes rx pv data = ⟨preprocessSegment rx s0, false⟩ ∧
      Segment.unmarshalJSON rx pv dest data = ⟨preprocessSegment rx s0, false⟩ := by
  rcases decode_total_entry_segment rx pv dest data with ⟨_, h1, _⟩ | ⟨s0, h0, h1, h2, _⟩
  · rw [h1] at h; cases h
  · exact ⟨s0, h0, h1, h2⟩

/-! ### The paths that do NOT protect the caller (as the code has them) -/

/-- The streaming function and the easyjson hook hand out the half-built, unpreprocessed value on
error — the easyjson hook by overwriting `*f` with it: "leaves the destination untouched" is a
property of the encoding/json hook only.  (The caller is expected to look at the reader / lexer.) -/
theorem reader_paths_expose_partial (rx : RegexOracle) (pv : Partial) (dest : Flag) (doc : J)
    (h : Codec.readFlag doc = .error ()) :
    unmarshalFeatureFlagFromJSONReader rx pv doc = ⟨pv.flag doc, true⟩ ∧
    FeatureFlag.unmarshalEasyJSON rx pv dest doc = ⟨pv.flag doc, true⟩ :=
  ⟨fromReader_error rx pv doc h, fromReader_error rx pv doc h⟩

/-! ### Non-vacuity: a rejected document with a non-trivial half-built value and destination -/

/-- A document whose second member is ill-typed, a reader that had already stored the key, and a
destination that holds another flag. -/
def exBadDoc : J := .obj [("key", .str "half"), ("on", .num 1), ("version", .num 3)]
def exPartial : Partial := { flag := fun _ => { key := "half" }, segment := fun _ => { key := "half" } }
def exDest : Flag := { key := "old", on := true, fmeta := { version := 9 } }

example : Codec.readFlag exBadDoc = .error () := rfl
example (rx : RegexOracle) : unmarshalFeatureFlagFromBytes rx exPartial exBadDoc = ⟨zeroFlag, true⟩ :=
  ((error_zero rx exPartial exBadDoc).2.1) (by rw [fromBytes_eq]; rfl)
example (rx : RegexOracle) :
    ((FeatureFlag.unmarshalJSON rx exPartial exDest exBadDoc).value.key,
     (FeatureFlag.unmarshalJSON rx exPartial exDest exBadDoc).value.fmeta.version,
     (FeatureFlag.unmarshalJSON rx exPartial exDest exBadDoc).err) = ("old", 9, true) := by
  rw [hook_eq]; rfl
/-- … whereas the reader-level paths return the half-built flag. -/
example (rx : RegexOracle) :
    (FeatureFlag.unmarshalEasyJSON rx exPartial exDest exBadDoc).value.key = "half" := by
  rw [(reader_paths_expose_partial rx exPartial exDest exBadDoc rfl).2]; rfl
/-- An accepted document replaces the destination completely (hypothesis of
`success_is_preprocessed_decoding` satisfied by `exDoc`, which has rules-free but non-empty content). -/
example (rx : RegexOracle) : (unmarshalFeatureFlagFromBytes rx exPartial exDoc).err = false := by
  rw [fromBytes_eq]; rfl
example (rx : RegexOracle) :
    ((FeatureFlag.unmarshalJSON rx exPartial exDest exDoc).value.key,
     (FeatureFlag.unmarshalJSON rx exPartial exDest exDoc).value.fmeta.version) = ("f", 7) := by
  rw [hook_eq]; rfl


/-! ### #59: an omitted property equals its default — nested objects

For every nested object type: a member carrying the property's default value, at any position where
no member of the same name stands before it, can be dropped without changing what is read (value
or error).  The tables list (name, default) for every property that has a JSON default; `null` is
listed as well where the reader accepts it.  (`migration.checkRatio` has none: absent means "no
ratio", every number means that ratio.) -/

/-- Generic: a member on which the handler is the identity at the INITIAL accumulator, not preceded
by a member of the same name, can be dropped (handlers of different names commute). -/
theorem objLoop_drop_default {σ} (h : σ → String → J → Codec.D σ) (hc : Codec.Comm h) (init : σ)
    (name : String) (dflt : J) (h0 : h init name dflt = pure init) (pre post : List (String × J))
    (hn : name ∉ pre.map (·.1)) :
    Codec.objLoop h init (pre ++ (name, dflt) :: post) = Codec.objLoop h init (pre ++ post) := by
  rw [Codec.objLoop_move_front h hc name dflt pre hn, objLoop_cons, h0]; rfl

def prereqDefaults : List (String × J) := [("key", .str ""), ("variation", .num 0)]
def targetDefaults : List (String × J) :=
  [("contextKind", .str ""), ("variation", .num 0), ("values", .arr []), ("values", .null)]
def clauseDefaults : List (String × J) :=
  [("contextKind", .str ""), ("attribute", .str ""), ("attribute", .null), ("op", .str ""),
   ("negate", .bool false), ("values", .arr []), ("values", .null)]
def wvDefaults : List (String × J) :=
  [("variation", .num 0), ("weight", .num 0), ("untracked", .bool false)]
def rolloutDefaults : List (String × J) :=
  [("kind", .str ""), ("contextKind", .str ""), ("bucketBy", .str ""), ("bucketBy", .null), ("seed", .null),
   ("variations", .arr [])]
def vrDefaults : List (String × J) := [("variation", .null), ("rollout", .null), ("rollout", .obj [])]
def ruleDefaults : List (String × J) :=
  [("id", .str ""), ("trackEvents", .bool false), ("variation", .null), ("rollout", .null),
   ("rollout", .obj []), ("clauses", .arr []), ("clauses", .null)]
def csaDefaults : List (String × J) := [("usingEnvironmentId", .bool false), ("usingMobileKey", .bool false)]
def segTargetDefaults : List (String × J) := [("contextKind", .str ""), ("values", .arr []), ("values", .null)]
def segRuleDefaults : List (String × J) :=
  [("id", .str ""), ("clauses", .arr []), ("clauses", .null), ("weight", .null), ("bucketBy", .str ""),
   ("bucketBy", .null), ("rolloutContextKind", .str "")]

theorem prereqH_default : ∀ nd ∈ prereqDefaults,
    prereqH { key := "", variation := 0 } nd.1 nd.2 = pure { key := "", variation := 0 } := by
  intro nd hnd
  simp only [prereqDefaults, List.mem_cons, List.not_mem_nil, or_false] at hnd
  rcases hnd with rfl | rfl <;> first | rfl | simp [prereqH, rInt, goInt_zero]

theorem targetH_default : ∀ nd ∈ targetDefaults, targetH {} nd.1 nd.2 = pure {} := by
  intro nd hnd
  simp only [targetDefaults, List.mem_cons, List.not_mem_nil, or_false] at hnd
  rcases hnd with rfl | rfl | rfl | rfl <;> first | rfl | simp [targetH, rInt, goInt_zero]

theorem clauseH_default : ∀ nd ∈ clauseDefaults, clauseH ({}, "") nd.1 nd.2 = pure ({}, "") := by
  intro nd hnd
  simp only [clauseDefaults, List.mem_cons, List.not_mem_nil, or_false] at hnd
  rcases hnd with rfl | rfl | rfl | rfl | rfl | rfl | rfl <;> rfl

theorem wvH_default : ∀ nd ∈ wvDefaults,
    wvH { variation := 0, weight := 0 } nd.1 nd.2 = pure { variation := 0, weight := 0 } := by
  intro nd hnd
  simp only [wvDefaults, List.mem_cons, List.not_mem_nil, or_false] at hnd
  rcases hnd with rfl | rfl | rfl <;> first | rfl | simp [wvH, rInt, goInt_zero]

theorem rolloutH_default : ∀ nd ∈ rolloutDefaults, rolloutH ({}, "") nd.1 nd.2 = pure ({}, "") := by
  intro nd hnd
  simp only [rolloutDefaults, List.mem_cons, List.not_mem_nil, or_false] at hnd
  rcases hnd with rfl | rfl | rfl | rfl | rfl | rfl <;> rfl

theorem vrH_default : ∀ nd ∈ vrDefaults, vrH {} nd.1 nd.2 = pure {} := by
  intro nd hnd
  simp only [vrDefaults, List.mem_cons, List.not_mem_nil, or_false] at hnd
  rcases hnd with rfl | rfl | rfl <;> rfl

theorem ruleH_default : ∀ nd ∈ ruleDefaults, ruleH {} nd.1 nd.2 = pure {} := by
  intro nd hnd
  simp only [ruleDefaults, List.mem_cons, List.not_mem_nil, or_false] at hnd
  rcases hnd with rfl | rfl | rfl | rfl | rfl | rfl | rfl <;> rfl

theorem csaH_default : ∀ nd ∈ csaDefaults,
    csaH { explicit := true } nd.1 nd.2 = pure { explicit := true } := by
  intro nd hnd
  simp only [csaDefaults, List.mem_cons, List.not_mem_nil, or_false] at hnd
  rcases hnd with rfl | rfl <;> rfl

theorem segTargetH_default : ∀ nd ∈ segTargetDefaults, segTargetH {} nd.1 nd.2 = pure {} := by
  intro nd hnd
  simp only [segTargetDefaults, List.mem_cons, List.not_mem_nil, or_false] at hnd
  rcases hnd with rfl | rfl | rfl <;> rfl

theorem segRuleH_default : ∀ nd ∈ segRuleDefaults, segRuleH ({}, "") nd.1 nd.2 = pure ({}, "") := by
  intro nd hnd
  simp only [segRuleDefaults, List.mem_cons, List.not_mem_nil, or_false] at hnd
  rcases hnd with rfl | rfl | rfl | rfl | rfl | rfl | rfl <;> rfl

/-- Prerequisite objects: `"variation": 0` / `"key": ""` equal omission. -/
theorem omitted_is_default_prereq (nd : String × J) (hnd : nd ∈ prereqDefaults)
    (pre post : List (String × J)) (h : nd.1 ∉ pre.map (·.1)) :
    readPrereq (.obj (pre ++ nd :: post)) = readPrereq (.obj (pre ++ post)) :=
  objLoop_drop_default prereqH prereqH_comm _ nd.1 nd.2 (prereqH_default nd hnd) pre post h

/-- Target objects: `"variation": 0`, `"contextKind": ""`, `"values": []` equal omission. -/
theorem omitted_is_default_target (nd : String × J) (hnd : nd ∈ targetDefaults)
    (pre post : List (String × J)) (h : nd.1 ∉ pre.map (·.1)) :
    readTarget (.obj (pre ++ nd :: post)) = readTarget (.obj (pre ++ post)) :=
  objLoop_drop_default targetH targetH_comm _ nd.1 nd.2 (targetH_default nd hnd) pre post h

/-- Clause objects: `"negate": false`, `"op": ""`, `"contextKind": ""`, `"attribute": ""`,
`"values": []` equal omission. -/
theorem omitted_is_default_clause (nd : String × J) (hnd : nd ∈ clauseDefaults)
    (pre post : List (String × J)) (h : nd.1 ∉ pre.map (·.1)) :
    readClause (.obj (pre ++ nd :: post)) = readClause (.obj (pre ++ post)) := by
  show (objLoop clauseH _ _ >>= _) = (objLoop clauseH _ _ >>= _)
  rw [objLoop_drop_default clauseH clauseH_comm _ nd.1 nd.2 (clauseH_default nd hnd) pre post h]

/-- Weighted variations: `"untracked": false`, `"weight": 0`, `"variation": 0` equal omission. -/
theorem omitted_is_default_weightedVariation (nd : String × J) (hnd : nd ∈ wvDefaults)
    (pre post : List (String × J)) (h : nd.1 ∉ pre.map (·.1)) :
    readWV (.obj (pre ++ nd :: post)) = readWV (.obj (pre ++ post)) :=
  objLoop_drop_default wvH wvH_comm _ nd.1 nd.2 (wvH_default nd hnd) pre post h

/-- Rollout objects (read into a fresh rollout): `"kind": ""`, `"contextKind": ""`, `"bucketBy": ""`,
`"seed": null`, `"variations": []` equal omission. -/
theorem omitted_is_default_rollout (nd : String × J) (hnd : nd ∈ rolloutDefaults)
    (pre post : List (String × J)) (h : nd.1 ∉ pre.map (·.1)) :
    Codec.readRollout {} (.obj (pre ++ nd :: post)) = Codec.readRollout {} (.obj (pre ++ post)) := by
  rw [readRollout_eq, readRollout_eq]
  show (objLoop rolloutH _ _ >>= _) = (objLoop rolloutH _ _ >>= _)
  rw [objLoop_drop_default rolloutH rolloutH_comm _ nd.1 nd.2 (rolloutH_default nd hnd) pre post h]

/-- The `fallthrough` object (read into a fresh value): `"variation": null`, `"rollout": null` /
`{}` equal omission. -/
theorem omitted_is_default_variationOrRollout (nd : String × J) (hnd : nd ∈ vrDefaults)
    (pre post : List (String × J)) (h : nd.1 ∉ pre.map (·.1)) :
    Codec.readVariationOrRollout {} (.obj (pre ++ nd :: post)) =
      Codec.readVariationOrRollout {} (.obj (pre ++ post)) :=
  objLoop_drop_default vrH vrH_comm _ nd.1 nd.2 (vrH_default nd hnd) pre post h

/-- Rule objects: `"trackEvents": false`, `"id": ""`, `"variation": null`, `"rollout": null`,
`"clauses": []` equal omission. -/
theorem omitted_is_default_rule (nd : String × J) (hnd : nd ∈ ruleDefaults)
    (pre post : List (String × J)) (h : nd.1 ∉ pre.map (·.1)) :
    readFlagRule (.obj (pre ++ nd :: post)) = readFlagRule (.obj (pre ++ post)) :=
  objLoop_drop_default ruleH ruleH_comm _ nd.1 nd.2 (ruleH_default nd hnd) pre post h

/-- The `clientSideAvailability` object (into a fresh value): a `false` member equals omission. -/
theorem omitted_is_default_clientSideAvailability (nd : String × J) (hnd : nd ∈ csaDefaults)
    (pre post : List (String × J)) (h : nd.1 ∉ pre.map (·.1)) :
    Codec.readClientSideAvailability {} (.obj (pre ++ nd :: post)) =
      Codec.readClientSideAvailability {} (.obj (pre ++ post)) :=
  objLoop_drop_default csaH csaH_comm _ nd.1 nd.2 (csaH_default nd hnd) pre post h

/-- Segment target objects. -/
theorem omitted_is_default_segmentTarget (nd : String × J) (hnd : nd ∈ segTargetDefaults)
    (pre post : List (String × J)) (h : nd.1 ∉ pre.map (·.1)) :
    readSegTarget (.obj (pre ++ nd :: post)) = readSegTarget (.obj (pre ++ post)) :=
  objLoop_drop_default segTargetH segTargetH_comm _ nd.1 nd.2 (segTargetH_default nd hnd) pre post h

/-- Segment rule objects: `"id": ""`, `"weight": null`, `"bucketBy": ""`, `"rolloutContextKind": ""`,
`"clauses": []` equal omission. -/
theorem omitted_is_default_segmentRule (nd : String × J) (hnd : nd ∈ segRuleDefaults)
    (pre post : List (String × J)) (h : nd.1 ∉ pre.map (·.1)) :
    readSegRule (.obj (pre ++ nd :: post)) = readSegRule (.obj (pre ++ post)) := by
  show (objLoop segRuleH _ _ >>= _) = (objLoop segRuleH _ _ >>= _)
  rw [objLoop_drop_default segRuleH segRuleH_comm _ nd.1 nd.2 (segRuleH_default nd hnd) pre post h]

/-- Whole-document instance, three levels deep: `"negate": false` (or any other clause default) in
any clause of any rule of a flag equals omission. -/
theorem omitted_is_default_flag_rule_clause (nd : String × J) (hnd : nd ∈ clauseDefaults)
    (p1 p2 : List (String × J)) (r1 r2 : List J) (q1 q2 : List (String × J)) (c1 c2 : List J)
    (pre post : List (String × J)) (h : nd.1 ∉ pre.map (·.1)) :
    Codec.readFlag (.obj (p1 ++ ("rules", .arr (r1 ++ .obj (q1 ++ ("clauses",
        .arr (c1 ++ .obj (pre ++ nd :: post) :: c2)) :: q2) :: r2)) :: p2)) =
    Codec.readFlag (.obj (p1 ++ ("rules", .arr (r1 ++ .obj (q1 ++ ("clauses",
        .arr (c1 ++ .obj (pre ++ post) :: c2)) :: q2) :: r2)) :: p2)) := by
  apply readFlag_congr_member
  intro a
  have : ∀ acc, Codec.readFlagRules acc (.arr (r1 ++ .obj (q1 ++ ("clauses",
        .arr (c1 ++ .obj (pre ++ nd :: post) :: c2)) :: q2) :: r2)) =
      Codec.readFlagRules acc (.arr (r1 ++ .obj (q1 ++ ("clauses",
        .arr (c1 ++ .obj (pre ++ post) :: c2)) :: q2) :: r2)) := by
    intro acc
    apply readFlagRules_congr
    apply readFlagRule_congr_member
    intro r
    have hc := readClauses_congr r.clauses _ _ (omitted_is_default_clause nd hnd pre post h) c1 c2
    show (do let x ← readClauses r.clauses _; pure { r with clauses := x }) =
      (do let x ← readClauses r.clauses _; pure { r with clauses := x })
    rw [hc]
  show (do let x ← readFlagRules a.flag.rules _; pure { a with flag := { a.flag with rules := x } }) =
    (do let x ← readFlagRules a.flag.rules _; pure { a with flag := { a.flag with rules := x } })
  rw [this]

/-- Non-vacuity, and why "not preceded by the same name" is needed (the default overwrites). -/
example : readClause (.obj [("op", .str "in"), ("negate", .bool false), ("values", .arr [.num 1])]) =
    readClause (.obj [("op", .str "in"), ("values", .arr [.num 1])]) :=
  omitted_is_default_clause ("negate", .bool false) (by simp [clauseDefaults]) [("op", .str "in")] _ (by decide)
example : (readClause (.obj [("negate", .bool true), ("negate", .bool false)])).toOption.map (·.negate) = some false ∧
    (readClause (.obj [("negate", .bool true)])).toOption.map (·.negate) = some true := by decide


/-! ### #60: unknown properties at ANY depth, in one statement

`pruneFlag` / `pruneSegment` delete every member whose name the reader of the enclosing object does
not know — at the top level, in every prerequisite, target, rule, clause, rollout, weighted
variation, `fallthrough`, `clientSideAvailability`, `migration`, segment target and segment rule —
and leave everything else (including all JSON data values: variations, clause values) in place.
Reading the pruned document gives the same result (value or error) as reading the original. -/

/-- Keep the members with a known name, rewriting each kept value with `sub name`. -/
def pruneMembers (known : List String) (sub : String → J → J) (kvs : List (String × J)) :
    List (String × J) :=
  kvs.filterMap fun kv => if kv.1 ∈ known then some (kv.1, sub kv.1 kv.2) else none

def pruneObj (known : List String) (sub : String → J → J) : J → J
  | .obj kvs => .obj (pruneMembers known sub kvs)
  | v => v

def pruneArr (g : J → J) : J → J
  | .arr xs => .arr (xs.map g)
  | v => v

/-- No nested schema below this member. -/
def keep : String → J → J := fun _ v => v

theorem objLoop_prune {σ} (h : σ → String → J → Codec.D σ) (known : List String) (sub : String → J → J)
    (hunk : ∀ n, n ∉ known → ∀ s v, h s n v = pure s)
    (hsub : ∀ n s v, h s n (sub n v) = h s n v) (init : σ) (kvs : List (String × J)) :
    Codec.objLoop h init (pruneMembers known sub kvs) = Codec.objLoop h init kvs := by
  induction kvs generalizing init with
  | nil => rfl
  | cons kv rest ih =>
    obtain ⟨n, v⟩ := kv
    by_cases hk : n ∈ known
    · have : pruneMembers known sub ((n, v) :: rest) = (n, sub n v) :: pruneMembers known sub rest := by
        simp [pruneMembers, hk]
      rw [this, objLoop_cons, objLoop_cons, hsub]
      congr 1; funext s; exact ih s
    · have : pruneMembers known sub ((n, v) :: rest) = pruneMembers known sub rest := by
        simp [pruneMembers, hk]
      rw [this, objLoop_cons, hunk n hk]
      exact ih init

theorem mapM_map_congr {α β} (f : α → Codec.D β) (g : α → α) (hg : ∀ x, f (g x) = f x) (xs : List α) :
    (xs.map g).mapM f = xs.mapM f := by
  induction xs with
  | nil => rfl
  | cons x xs ih => rw [List.map_cons, List.mapM_cons, List.mapM_cons, hg, ih]

def prunePrereq : J → J := pruneObj prereqKnown keep
def pruneTarget : J → J := pruneObj targetKnown keep
def pruneClause : J → J := pruneObj clauseKnown keep
def pruneWV : J → J := pruneObj wvKnown keep
def subRollout (n : String) (v : J) : J := if n = "variations" then pruneArr pruneWV v else v
def pruneRollout : J → J := pruneObj rolloutKnown subRollout
def subVR (n : String) (v : J) : J := if n = "rollout" then pruneRollout v else v
def pruneVR : J → J := pruneObj vrKnown subVR
def subRule (n : String) (v : J) : J :=
  if n = "clauses" then pruneArr pruneClause v else if n = "rollout" then pruneRollout v else v
def pruneRule : J → J := pruneObj ruleKnown subRule
def pruneCSA : J → J := pruneObj csaKnown keep
def pruneMigration : J → J := pruneObj migrationKnown keep
def subFlag (n : String) (v : J) : J :=
  if n = "prerequisites" then pruneArr prunePrereq v
  else if n = "targets" then pruneArr pruneTarget v
  else if n = "contextTargets" then pruneArr pruneTarget v
  else if n = "rules" then pruneArr pruneRule v
  else if n = "fallthrough" then pruneVR v
  else if n = "clientSideAvailability" then pruneCSA v
  else if n = "migration" then pruneMigration v
  else v
/-- The flag document with every unknown member removed, at every depth. -/
def pruneFlag : J → J := pruneObj flagKnown subFlag

def pruneSegTarget : J → J := pruneObj segTargetKnown keep
def subSegRule (n : String) (v : J) : J := if n = "clauses" then pruneArr pruneClause v else v
def pruneSegRule : J → J := pruneObj segRuleKnown subSegRule
def subSegment (n : String) (v : J) : J :=
  if n = "includedContexts" then pruneArr pruneSegTarget v
  else if n = "excludedContexts" then pruneArr pruneSegTarget v
  else if n = "rules" then pruneArr pruneSegRule v
  else v
/-- The segment document with every unknown member removed, at every depth. -/
def pruneSegment : J → J := pruneObj segmentKnown subSegment

theorem readPrereq_prune (x : J) : readPrereq (prunePrereq x) = readPrereq x := by
  cases x with
  | obj kvs =>
    exact objLoop_prune prereqH prereqKnown keep (fun n hn s v => prereqH_unknown s n v hn)
      (fun _ _ _ => rfl) _ kvs
  | _ => rfl

theorem readTarget_prune (x : J) : readTarget (pruneTarget x) = readTarget x := by
  cases x with
  | obj kvs =>
    exact objLoop_prune targetH targetKnown keep (fun n hn s v => targetH_unknown s n v hn)
      (fun _ _ _ => rfl) _ kvs
  | _ => rfl

theorem readClause_prune (x : J) : readClause (pruneClause x) = readClause x := by
  cases x with
  | obj kvs =>
    show (objLoop clauseH _ (pruneMembers _ _ kvs) >>= _) = (objLoop clauseH _ kvs >>= _)
    rw [objLoop_prune clauseH clauseKnown keep (fun n hn s v => clauseH_unknown s n v hn)
      (fun _ _ _ => rfl)]
  | _ => rfl

theorem readWV_prune (x : J) : readWV (pruneWV x) = readWV x := by
  cases x with
  | obj kvs =>
    exact objLoop_prune wvH wvKnown keep (fun n hn s v => wvH_unknown s n v hn) (fun _ _ _ => rfl) _ kvs
  | _ => rfl

theorem readSegTarget_prune (x : J) : readSegTarget (pruneSegTarget x) = readSegTarget x := by
  cases x with
  | obj kvs =>
    exact objLoop_prune segTargetH segTargetKnown keep (fun n hn s v => segTargetH_unknown s n v hn)
      (fun _ _ _ => rfl) _ kvs
  | _ => rfl

theorem readPrerequisites_prune (acc : List Prereq) (v : J) :
    Codec.readPrerequisites acc (pruneArr prunePrereq v) = Codec.readPrerequisites acc v := by
  cases v with
  | arr xs =>
    simp only [readPrerequisites_eq, pruneArr, rArrayOrNull, pure_bind,
      mapM_map_congr readPrereq prunePrereq readPrereq_prune]
  | _ => rfl

theorem readTargets_prune (acc : List Target) (v : J) :
    Codec.readTargets acc (pruneArr pruneTarget v) = Codec.readTargets acc v := by
  cases v with
  | arr xs =>
    simp only [readTargets_eq, pruneArr, rArrayOrNull, pure_bind,
      mapM_map_congr readTarget pruneTarget readTarget_prune]
  | _ => rfl

theorem readClauses_prune (acc : List Clause) (v : J) :
    Codec.readClauses acc (pruneArr pruneClause v) = Codec.readClauses acc v := by
  cases v with
  | arr xs =>
    simp only [readClauses_eq, pruneArr, rArrayOrNull, pure_bind,
      mapM_map_congr readClause pruneClause readClause_prune]
  | _ => rfl

theorem readWeightedVariations_prune (acc : List WeightedVariation) (v : J) :
    Codec.readWeightedVariations acc (pruneArr pruneWV v) = Codec.readWeightedVariations acc v := by
  cases v with
  | arr xs =>
    simp only [readWeightedVariations_eq, pruneArr, rArray, pure_bind,
      mapM_map_congr readWV pruneWV readWV_prune]
  | _ => rfl

theorem readSegmentTargets_prune (acc : List SegmentTarget) (v : J) :
    Codec.readSegmentTargets acc (pruneArr pruneSegTarget v) = Codec.readSegmentTargets acc v := by
  cases v with
  | arr xs =>
    simp only [readSegmentTargets_eq, pruneArr, rArrayOrNull, pure_bind,
      mapM_map_congr readSegTarget pruneSegTarget readSegTarget_prune]
  | _ => rfl

theorem rolloutH_sub (n : String) (s : Rollout × String) (v : J) :
    rolloutH s n (subRollout n v) = rolloutH s n v := by
  unfold subRollout
  split
  · rename_i hn; subst hn
    show (do let x ← readWeightedVariations s.1.variations _; pure ({ s.1 with variations := x }, s.2)) =
      (do let x ← readWeightedVariations s.1.variations _; pure ({ s.1 with variations := x }, s.2))
    rw [readWeightedVariations_prune]
  · rfl

theorem readRollout_prune (out : Rollout) (v : J) :
    Codec.readRollout out (pruneRollout v) = Codec.readRollout out v := by
  cases v with
  | obj kvs =>
    rw [readRollout_eq, readRollout_eq]
    show (objLoop rolloutH _ (pruneMembers _ _ kvs) >>= _) = (objLoop rolloutH _ kvs >>= _)
    rw [objLoop_prune rolloutH rolloutKnown subRollout (fun n hn s v => rolloutH_unknown s n v hn)
      rolloutH_sub]
  | _ => rfl

theorem vrH_sub (n : String) (o : VariationOrRollout) (v : J) : vrH o n (subVR n v) = vrH o n v := by
  unfold subVR
  split
  · rename_i hn; subst hn
    show (do let x ← readRollout o.rollout _; pure { o with rollout := x }) =
      (do let x ← readRollout o.rollout _; pure { o with rollout := x })
    rw [readRollout_prune]
  · rfl

theorem readVariationOrRollout_prune (out : VariationOrRollout) (v : J) :
    Codec.readVariationOrRollout out (pruneVR v) = Codec.readVariationOrRollout out v := by
  cases v with
  | obj kvs =>
    exact objLoop_prune vrH vrKnown subVR (fun n hn s v => vrH_unknown s n v hn) vrH_sub _ kvs
  | _ => rfl

theorem ruleH_sub (n : String) (r : FlagRule) (v : J) : ruleH r n (subRule n v) = ruleH r n v := by
  unfold subRule
  split
  · rename_i hn; subst hn
    show (do let x ← readClauses r.clauses _; pure { r with clauses := x }) =
      (do let x ← readClauses r.clauses _; pure { r with clauses := x })
    rw [readClauses_prune]
  · split
    · rename_i hn; subst hn
      show (do let x ← readRollout r.vr.rollout _; pure { r with vr := { r.vr with rollout := x } }) =
        (do let x ← readRollout r.vr.rollout _; pure { r with vr := { r.vr with rollout := x } })
      rw [readRollout_prune]
    · rfl

theorem readFlagRule_prune (x : J) : readFlagRule (pruneRule x) = readFlagRule x := by
  cases x with
  | obj kvs =>
    exact objLoop_prune ruleH ruleKnown subRule (fun n hn s v => ruleH_unknown s n v hn) ruleH_sub _ kvs
  | _ => rfl

theorem readFlagRules_prune (acc : List FlagRule) (v : J) :
    Codec.readFlagRules acc (pruneArr pruneRule v) = Codec.readFlagRules acc v := by
  cases v with
  | arr xs =>
    simp only [readFlagRules_eq, pruneArr, rArrayOrNull, pure_bind,
      mapM_map_congr readFlagRule pruneRule readFlagRule_prune]
  | _ => rfl

theorem readClientSideAvailability_prune (out : ClientSideAvailability) (v : J) :
    Codec.readClientSideAvailability out (pruneCSA v) = Codec.readClientSideAvailability out v := by
  cases v with
  | obj kvs =>
    rw [readClientSideAvailability_eq, readClientSideAvailability_eq]
    exact objLoop_prune csaH csaKnown keep (fun n hn s v => csaH_unknown s n v hn) (fun _ _ _ => rfl) _ kvs
  | _ => rfl

theorem readMigration_prune (v : J) : Codec.readMigration (pruneMigration v) = Codec.readMigration v := by
  cases v with
  | obj kvs =>
    rw [readMigration_eq, readMigration_eq]
    show (objLoop migrationH _ (pruneMembers _ _ kvs) >>= _) = (objLoop migrationH _ kvs >>= _)
    rw [objLoop_prune migrationH migrationKnown keep (fun n hn s v => migrationH_unknown s n v hn)
      (fun _ _ _ => rfl)]
  | _ => rfl

theorem readFlagProp_sub (n : String) (a : FlagAcc) (v : J) :
    readFlagProp a n (subFlag n v) = readFlagProp a n v := by
  unfold subFlag
  split
  · rename_i hn; subst hn
    show (do let x ← readPrerequisites a.flag.prerequisites _; pure { a with flag := { a.flag with prerequisites := x } }) =
      (do let x ← readPrerequisites a.flag.prerequisites _; pure { a with flag := { a.flag with prerequisites := x } })
    rw [readPrerequisites_prune]
  split
  · rename_i hn; subst hn
    show (do let x ← readTargets a.flag.targets _; pure { a with flag := { a.flag with targets := x } }) =
      (do let x ← readTargets a.flag.targets _; pure { a with flag := { a.flag with targets := x } })
    rw [readTargets_prune]
  split
  · rename_i hn; subst hn
    show (do let x ← readTargets a.flag.contextTargets _; pure { a with flag := { a.flag with contextTargets := x } }) =
      (do let x ← readTargets a.flag.contextTargets _; pure { a with flag := { a.flag with contextTargets := x } })
    rw [readTargets_prune]
  split
  · rename_i hn; subst hn
    show (do let x ← readFlagRules a.flag.rules _; pure { a with flag := { a.flag with rules := x } }) =
      (do let x ← readFlagRules a.flag.rules _; pure { a with flag := { a.flag with rules := x } })
    rw [readFlagRules_prune]
  split
  · rename_i hn; subst hn
    show (do let x ← readVariationOrRollout a.flag.fallthrough _; pure { a with flag := { a.flag with fallthrough := x } }) =
      (do let x ← readVariationOrRollout a.flag.fallthrough _; pure { a with flag := { a.flag with fallthrough := x } })
    rw [readVariationOrRollout_prune]
  split
  · rename_i hn; subst hn
    show (do let x ← readClientSideAvailability a.flag.fmeta.clientSide _
             pure { a with flag := { a.flag with fmeta := { a.flag.fmeta with clientSide := x } } }) =
      (do let x ← readClientSideAvailability a.flag.fmeta.clientSide _
          pure { a with flag := { a.flag with fmeta := { a.flag.fmeta with clientSide := x } } })
    rw [readClientSideAvailability_prune]
  split
  · rename_i hn; subst hn
    show (do let x ← readMigration _
             pure { a with flag := { a.flag with fmeta := { a.flag.fmeta with migration := x } } }) =
      (do let x ← readMigration _
          pure { a with flag := { a.flag with fmeta := { a.flag.fmeta with migration := x } } })
    rw [readMigration_prune]
  · rfl

/-- **Unknown properties are ignored at any depth (flags).**  Deleting every member the decoder
does not know — at the top level and inside every nested object, all at once — changes neither the
flag that is read nor whether the document is rejected. -/
theorem unknown_ignored_everywhere_flag (doc : J) : Codec.readFlag (pruneFlag doc) = Codec.readFlag doc := by
  cases doc with
  | obj kvs =>
    show (objLoop readFlagProp {} (pruneMembers _ _ kvs) >>= _) = (objLoop readFlagProp {} kvs >>= _)
    rw [objLoop_prune readFlagProp flagKnown subFlag (fun n hn s v => readFlagProp_unknown s n v hn)
      readFlagProp_sub]
  | _ => rfl

theorem unknown_ignored_everywhere_decodeFlag (rx : RegexOracle) (doc : J) :
    Codec.decodeFlag rx (pruneFlag doc) = Codec.decodeFlag rx doc := by
  unfold decodeFlag; rw [unknown_ignored_everywhere_flag]

theorem segRuleH_sub (n : String) (s : SegmentRule × String) (v : J) :
    segRuleH s n (subSegRule n v) = segRuleH s n v := by
  unfold subSegRule
  split
  · rename_i hn; subst hn
    show (do let x ← readClauses s.1.clauses _; pure ({ s.1 with clauses := x }, s.2)) =
      (do let x ← readClauses s.1.clauses _; pure ({ s.1 with clauses := x }, s.2))
    rw [readClauses_prune]
  · rfl

theorem readSegRule_prune (x : J) : readSegRule (pruneSegRule x) = readSegRule x := by
  cases x with
  | obj kvs =>
    show (objLoop segRuleH _ (pruneMembers _ _ kvs) >>= _) = (objLoop segRuleH _ kvs >>= _)
    rw [objLoop_prune segRuleH segRuleKnown subSegRule (fun n hn s v => segRuleH_unknown s n v hn)
      segRuleH_sub]
  | _ => rfl

theorem readSegmentRules_prune (acc : List SegmentRule) (v : J) :
    Codec.readSegmentRules acc (pruneArr pruneSegRule v) = Codec.readSegmentRules acc v := by
  cases v with
  | arr xs =>
    simp only [readSegmentRules_eq, pruneArr, rArrayOrNull, pure_bind,
      mapM_map_congr readSegRule pruneSegRule readSegRule_prune]
  | _ => rfl

theorem readSegmentProp_sub (n : String) (s : Segment) (v : J) :
    readSegmentProp s n (subSegment n v) = readSegmentProp s n v := by
  unfold subSegment
  split
  · rename_i hn; subst hn
    show (do let x ← readSegmentTargets s.includedContexts _; pure { s with includedContexts := x }) =
      (do let x ← readSegmentTargets s.includedContexts _; pure { s with includedContexts := x })
    rw [readSegmentTargets_prune]
  split
  · rename_i hn; subst hn
    show (do let x ← readSegmentTargets s.excludedContexts _; pure { s with excludedContexts := x }) =
      (do let x ← readSegmentTargets s.excludedContexts _; pure { s with excludedContexts := x })
    rw [readSegmentTargets_prune]
  split
  · rename_i hn; subst hn
    show (do let x ← readSegmentRules s.rules _; pure { s with rules := x }) =
      (do let x ← readSegmentRules s.rules _; pure { s with rules := x })
    rw [readSegmentRules_prune]
  · rfl

/-- **Unknown properties are ignored at any depth (segments).** -/
theorem unknown_ignored_everywhere_segment (doc : J) :
    Codec.readSegment (pruneSegment doc) = Codec.readSegment doc := by
  cases doc with
  | obj kvs =>
    exact objLoop_prune readSegmentProp segmentKnown subSegment
      (fun n hn s v => readSegmentProp_unknown s n v hn) readSegmentProp_sub _ kvs
  | _ => rfl

/-- Non-vacuity: unknown members at four depths disappear, known ones and data values stay. -/
example : pruneFlag (.obj [("key", .str "f"), ("x", .num 1),
      ("rules", .arr [.obj [("id", .str "r"), ("y", .null),
        ("clauses", .arr [.obj [("op", .str "in"), ("z", .arr []), ("values", .arr [.obj [("w", .num 1)]])]]),
        ("rollout", .obj [("variations", .arr [.obj [("weight", .num 1), ("u", .str "")]]), ("t", .null)])]])]) =
    .obj [("key", .str "f"),
      ("rules", .arr [.obj [("id", .str "r"),
        ("clauses", .arr [.obj [("op", .str "in"), ("values", .arr [.obj [("w", .num 1)]])]]),
        ("rollout", .obj [("variations", .arr [.obj [("weight", .num 1)]])])]])] := by
  rfl

#print axioms error_zero
#print axioms success_is_preprocessed_decoding
#print axioms hook_leaves_destination
#print axioms decode_total_entry
#print axioms readFlag_error_iff
#print axioms error_zero_segment
#print axioms hook_leaves_destination_segment
#print axioms decode_total_entry_segment
#print axioms success_is_preprocessed_decoding_segment
#print axioms reader_paths_expose_partial
#print axioms objLoop_drop_default
#print axioms prereqH_default
#print axioms targetH_default
#print axioms clauseH_default
#print axioms wvH_default
#print axioms rolloutH_default
#print axioms vrH_default
#print axioms ruleH_default
#print axioms csaH_default
#print axioms segTargetH_default
#print axioms segRuleH_default
#print axioms omitted_is_default_prereq
#print axioms omitted_is_default_target
#print axioms omitted_is_default_clause
#print axioms omitted_is_default_weightedVariation
#print axioms omitted_is_default_rollout
#print axioms omitted_is_default_variationOrRollout
#print axioms omitted_is_default_rule
#print axioms omitted_is_default_clientSideAvailability
#print axioms omitted_is_default_segmentTarget
#print axioms omitted_is_default_segmentRule
#print axioms omitted_is_default_flag_rule_clause
#print axioms objLoop_prune
#print axioms mapM_map_congr
#print axioms readPrereq_prune
#print axioms readTarget_prune
#print axioms readClause_prune
#print axioms readWV_prune
#print axioms readSegTarget_prune
#print axioms readPrerequisites_prune
#print axioms readTargets_prune
#print axioms readClauses_prune
#print axioms readWeightedVariations_prune
#print axioms readSegmentTargets_prune
#print axioms rolloutH_sub
#print axioms readRollout_prune
#print axioms vrH_sub
#print axioms readVariationOrRollout_prune
#print axioms ruleH_sub
#print axioms readFlagRule_prune
#print axioms readFlagRules_prune
#print axioms readClientSideAvailability_prune
#print axioms readMigration_prune
#print axioms readFlagProp_sub
#print axioms unknown_ignored_everywhere_flag
#print axioms unknown_ignored_everywhere_decodeFlag
#print axioms segRuleH_sub
#print axioms readSegRule_prune
#print axioms readSegmentRules_prune
#print axioms readSegmentProp_sub
#print axioms unknown_ignored_everywhere_segment

end LD.C17

/-
  C11 — Big segment membership, status reporting and query economy.

  "For an unbounded segment with a generation, membership is decided by the store's answer for the
  context key of the segment's kind under the reference `<key>.g<generation>`: included is a match,
  excluded is a non-match, no answer (or a nil membership, or no provider) falls through to the
  segment's rules, and the regular included/excluded lists are ignored; a context lacking that kind
  does not match and triggers no query; a missing generation is a non-match reported as
  NOT_CONFIGURED.  The reason carries a big-segments status iff some unbounded segment was evaluated
  for a context having its kind (or lacked a generation), equal to the worst status seen anywhere in
  the evaluation including prerequisites (NOT_CONFIGURED > STORE_ERROR > STALE > HEALTHY), and
  within one evaluation the store is queried at most once per distinct context key."

  Statements; the proofs appeal to LDEval/Proofs/{Reach,Refine,StatusLog}.lean.
-/
import LDEval.Proofs.StatusLog
import LDEval.Proofs.Refine

namespace LD.C11

/-! ### 1. Membership of an unbounded segment (stateless Spec; the model refines it, see
`segContains_refines`) -/

/-- `makeBigSegmentRef`: `<key>.g<generation>`. -/
theorem ref_format (s : Segment) (g : Int) (hg : s.generation = some g) :
    bigSegmentRef s = s.key ++ ".g" ++ toString g := by
  simp [bigSegmentRef, hg]

/-- Included ⇒ match, excluded ⇒ non-match, no answer / nil membership / no provider ⇒ the rules.
`segLists` (the regular included/excluded lists) does not occur on the right-hand side. -/
theorem membership (rec : Spec.SegRec) (env : Env) (s : Segment) (chain : List String) (g : Int)
    (key : String) (hu : s.unbounded = true) (hg : s.generation = some g)
    (hc : chain.contains s.key = false)
    (hk : env.ctx.keyByKind s.unboundedContextKind = some key) :
    Spec.segBody rec env s chain =
      match Spec.membershipOf env key with
      | none => Spec.segRules rec env (chain ++ [s.key]) s s.rules
      | some tbl =>
        match tbl.lookup (s.key ++ ".g" ++ toString g) with
        | some b => .ok b
        | none => Spec.segRules rec env (chain ++ [s.key]) s s.rules := by
  rw [← ref_format s g hg]
  simp only [Spec.segBody, hc, hu, hg, hk, Bool.false_eq_true, if_false, if_true]
  rfl

/-- No provider ⇒ no membership ⇒ the rules decide. -/
theorem membership_no_provider (rec : Spec.SegRec) (env : Env) (s : Segment) (chain : List String)
    (g : Int) (key : String) (hu : s.unbounded = true) (hg : s.generation = some g)
    (hc : chain.contains s.key = false)
    (hk : env.ctx.keyByKind s.unboundedContextKind = some key) (hbs : env.bs = none) :
    Spec.segBody rec env s chain = Spec.segRules rec env (chain ++ [s.key]) s s.rules := by
  rw [membership rec env s chain g key hu hg hc hk]
  simp [Spec.membershipOf, hbs]

/-- The model computes exactly the Spec's membership, from any state of the same evaluation. -/
theorem membership_model (n : Nat) (env : Env) (s : Segment) (chain : List String) (st : St)
    (h : Reach env {} st) :
    (segContains n env s chain st).1 = Spec.segContains n env s chain := by
  refine (segContains_refines n env s chain st ?_).1
  intro key m hm
  obtain ⟨p, hp, hm'⟩ := (h.pconsistent (PConsistent.empty env)) key m hm
  exact ⟨by simp [Spec.membershipOf, hp, hm'], by simp [hp]⟩

/-! ### 2. A context lacking the segment's kind: non-match, nothing touched -/

theorem missing_kind (recS : Spec.SegRec) (rec : SegRec) (env : Env) (s : Segment)
    (chain : List String) (g : Int) (st : St) (hu : s.unbounded = true)
    (hg : s.generation = some g) (hc : chain.contains s.key = false)
    (hk : env.ctx.keyByKind s.unboundedContextKind = none) :
    Spec.segBody recS env s chain = .ok false ∧
      segBody rec env s chain st = (.ok false, st) := by
  constructor
  · simp only [Spec.segBody, hc, hu, hg, hk, Bool.false_eq_true, if_false, if_true]
  · simp only [segBody, hc, hu, hg, hk, Bool.false_eq_true, if_false, if_true]

/-! ### 3. No generation: non-match, reported as NOT_CONFIGURED -/

theorem no_generation (rec : SegRec) (env : Env) (s : Segment) (chain : List String) (st : St)
    (hu : s.unbounded = true) (hg : s.generation = none) (hc : chain.contains s.key = false) :
    segBody rec env s chain st = (.ok false, { st with status := some .notConfigured }) := by
  simp only [segBody, hc, hu, hg, Bool.false_eq_true, if_false, if_true]

/-! ### 4. Query economy -/

/-- Within one evaluation the provider is queried at most once per distinct context key. -/
theorem query_once (env : Env) (f : Flag) : (evaluate env f).bsQueries.Nodup :=
  evaluate_bsQueries_nodup env f

/-! ### 5. The reported status is the worst status seen -/

/-- (a) No status ⇒ the provider was never queried. -/
theorem status_none_iff_untouched {env : Env} {st : St} (h : Reach env {} st)
    (hs : st.status = none) : st.bsQueries = [] :=
  reach_status_none_queries h hs

/-- (a, converse direction) A query, the no-provider case and the no-generation case all set a
status … -/
theorem bigSegMembership_status (env : Env) (key : String) (st : St)
    (h : st.cache.lookup key = none) : (bigSegMembership env key st).2.status.isSome := by
  unfold bigSegMembership
  rw [h]
  simp only
  split
  · rfl
  · exact updateStatus_some_right_isSome _ _

/-- … and once set it stays set for the rest of the evaluation. -/
theorem status_stays_some {env : Env} {a b : St} (h : Reach env a b) (ha : a.status.isSome) :
    b.status.isSome :=
  reach_status_some h ha

/-- "Carries a status if an unbounded segment was evaluated for a context having its kind (or
lacked a generation)": at any point of an evaluation, evaluating such a segment leaves a status
(set now, or set when the membership was first fetched). -/
theorem touched_status_some {rec : SegRec} {env : Env} (hrec : SegRecReach env rec) (s : Segment)
    (chain : List String) (st : St) (h : Reach env {} st) (hu : s.unbounded = true)
    (hc : chain.contains s.key = false)
    (hk : s.generation = none ∨ (env.ctx.keyByKind s.unboundedContextKind).isSome) :
    (segBody rec env s chain st).2.status.isSome := by
  cases hg : s.generation with
  | none => rw [no_generation rec env s chain st hu hg hc]; rfl
  | some g =>
    rw [hg] at hk
    simp only [reduceCtorEq, false_or] at hk
    cases hkk : env.ctx.keyByKind s.unboundedContextKind with
    | none => rw [hkk] at hk; cases hk
    | some key =>
      have hm : (bigSegMembership env key st).2.status.isSome := by
        cases hl : st.cache.lookup key with
        | none => exact bigSegMembership_status env key st hl
        | some m =>
          simp only [bigSegMembership, hl]
          rcases reach_cache_status h with hcache | hsome
          · rw [hcache] at hl; cases hl
          · exact hsome
      simp only [segBody, hc, hu, hg, hkk, Bool.false_eq_true, if_false, if_true]
      generalize bigSegMembership env key st = r at hm
      obtain ⟨m, st1⟩ := r
      simp only at hm ⊢
      split
      · exact reach_status_some (segRules_reach hrec _ _ _ _) hm
      · split
        · exact hm
        · exact reach_status_some (segRules_reach hrec _ _ _ _) hm

/-- (b) The status is at least as bad as every status the provider returned. -/
theorem status_ge_queried {env : Env} {st : St} (h : Reach env {} st) :
    ∀ k ∈ st.bsQueries, ∃ p, env.bs = some p ∧
      statusRank (some (p.get k).status) ≤ statusRank st.status :=
  reach_status_ge_queried h

/-! (c) and (d) are FALSE for the coarse relation `Reach`, whose `mergeStatus` primitive merges an
*arbitrary* `old` status: -/

/-- Counterexample to (c)/(d) as stated over `Reach`: with no provider, `Reach` allows a state with
status STALE (merge `old := STALE` into the empty state). -/
theorem reach_too_coarse (env : Env) :
    ∃ st, Reach env {} st ∧ st.status = some .stale ∧ st.bsQueries = [] :=
  ⟨_, .single (.mergeStatus {} (some .stale)), rfl, rfl⟩

/-- (c), corrected: over the finer relation `Star (Prim0 env)` (which `evaluate` satisfies, see
`evaluate_reach0`: the status merge after a prerequisite is the identity in the model), the status
is one that was actually seen. -/
theorem status_is_seen_corrected {env : Env} {st : St} (h : Star (Prim0 env) {} st) :
    st.status = none ∨ st.status = some .notConfigured ∨
      ∃ p k, env.bs = some p ∧ k ∈ st.bsQueries ∧ st.status = some (p.get k).status :=
  star_status_seen h

/-- (d), corrected in the same way. -/
theorem no_provider_not_configured_corrected {env : Env} {st : St} (hbs : env.bs = none)
    (h : Star (Prim0 env) {} st) : st.status = none ∨ st.status = some .notConfigured :=
  star_no_provider_status hbs h

/-- (c) for the states the evaluator actually reaches from the empty state. -/
theorem status_is_seen_evalFlag (sf n : Nat) (env : Env) (f : Flag) (chain : List String) :
    let st := (evalFlag sf n env f chain {}).2
    st.status = none ∨ st.status = some .notConfigured ∨
      ∃ p k, env.bs = some p ∧ k ∈ st.bsQueries ∧ st.status = some (p.get k).status :=
  star_status_seen (evalFlag_freach sf n env f chain {})

/-- (d) for the states the evaluator actually reaches from the empty state. -/
theorem no_provider_not_configured_evalFlag (sf n : Nat) (env : Env) (f : Flag)
    (chain : List String) (hbs : env.bs = none) :
    let st := (evalFlag sf n env f chain {}).2
    st.status = none ∨ st.status = some .notConfigured :=
  star_no_provider_status hbs (evalFlag_freach sf n env f chain {})

/-- The finer relation is included in the coarse one, so (a), (b) and query economy hold of it. -/
theorem star_reach {env : Env} {a b : St} (h : Star (Prim0 env) a b) : Reach env a b := h.toReach

/-- The status `evaluate` reports is the worst status seen: at least as bad as the status returned
for every key queried (including inside prerequisites — `bsQueries` records them all), and itself
either absent, NOT_CONFIGURED, or the status returned for one of the queried keys. -/
theorem status_worst (env : Env) (f : Flag) :
    let o := evaluate env f
    let s := o.result.detail.reason.bigSegmentsStatus
    (∀ k ∈ o.bsQueries, ∃ p, env.bs = some p ∧
        statusRank (some (p.get k).status) ≤ statusRank s) ∧
    (s = none ∨ s = some .notConfigured ∨
      ∃ p k, env.bs = some p ∧ k ∈ o.bsQueries ∧ s = some (p.get k).status) := by
  obtain ⟨st, hr, _, _, _, _, hq, _, hs⟩ := evaluate_reach0 env f
  simp only
  rw [hq, hs]
  exact ⟨reach_status_ge_queried hr.toReach, star_status_seen hr⟩

/-- No status reported ⇒ the provider was not queried at all. -/
theorem status_none_no_query (env : Env) (f : Flag)
    (h : (evaluate env f).result.detail.reason.bigSegmentsStatus = none) :
    (evaluate env f).bsQueries = [] := by
  obtain ⟨st, hr, _, _, _, _, hq, _, hs⟩ := evaluate_reach0 env f
  rw [hq]; rw [hs] at h
  exact reach_status_none_queries hr.toReach h

/-- No provider ⇒ the reported status is absent or NOT_CONFIGURED. -/
theorem no_provider_status (env : Env) (f : Flag) (hbs : env.bs = none) :
    (evaluate env f).result.detail.reason.bigSegmentsStatus = none ∨
    (evaluate env f).result.detail.reason.bigSegmentsStatus = some .notConfigured := by
  obtain ⟨st, hr, _, _, _, _, _, _, hs⟩ := evaluate_reach0 env f
  rw [hs]
  exact star_no_provider_status hbs hr

/-- "Only if": a status is reported only when the provider was queried (which only an unbounded
segment with a generation, for a context having its kind, does) or NOT_CONFIGURED was recorded (no
provider for such a segment, or no generation). -/
theorem status_some_only_if (env : Env) (f : Flag)
    (h : (evaluate env f).result.detail.reason.bigSegmentsStatus ≠ none) :
    (evaluate env f).bsQueries ≠ [] ∨
    (evaluate env f).result.detail.reason.bigSegmentsStatus = some .notConfigured := by
  rcases (status_worst env f).2 with h1 | h1 | ⟨p, k, _, hk, _⟩
  · exact absurd h1 h
  · exact .inr h1
  · exact .inl (List.ne_nil_of_mem hk)

/-! ### 6. Non-vacuity: concrete evaluations -/

namespace Ex

/-- `seg` lists `u1` in its regular `excluded` list and `seg2` lists it in `included`: both lists
must be ignored because the segments are unbounded. -/
def seg : Segment :=
  { key := "seg", unbounded := true, unboundedContextKind := "user", generation := some 1,
    excluded := ["u1"] }
def seg2 : Segment :=
  { key := "seg2", unbounded := true, unboundedContextKind := "", generation := some 7,
    included := ["u1"] }
def segOrg : Segment :=
  { key := "segOrg", unbounded := true, unboundedContextKind := "org", generation := some 2 }
def segNoGen : Segment :=
  { key := "segNoGen", unbounded := true, unboundedContextKind := "user", included := ["u1"] }

def prov : BSProvider :=
  { table := [("u1", { membership := some [("seg.g1", true), ("seg2.g7", false)], status := .stale }),
              ("o1", { membership := none, status := .storeError })] }

def store : Store :=
  Store.ofLists
    [{ key := "pre", on := true, variations := [.bool false, .bool true],
       rules := [{ vr := { variation := some 1 },
                   clauses := [{ op := "segmentMatch", values := [.str "segOrg"] }] }],
       fallthrough := { variation := some 0 } }]
    [seg, seg2, segOrg, segNoGen]

def user : SCtx := { kind := "user", key := "u1" }
def org : SCtx := { kind := "org", key := "o1" }

def env (bs : Option BSProvider) (ctx : Ctx) : Env :=
  { opts := {}, store := store, bs := bs, ctx := ctx, rx := fun _ _ => none }

/-- A flag whose single rule is "in segment `k`" → variation 1, else variation 0. -/
def flagOn (ks : List String) (prereqs : List Prereq := []) : Flag :=
  { key := "f", on := true, variations := [.bool false, .bool true], prerequisites := prereqs,
    rules := [{ vr := { variation := some 1 },
                clauses := ks.map fun k => { op := "segmentMatch", values := [.str k] } }],
    fallthrough := { variation := some 0 } }

/-- Included ⇒ match (although `u1` is in the regular `excluded` list); one query, one membership
check under the reference `seg.g1`; the provider's STALE is reported. -/
example :
    let o := evaluate (env (some prov) (.single user)) (flagOn ["seg"])
    o.result.detail.index = some 1 ∧ o.result.detail.reason.kind = .ruleMatch ∧
    o.result.detail.reason.bigSegmentsStatus = some .stale ∧
    o.bsQueries = ["u1"] ∧ o.memChecks = [("u1", "seg.g1")] := by decide

/-- Excluded ⇒ non-match (although `u1` is in the regular `included` list). -/
example :
    let o := evaluate (env (some prov) (.single user)) (flagOn ["seg2"])
    o.result.detail.index = some 0 ∧ o.result.detail.reason.kind = .fallthrough ∧
    o.result.detail.reason.bigSegmentsStatus = some .stale ∧
    o.bsQueries = ["u1"] ∧ o.memChecks = [("u1", "seg2.g7")] := by decide

/-- Two big segments, one context key: two membership checks but a single query. -/
example :
    let o := evaluate (env (some prov) (.single user)) (flagOn ["seg", "seg2"])
    o.bsQueries = ["u1"] ∧ o.memChecks = [("u1", "seg.g1"), ("u1", "seg2.g7")] := by decide

/-- The context lacks the segment's kind: non-match, no query, no status. -/
example :
    let o := evaluate (env (some prov) (.single user)) (flagOn ["segOrg"])
    o.result.detail.index = some 0 ∧ o.result.detail.reason.bigSegmentsStatus = none ∧
    o.bsQueries = [] ∧ o.memChecks = [] := by decide

/-- No generation: non-match, NOT_CONFIGURED, no query. -/
example :
    let o := evaluate (env (some prov) (.single user)) (flagOn ["segNoGen"])
    o.result.detail.index = some 0 ∧
    o.result.detail.reason.bigSegmentsStatus = some .notConfigured ∧ o.bsQueries = [] := by decide

/-- No provider: NOT_CONFIGURED, no query, the rules (none here) decide. -/
example :
    let o := evaluate (env none (.single user)) (flagOn ["seg"])
    o.result.detail.index = some 0 ∧
    o.result.detail.reason.bigSegmentsStatus = some .notConfigured ∧ o.bsQueries = [] := by decide

/-- The worst status includes prerequisites: the prerequisite `pre` consults `segOrg` (STORE_ERROR
for `o1`, nil membership ⇒ rules ⇒ non-match ⇒ prerequisite fails), the flag itself would only
see STALE. -/
example :
    let o := evaluate (env (some prov) (.multi [user, org])) (flagOn ["seg"] [⟨"pre", 0⟩])
    o.result.detail.reason.bigSegmentsStatus = some .storeError ∧
    o.bsQueries = ["o1", "u1"] ∧ o.result.detail.index = some 1 := by decide

example :
    let o := evaluate (env (some prov) (.multi [user, org])) (flagOn ["seg"] [⟨"pre", 1⟩])
    o.result.detail.reason.kind = .prereqFailed ∧
    o.result.detail.reason.bigSegmentsStatus = some .storeError ∧ o.bsQueries = ["o1"] := by decide

end Ex

end LD.C11

#print axioms LD.C11.membership
#print axioms LD.C11.ref_format
#print axioms LD.C11.membership_model
#print axioms LD.C11.missing_kind
#print axioms LD.C11.no_generation
#print axioms LD.C11.query_once
#print axioms LD.C11.status_none_iff_untouched
#print axioms LD.C11.touched_status_some
#print axioms LD.C11.status_ge_queried
#print axioms LD.C11.status_is_seen_corrected
#print axioms LD.C11.no_provider_not_configured_corrected
#print axioms LD.C11.status_is_seen_evalFlag
#print axioms LD.C11.no_provider_not_configured_evalFlag
#print axioms LD.C11.status_worst
#print axioms LD.C11.status_some_only_if
#print axioms LD.C11.status_none_no_query
#print axioms LD.C11.no_provider_status

/-
  C11 — Big segment membership, status reporting and query economy.

  "For an unbounded segment with a generation, membership is decided by the store's answer for the
  context key of the segment's kind under the reference `<key>.g<generation>`: included is a match,
  excluded is a non-match, no answer (or a nil membership, or no provider) falls through to the
  segment's rules, and the regular included/excluded lists are ignored; a context lacking that kind
  does not match and triggers no query; a missing generation is a non-match reported as
  NOT_CONFIGURED.  The reason carries a big-segments status iff some unbounded segment was evaluated
  for a context having its kind (or lacked a generation), equal to the worst status seen anywhere in
  the evaluation including prerequisites (NOT_CONFIGURED > STORE_ERROR > STALE > HEALTHY), and
  within one evaluation the store is queried at most once per distinct context key."

  The status a provider returns is an arbitrary string in Go.  Unknown strings and "" have priority
  0 like HEALTHY, among equal priorities the LATER status wins, and a resulting "" is reported as
  no status; section 5 states "worst status seen" accordingly and keeps the older statements as
  `_four_constants` corollaries.

  Statements; the proofs appeal to LDEval/Proofs/{Reach,Refine,StatusLog}.lean.
-/
import LDEval.Proofs.StatusLog
import LDEval.Proofs.Refine
import LDEval.Proofs.AuditBigSeg
import LDEval.Proofs.AuditBigSegTouched

namespace LD.C11

/-! ### 1. Membership of an unbounded segment (stateless Spec; the model refines it, see
`segContains_refines`) -/

/-- `makeBigSegmentRef`: `<key>.g<generation>`. -/
theorem ref_format (s : Segment) (g : Int) (hg : s.generation = some g) :
    bigSegmentRef s = s.key ++ ".g" ++ toString g := by
  simp [bigSegmentRef, hg]

/-- Included ⇒ match, excluded ⇒ non-match, no answer / nil membership / no provider ⇒ the rules.
`segLists` (the regular included/excluded lists) does not occur on the right-hand side. -/
theorem membership (rec : Spec.SegRec) (env : Env) (s : Segment) (chain : List String) (g : Int)
    (key : String) (hu : s.unbounded = true) (hg : s.generation = some g)
    (hc : chain.contains s.key = false)
    (hk : env.ctx.keyByKind s.unboundedContextKind = some key) :
    Spec.segBody rec env s chain =
      match Spec.membershipOf env key with
      | none => Spec.segRules rec env (chain ++ [s.key]) s s.rules
      | some tbl =>
        match tbl.lookup (s.key ++ ".g" ++ toString g) with
        | some b => .ok b
        | none => Spec.segRules rec env (chain ++ [s.key]) s s.rules := by
  rw [← ref_format s g hg]
  simp only [Spec.segBody, hc, hu, hg, hk, Bool.false_eq_true, if_false, if_true]
  rfl

/-- No provider ⇒ no membership ⇒ the rules decide. -/
theorem membership_no_provider (rec : Spec.SegRec) (env : Env) (s : Segment) (chain : List String)
    (g : Int) (key : String) (hu : s.unbounded = true) (hg : s.generation = some g)
    (hc : chain.contains s.key = false)
    (hk : env.ctx.keyByKind s.unboundedContextKind = some key) (hbs : env.bs = none) :
    Spec.segBody rec env s chain = Spec.segRules rec env (chain ++ [s.key]) s s.rules := by
  rw [membership rec env s chain g key hu hg hc hk]
  simp [Spec.membershipOf, hbs]

/-- The model computes exactly the Spec's membership, from any state of the same evaluation. -/
theorem membership_model (n : Nat) (env : Env) (s : Segment) (chain : List String) (st : St)
    (h : Reach env {} st) :
    (segContains n env s chain st).1 = Spec.segContains n env s chain := by
  refine (segContains_refines n env s chain st ?_).1
  intro key m hm
  obtain ⟨p, hp, hm'⟩ := (h.pconsistent (PConsistent.empty env)) key m hm
  exact ⟨by simp [Spec.membershipOf, hp, hm'], by simp [hp]⟩

/-! ### 2. A context lacking the segment's kind: non-match, nothing touched -/

theorem missing_kind (recS : Spec.SegRec) (rec : SegRec) (env : Env) (s : Segment)
    (chain : List String) (g : Int) (st : St) (hu : s.unbounded = true)
    (hg : s.generation = some g) (hc : chain.contains s.key = false)
    (hk : env.ctx.keyByKind s.unboundedContextKind = none) :
    Spec.segBody recS env s chain = .ok false ∧
      segBody rec env s chain st = (.ok false, st) := by
  constructor
  · simp only [Spec.segBody, hc, hu, hg, hk, Bool.false_eq_true, if_false, if_true]
  · simp only [segBody, hc, hu, hg, hk, Bool.false_eq_true, if_false, if_true]

/-! ### 3. No generation: non-match, reported as NOT_CONFIGURED -/

theorem no_generation (rec : SegRec) (env : Env) (s : Segment) (chain : List String) (st : St)
    (hu : s.unbounded = true) (hg : s.generation = none) (hc : chain.contains s.key = false) :
    segBody rec env s chain st = (.ok false, { st with status := some .notConfigured }) := by
  simp only [segBody, hc, hu, hg, Bool.false_eq_true, if_false, if_true]

/-! ### 4. Query economy -/

/-- Within one evaluation the provider is queried at most once per distinct context key. -/
theorem query_once (env : Env) (f : Flag) : (evaluate env f).bsQueries.Nodup :=
  evaluate_bsQueries_nodup env f

/-! ### 5. The reported status is the worst status seen

In Go the status a `BigSegmentProvider` returns is an arbitrary string — one of the four constants,
`"BOGUS"`, or `""` (`BSAnswer.status = none`).  `getBigSegmentsStatusPriority` gives every string
other than STALE / STORE_ERROR / NOT_CONFIGURED the priority 0, and
`computeUpdatedBigSegmentsStatus old new` keeps `old` only if its priority is STRICTLY higher.  So:

  * the reported status has the maximal priority among the statuses seen (`status_ge_queried`,
    `status_worst`);
  * among the statuses of maximal priority it is the LAST one seen (`StatusSeen`, `status_worst`);
  * a status `""` that ends up being the reported one is reported as NO status — the status can
    disappear again (`Ex`: HEALTHY then `""`), so "no status ⇒ no query" and "once set it stays set"
    are false in general.

The older statements remain true for providers whose answers all carry one of the four constants
(`AnswersFourConstants`; for most of them a non-empty status, `AnswersNonEmpty`, is enough): they
are kept as `_four_constants` corollaries. -/

/-- (a) No status ⇒ every status the provider returned so far had priority 0 (HEALTHY, an unknown
string, or `""`).  The provider may well have been queried. -/
theorem status_none_iff_untouched {env : Env} {st : St} (h : Reach env {} st)
    (hs : st.status = none) :
    ∀ k ∈ st.bsQueries, ∃ p, env.bs = some p ∧ statusPriority (p.get k).status = 0 :=
  reach_status_none_priority h hs

/-- (a) for the four constants: no status ⇒ the provider was never queried. -/
theorem status_none_iff_untouched_four_constants {env : Env} (h4 : AnswersFourConstants env)
    {st : St} (h : Reach env {} st) (hs : st.status = none) : st.bsQueries = [] :=
  reach_status_none_queries h4.nonEmpty h hs

/-- (a, converse direction) What a fresh membership lookup does to the status: NOT_CONFIGURED
without a provider, otherwise `computeUpdatedBigSegmentsStatus` of the old status and the answer
(which is `""` again if the old status has priority 0 and the answer is `""`) … -/
theorem bigSegMembership_status (env : Env) (key : String) (st : St)
    (h : st.cache.lookup key = none) :
    (bigSegMembership env key st).2.status =
      match env.bs with
      | none => some .notConfigured
      | some p => updateStatus st.status (p.get key).status := by
  unfold bigSegMembership
  rw [h]
  cases env.bs <;> rfl

/-- … for the four constants that is always some status … -/
theorem bigSegMembership_status_four_constants (env : Env) (h4 : AnswersFourConstants env)
    (key : String) (st : St) (h : st.cache.lookup key = none) :
    (bigSegMembership env key st).2.status.isSome := by
  rw [bigSegMembership_status env key st h]
  split
  · rfl
  · rename_i p hp
    obtain ⟨s, hs, _⟩ := h4 p hp key
    rw [hs]
    exact updateStatus_some_right_isSome _ _

/-- … and for the rest of the evaluation the priority of the status never decreases. -/
theorem status_stays_some {env : Env} {a b : St} (h : Reach env a b) :
    statusPriority a.status ≤ statusPriority b.status :=
  reach_status_priority h

/-- In particular a status of positive priority (STALE, STORE_ERROR, NOT_CONFIGURED) stays set. -/
theorem status_stays_some_of_priority {env : Env} {a b : St} (h : Reach env a b)
    (ha : 0 < statusPriority a.status) : b.status.isSome :=
  reach_status_some_of_priority h ha

/-- For the four constants: once set it stays set. -/
theorem status_stays_some_four_constants {env : Env} (h4 : AnswersFourConstants env) {a b : St}
    (h : Reach env a b) (ha : a.status.isSome) : b.status.isSome :=
  reach_status_some h4.nonEmpty h ha

/-- "Carries a status if an unbounded segment was evaluated for a context having its kind (or
lacked a generation)": at any point of an evaluation, evaluating such a segment leaves either
NOT_CONFIGURED (no generation, no provider) or a state in which the provider has been asked for the
context's key (now, or when the membership was first fetched) and the status has at least the
priority of the provider's answer. -/
theorem touched_status_some {rec : SegRec} {env : Env} (hrec : SegRecReach env rec) (s : Segment)
    (chain : List String) (st : St) (h : Reach env {} st) (hu : s.unbounded = true)
    (hc : chain.contains s.key = false)
    (hk : s.generation = none ∨ (env.ctx.keyByKind s.unboundedContextKind).isSome) :
    (segBody rec env s chain st).2.status = some .notConfigured ∨
      ∃ p key, env.bs = some p ∧ env.ctx.keyByKind s.unboundedContextKind = some key ∧
        key ∈ (segBody rec env s chain st).2.bsQueries ∧
        statusPriority (p.get key).status ≤ statusPriority (segBody rec env s chain st).2.status := by
  cases hg : s.generation with
  | none => left; rw [no_generation rec env s chain st hu hg hc]
  | some g =>
    rw [hg] at hk
    simp only [reduceCtorEq, false_or] at hk
    cases hkk : env.ctx.keyByKind s.unboundedContextKind with
    | none => rw [hkk] at hk; cases hk
    | some key =>
      -- the state after the membership lookup
      have hm : (bigSegMembership env key st).2.status = some .notConfigured ∨
          ∃ p, env.bs = some p ∧ key ∈ (bigSegMembership env key st).2.bsQueries ∧
            statusPriority (p.get key).status ≤
              statusPriority (bigSegMembership env key st).2.status := by
        cases hl : st.cache.lookup key with
        | none =>
          have hst := bigSegMembership_status env key st hl
          cases hbs : env.bs with
          | none => left; rw [hst, hbs]
          | some p =>
            right
            refine ⟨p, rfl, ?_, ?_⟩
            · simp only [bigSegMembership, hl, hbs]
              exact List.mem_append_right _ (List.mem_singleton.2 rfl)
            · rw [hst, hbs]; exact statusPriority_updateStatus_right _ _
        | some m =>
          right
          obtain ⟨p, hp, _⟩ := (h.pconsistent (PConsistent.empty env)) key m hl
          have hq : key ∈ st.bsQueries := by
            rw [(h.qinv QInv.empty).1]
            obtain ⟨l₁, l₂, hsplit, _⟩ := List.lookup_eq_some_iff.1 hl
            rw [hsplit]; simp
          obtain ⟨q, hq1, hq2⟩ := reach_status_ge_queried h key hq
          have hqp : q = p := by rw [hq1] at hp; exact Option.some.inj hp
          subst hqp
          simp only [bigSegMembership, hl]
          exact ⟨q, hq1, hq, hq2⟩
      have hfin : ∀ st1 st2 : St, Reach env st1 st2 →
          (st1.status = some .notConfigured ∨
            ∃ p, env.bs = some p ∧ key ∈ st1.bsQueries ∧
              statusPriority (p.get key).status ≤ statusPriority st1.status) →
          (st2.status = some .notConfigured ∨
            ∃ p key', env.bs = some p ∧ some key = some key' ∧
              key' ∈ st2.bsQueries ∧ statusPriority (p.get key').status ≤ statusPriority st2.status) := by
        intro st1 st2 hr h1
        rcases h1 with h1 | ⟨p, hp, hq, hle⟩
        · exact .inl (reach_notConfigured hr h1)
        · exact .inr ⟨p, key, hp, rfl, (reach_bsQueries_prefix hr).subset hq,
            Nat.le_trans hle (reach_status_priority hr)⟩
      simp only [segBody, hc, hu, hg, hkk, Bool.false_eq_true, if_false, if_true]
      generalize bigSegMembership env key st = r at hm
      obtain ⟨m, st1⟩ := r
      simp only at hm ⊢
      split
      · exact hfin _ _ (segRules_reach hrec _ _ _ _) hm
      · split
        · exact hfin _ _ (.single (.memCheck st1 key (bigSegmentRef s))) hm
        · exact hfin _ _
            (Reach.head (.memCheck st1 key (bigSegmentRef s)) (segRules_reach hrec _ _ _ _)) hm

/-- For the four constants, evaluating such a segment leaves a status (set now, or set when the
membership was first fetched). -/
theorem touched_status_some_four_constants {rec : SegRec} {env : Env}
    (h4 : AnswersFourConstants env) (hrec : SegRecReach env rec) (s : Segment)
    (chain : List String) (st : St) (h : Reach env {} st) (hu : s.unbounded = true)
    (hc : chain.contains s.key = false)
    (hk : s.generation = none ∨ (env.ctx.keyByKind s.unboundedContextKind).isSome) :
    (segBody rec env s chain st).2.status.isSome := by
  rcases touched_status_some hrec s chain st h hu hc hk with h1 | ⟨p, key, hp, _, hq, _⟩
  · rw [h1]; rfl
  · have hr : Reach env {} (segBody rec env s chain st).2 := h.trans (segBody_reach hrec s chain st)
    cases hs : (segBody rec env s chain st).2.status with
    | some _ => rfl
    | none =>
      have := reach_status_none_queries h4.nonEmpty hr hs
      rw [this] at hq; cases hq

/-- (b) The status has at least the priority of every status the provider returned. -/
theorem status_ge_queried {env : Env} {st : St} (h : Reach env {} st) :
    ∀ k ∈ st.bsQueries, ∃ p, env.bs = some p ∧
      statusPriority (p.get k).status ≤ statusPriority st.status :=
  reach_status_ge_queried h

/-- (b) for the four constants, in the rank form (`none` strictly below every status). -/
theorem status_ge_queried_four_constants {env : Env} (h4 : AnswersFourConstants env) {st : St}
    (h : Reach env {} st) :
    ∀ k ∈ st.bsQueries, ∃ p, env.bs = some p ∧
      statusRank (p.get k).status ≤ statusRank st.status :=
  reach_status_rank_ge_queried h4.nonEmpty h

/-! (c) and (d) are FALSE for the coarse relation `Reach`, whose `mergeStatus` primitive merges an
*arbitrary* `old` status: -/

/-- Counterexample to (c)/(d) as stated over `Reach`: with no provider, `Reach` allows a state with
status STALE (merge `old := STALE` into the empty state). -/
theorem reach_too_coarse (env : Env) :
    ∃ st, Reach env {} st ∧ st.status = some .stale ∧ st.bsQueries = [] :=
  ⟨_, .single (.mergeStatus {} (some .stale)), rfl, rfl⟩

/-- (c), corrected: over the finer relation `Star (Prim0 env)` (which `evaluate` satisfies, see
`evaluate_reach0`: the status merge after a prerequisite is the identity in the model), the status
is the worst one actually seen and the last one among equally bad ones (`StatusSeen`). -/
theorem status_is_seen_corrected {env : Env} {st : St} (h : Star (Prim0 env) {} st) :
    (st.status = none ∧ st.bsQueries = []) ∨ st.status = some .notConfigured ∨
      ∃ p pre k post, env.bs = some p ∧ st.bsQueries = pre ++ k :: post ∧
        st.status = (p.get k).status ∧
        (∀ k' ∈ pre, statusPriority (p.get k').status ≤ statusPriority st.status) ∧
        (∀ k' ∈ post, statusPriority (p.get k').status < statusPriority st.status) :=
  star_status_seen h

/-- (d), corrected in the same way. -/
theorem no_provider_not_configured_corrected {env : Env} {st : St} (hbs : env.bs = none)
    (h : Star (Prim0 env) {} st) : st.status = none ∨ st.status = some .notConfigured :=
  star_no_provider_status hbs h

/-- (c) for the states the evaluator actually reaches from the empty state. -/
theorem status_is_seen_evalFlag (sf n : Nat) (env : Env) (f : Flag) (chain : List String) :
    let st := (evalFlag sf n env f chain {}).2
    (st.status = none ∧ st.bsQueries = []) ∨ st.status = some .notConfigured ∨
      ∃ p pre k post, env.bs = some p ∧ st.bsQueries = pre ++ k :: post ∧
        st.status = (p.get k).status ∧
        (∀ k' ∈ pre, statusPriority (p.get k').status ≤ statusPriority st.status) ∧
        (∀ k' ∈ post, statusPriority (p.get k').status < statusPriority st.status) :=
  star_status_seen (evalFlag_freach sf n env f chain {})

/-- (d) for the states the evaluator actually reaches from the empty state. -/
theorem no_provider_not_configured_evalFlag (sf n : Nat) (env : Env) (f : Flag)
    (chain : List String) (hbs : env.bs = none) :
    let st := (evalFlag sf n env f chain {}).2
    st.status = none ∨ st.status = some .notConfigured :=
  star_no_provider_status hbs (evalFlag_freach sf n env f chain {})

/-- The finer relation is included in the coarse one, so (a), (b) and query economy hold of it. -/
theorem star_reach {env : Env} {a b : St} (h : Star (Prim0 env) a b) : Reach env a b := h.toReach

/-- The status `evaluate` reports is the worst status seen, and the last one of the worst:
its priority is at least that of the status returned for every key queried (including inside
prerequisites — `bsQueries` records them all; `""` has priority 0), and it is either absent with
nothing queried, or NOT_CONFIGURED, or the status returned for one of the queried keys `k` such that
every key queried LATER got a status of strictly lower priority.  If that status is `""`, what is
reported is "no status". -/
theorem status_worst (env : Env) (f : Flag) :
    let o := evaluate env f
    let s := o.result.detail.reason.bigSegmentsStatus
    (∀ k ∈ o.bsQueries, ∃ p, env.bs = some p ∧
        statusPriority (p.get k).status ≤ statusPriority s) ∧
    ((s = none ∧ o.bsQueries = []) ∨ s = some .notConfigured ∨
      ∃ p pre k post, env.bs = some p ∧ o.bsQueries = pre ++ k :: post ∧ s = (p.get k).status ∧
        (∀ k' ∈ pre, statusPriority (p.get k').status ≤ statusPriority s) ∧
        (∀ k' ∈ post, statusPriority (p.get k').status < statusPriority s)) := by
  obtain ⟨st, hr, _, _, _, _, hq, _, hs⟩ := evaluate_reach0 env f
  simp only
  rw [hq, hs]
  exact ⟨reach_status_ge_queried hr.toReach, star_status_seen hr⟩

/-- The exact value: unless it is NOT_CONFIGURED, the reported status is Go's
`computeUpdatedBigSegmentsStatus` folded from `""` over the provider's answers in query order. -/
theorem status_exact (env : Env) (f : Flag) :
    let o := evaluate env f
    let s := o.result.detail.reason.bigSegmentsStatus
    s = some .notConfigured ∨ s = foldStatus (o.bsQueries.map (answerOf env)) := by
  obtain ⟨st, hr, _, _, _, _, hq, _, hs⟩ := evaluate_reach0 env f
  simp only
  rw [hq, hs]
  exact star_status_fold hr

/-- Among the four constants the priority determines the status. -/
theorem priority_injective_on_constants {a b : Status} (ha : a.isConstant = true)
    (hb : b.isConstant = true) (h : a.priority = b.priority) : a = b := by
  cases a <;> cases b <;> simp_all [Status.priority, Status.isConstant]

/-- The old statement of `status_worst`, for the four constants: the reported status is at least as
bad (rank: `none` < HEALTHY < STALE < STORE_ERROR < NOT_CONFIGURED) as the status returned for every
key queried, and is itself either absent, NOT_CONFIGURED, or the status returned for one of the
queried keys — so it is THE worst status seen: any answer that is as bad is equal to it. -/
theorem status_worst_four_constants (env : Env) (h4 : AnswersFourConstants env) (f : Flag) :
    let o := evaluate env f
    let s := o.result.detail.reason.bigSegmentsStatus
    (∀ k ∈ o.bsQueries, ∃ p, env.bs = some p ∧
        statusRank (p.get k).status ≤ statusRank s) ∧
    (s = none ∨ s = some .notConfigured ∨
      ∃ p k, env.bs = some p ∧ k ∈ o.bsQueries ∧ s = (p.get k).status) ∧
    (∀ p k, env.bs = some p → k ∈ o.bsQueries → statusRank s ≤ statusRank (p.get k).status →
      s = (p.get k).status) := by
  obtain ⟨st, hr, _, _, _, _, hq, _, hs⟩ := evaluate_reach0 env f
  simp only
  rw [hq, hs]
  have hge := reach_status_rank_ge_queried h4.nonEmpty hr.toReach
  refine ⟨hge, (star_status_seen hr).weaken, ?_⟩
  intro p k hp hk hle
  obtain ⟨q, hq1, hq2⟩ := hge k hk
  have hqp : q = p := by rw [hq1] at hp; exact Option.some.inj hp
  subst hqp
  have heq : statusRank st.status = statusRank (q.get k).status := Nat.le_antisymm hle hq2
  obtain ⟨a, ha, hac⟩ := h4 q hq1 k
  rw [ha] at heq ⊢
  rcases (star_status_seen hr).weaken with h1 | h1 | ⟨p', k', hp', _, h1⟩
  · rw [h1] at heq; simp [statusRank] at heq
  · rw [h1] at heq ⊢
    simp only [statusRank] at heq
    rw [priority_injective_on_constants (a := .notConfigured) rfl hac (by omega)]
  · have hqp : p' = q := by rw [hq1] at hp'; exact (Option.some.inj hp').symm
    subst hqp
    obtain ⟨b, hb, hbc⟩ := h4 p' hq1 k'
    rw [h1, hb] at heq ⊢
    simp only [statusRank] at heq
    rw [priority_injective_on_constants hbc hac (by omega)]

/-- No status reported ⇒ NOT_CONFIGURED was never recorded and either the provider was not queried
at all or its LAST answer was `""` and no earlier answer had a positive priority. -/
theorem status_none_no_query (env : Env) (f : Flag)
    (h : (evaluate env f).result.detail.reason.bigSegmentsStatus = none) :
    (evaluate env f).bsQueries = [] ∨
    ∃ p k, env.bs = some p ∧ (evaluate env f).bsQueries.getLast? = some k ∧
      (p.get k).status = none ∧
      ∀ k' ∈ (evaluate env f).bsQueries, statusPriority (p.get k').status = 0 := by
  obtain ⟨hge, hseen⟩ := status_worst env f
  rw [h] at hge hseen
  rcases hseen with ⟨_, h1⟩ | h1 | ⟨p, pre, k, post, hp, hq, hs, _, hpost⟩
  · exact .inl h1
  · cases h1
  · right
    have hpost' : post = [] := by
      cases post with
      | nil => rfl
      | cons x xs => exact absurd (hpost x List.mem_cons_self) (Nat.not_lt_zero _)
    subst hpost'
    refine ⟨p, k, hp, by rw [hq]; exact List.getLast?_concat, hs.symm, ?_⟩
    intro k' hk'
    obtain ⟨q, hq1, hq2⟩ := hge k' hk'
    have hqp : q = p := by rw [hq1] at hp; exact Option.some.inj hp
    subst hqp
    exact Nat.le_zero.1 hq2

/-- For the four constants: no status reported ⇒ the provider was not queried at all. -/
theorem status_none_no_query_four_constants (env : Env) (h4 : AnswersFourConstants env) (f : Flag)
    (h : (evaluate env f).result.detail.reason.bigSegmentsStatus = none) :
    (evaluate env f).bsQueries = [] := by
  obtain ⟨st, hr, _, _, _, _, hq, _, hs⟩ := evaluate_reach0 env f
  rw [hq]; rw [hs] at h
  exact reach_status_none_queries h4.nonEmpty hr.toReach h

/-- No provider ⇒ the reported status is absent or NOT_CONFIGURED. -/
theorem no_provider_status (env : Env) (f : Flag) (hbs : env.bs = none) :
    (evaluate env f).result.detail.reason.bigSegmentsStatus = none ∨
    (evaluate env f).result.detail.reason.bigSegmentsStatus = some .notConfigured := by
  obtain ⟨st, hr, _, _, _, _, _, _, hs⟩ := evaluate_reach0 env f
  rw [hs]
  exact star_no_provider_status hbs hr

/-- "Only if": a status is reported only when the provider was queried (which only an unbounded
segment with a generation, for a context having its kind, does) or NOT_CONFIGURED was recorded (no
provider for such a segment, or no generation). -/
theorem status_some_only_if (env : Env) (f : Flag)
    (h : (evaluate env f).result.detail.reason.bigSegmentsStatus ≠ none) :
    (evaluate env f).bsQueries ≠ [] ∨
    (evaluate env f).result.detail.reason.bigSegmentsStatus = some .notConfigured := by
  rcases (status_worst env f).2 with ⟨h1, _⟩ | h1 | ⟨p, pre, k, post, _, hq, _⟩
  · exact absurd h1 h
  · exact .inr h1
  · left
    rw [hq]; simp

/-! ### 5b. `computeUpdatedBigSegmentsStatus`, old × new

The complete table (rows `old`, columns `new`; `none` is `""`; `other` is any unknown string).
`old` survives exactly when its priority is strictly higher. -/

section Table
variable (s t : String)

example : updateStatus none none = none := rfl
example : updateStatus none (some .healthy) = some .healthy := rfl
example : updateStatus none (some .stale) = some .stale := rfl
example : updateStatus none (some .storeError) = some .storeError := rfl
example : updateStatus none (some .notConfigured) = some .notConfigured := rfl
example : updateStatus none (some (.other t)) = some (.other t) := rfl

example : updateStatus (some .healthy) none = none := rfl
example : updateStatus (some .healthy) (some .healthy) = some .healthy := rfl
example : updateStatus (some .healthy) (some .stale) = some .stale := rfl
example : updateStatus (some .healthy) (some .storeError) = some .storeError := rfl
example : updateStatus (some .healthy) (some .notConfigured) = some .notConfigured := rfl
example : updateStatus (some .healthy) (some (.other t)) = some (.other t) := rfl

example : updateStatus (some (.other s)) none = none := rfl
example : updateStatus (some (.other s)) (some .healthy) = some .healthy := rfl
example : updateStatus (some (.other s)) (some .stale) = some .stale := rfl
example : updateStatus (some (.other s)) (some .storeError) = some .storeError := rfl
example : updateStatus (some (.other s)) (some .notConfigured) = some .notConfigured := rfl
example : updateStatus (some (.other s)) (some (.other t)) = some (.other t) := rfl

example : updateStatus (some .stale) none = some .stale := rfl
example : updateStatus (some .stale) (some .healthy) = some .stale := rfl
example : updateStatus (some .stale) (some .stale) = some .stale := rfl
example : updateStatus (some .stale) (some .storeError) = some .storeError := rfl
example : updateStatus (some .stale) (some .notConfigured) = some .notConfigured := rfl
example : updateStatus (some .stale) (some (.other t)) = some .stale := rfl

example : updateStatus (some .storeError) none = some .storeError := rfl
example : updateStatus (some .storeError) (some .healthy) = some .storeError := rfl
example : updateStatus (some .storeError) (some .stale) = some .storeError := rfl
example : updateStatus (some .storeError) (some .storeError) = some .storeError := rfl
example : updateStatus (some .storeError) (some .notConfigured) = some .notConfigured := rfl
example : updateStatus (some .storeError) (some (.other t)) = some .storeError := rfl

example : updateStatus (some .notConfigured) none = some .notConfigured := rfl
example : updateStatus (some .notConfigured) (some .healthy) = some .notConfigured := rfl
example : updateStatus (some .notConfigured) (some .stale) = some .notConfigured := rfl
example : updateStatus (some .notConfigured) (some .storeError) = some .notConfigured := rfl
example : updateStatus (some .notConfigured) (some .notConfigured) = some .notConfigured := rfl
example : updateStatus (some .notConfigured) (some (.other t)) = some .notConfigured := rfl

end Table

/-- The wire format: the four constants, `""` = no status, anything else is `other`; `other s`
prints as `s`. -/
example : Status.ofString "HEALTHY" = some .healthy ∧ Status.ofString "STALE" = some .stale ∧
    Status.ofString "STORE_ERROR" = some .storeError ∧
    Status.ofString "NOT_CONFIGURED" = some .notConfigured ∧ Status.ofString "" = none ∧
    Status.ofString "BOGUS" = some (.other "BOGUS") ∧ (Status.other "BOGUS").toString = "BOGUS" := by
  decide

/-- `Status.ofString` only produces canonical values, and printing them gives the string back. -/
theorem ofString_canonical (s : String) : ∀ x, Status.ofString s = some x → x.Canonical := by
  intro x hx
  unfold Status.ofString at hx
  split at hx
  · cases hx
  · split at hx
    · cases hx; trivial
    · split at hx
      · cases hx; trivial
      · split at hx
        · cases hx; trivial
        · split at hx
          · cases hx; trivial
          · cases hx; exact ⟨‹_›, ‹_›, ‹_›, ‹_›, ‹_›⟩

theorem optToString_ofString (s : String) : Status.optToString (Status.ofString s) = s := by
  unfold Status.ofString
  split
  · rename_i h; rw [h]; rfl
  · split
    · rename_i h; rw [h]; rfl
    · split
      · rename_i h; rw [h]; rfl
      · split
        · rename_i h; rw [h]; rfl
        · split
          · rename_i h; rw [h]; rfl
          · rfl

/-! ### 6. Non-vacuity: concrete evaluations -/

namespace Ex

/-- `seg` lists `u1` in its regular `excluded` list and `seg2` lists it in `included`: both lists
must be ignored because the segments are unbounded. -/
def seg : Segment :=
  { key := "seg", unbounded := true, unboundedContextKind := "user", generation := some 1,
    excluded := ["u1"] }
def seg2 : Segment :=
  { key := "seg2", unbounded := true, unboundedContextKind := "", generation := some 7,
    included := ["u1"] }
def segOrg : Segment :=
  { key := "segOrg", unbounded := true, unboundedContextKind := "org", generation := some 2 }
def segNoGen : Segment :=
  { key := "segNoGen", unbounded := true, unboundedContextKind := "user", included := ["u1"] }

def prov : BSProvider :=
  { table := [("u1", { membership := some [("seg.g1", true), ("seg2.g7", false)], status := some .stale }),
              ("o1", { membership := none, status := some .storeError })] }

def store : Store :=
  Store.ofLists
    [{ key := "pre", on := true, variations := [.bool false, .bool true],
       rules := [{ vr := { variation := some 1 },
                   clauses := [{ op := "segmentMatch", values := [.str "segOrg"] }] }],
       fallthrough := { variation := some 0 } }]
    [seg, seg2, segOrg, segNoGen]

def user : SCtx := { kind := "user", key := "u1" }
def org : SCtx := { kind := "org", key := "o1" }

def env (bs : Option BSProvider) (ctx : Ctx) : Env :=
  { opts := {}, store := store, bs := bs, ctx := ctx, rx := fun _ _ => none }

/-- A flag whose single rule is "in segment `k`" → variation 1, else variation 0. -/
def flagOn (ks : List String) (prereqs : List Prereq := []) : Flag :=
  { key := "f", on := true, variations := [.bool false, .bool true], prerequisites := prereqs,
    rules := [{ vr := { variation := some 1 },
                clauses := ks.map fun k => { op := "segmentMatch", values := [.str k] } }],
    fallthrough := { variation := some 0 } }

/-- Included ⇒ match (although `u1` is in the regular `excluded` list); one query, one membership
check under the reference `seg.g1`; the provider's STALE is reported. -/
example :
    let o := evaluate (env (some prov) (.single user)) (flagOn ["seg"])
    o.result.detail.index = some 1 ∧ o.result.detail.reason.kind = .ruleMatch ∧
    o.result.detail.reason.bigSegmentsStatus = some .stale ∧
    o.bsQueries = ["u1"] ∧ o.memChecks = [("u1", "seg.g1")] := by decide

/-- Excluded ⇒ non-match (although `u1` is in the regular `included` list). -/
example :
    let o := evaluate (env (some prov) (.single user)) (flagOn ["seg2"])
    o.result.detail.index = some 0 ∧ o.result.detail.reason.kind = .fallthrough ∧
    o.result.detail.reason.bigSegmentsStatus = some .stale ∧
    o.bsQueries = ["u1"] ∧ o.memChecks = [("u1", "seg2.g7")] := by decide

/-- Two big segments, one context key: two membership checks but a single query. -/
example :
    let o := evaluate (env (some prov) (.single user)) (flagOn ["seg", "seg2"])
    o.bsQueries = ["u1"] ∧ o.memChecks = [("u1", "seg.g1"), ("u1", "seg2.g7")] := by decide

/-- The context lacks the segment's kind: non-match, no query, no status. -/
example :
    let o := evaluate (env (some prov) (.single user)) (flagOn ["segOrg"])
    o.result.detail.index = some 0 ∧ o.result.detail.reason.bigSegmentsStatus = none ∧
    o.bsQueries = [] ∧ o.memChecks = [] := by decide

/-- No generation: non-match, NOT_CONFIGURED, no query. -/
example :
    let o := evaluate (env (some prov) (.single user)) (flagOn ["segNoGen"])
    o.result.detail.index = some 0 ∧
    o.result.detail.reason.bigSegmentsStatus = some .notConfigured ∧ o.bsQueries = [] := by decide

/-- No provider: NOT_CONFIGURED, no query, the rules (none here) decide. -/
example :
    let o := evaluate (env none (.single user)) (flagOn ["seg"])
    o.result.detail.index = some 0 ∧
    o.result.detail.reason.bigSegmentsStatus = some .notConfigured ∧ o.bsQueries = [] := by decide

/-- The worst status includes prerequisites: the prerequisite `pre` consults `segOrg` (STORE_ERROR
for `o1`, nil membership ⇒ rules ⇒ non-match ⇒ prerequisite fails), the flag itself would only
see STALE. -/
example :
    let o := evaluate (env (some prov) (.multi [user, org])) (flagOn ["seg"] [⟨"pre", 0⟩])
    o.result.detail.reason.bigSegmentsStatus = some .storeError ∧
    o.bsQueries = ["o1", "u1"] ∧ o.result.detail.index = some 1 := by decide

example :
    let o := evaluate (env (some prov) (.multi [user, org])) (flagOn ["seg"] [⟨"pre", 1⟩])
    o.result.detail.reason.kind = .prereqFailed ∧
    o.result.detail.reason.bigSegmentsStatus = some .storeError ∧ o.bsQueries = ["o1"] := by decide

/-! Arbitrary status strings.  `flagOn ["seg", "segOrg"]` for the multi-kind context queries the
provider for `u1` (included in `seg` ⇒ the clause matches) and then for `o1`. -/

def provWith (first second : Option Status) : BSProvider :=
  { table := [("u1", { membership := some [("seg.g1", true)], status := first }),
              ("o1", { membership := none, status := second })] }

/-- HEALTHY then `"BOGUS"`: equal priority 0, the later one wins — BOGUS is reported. -/
example :
    let o := evaluate (env (some (provWith (some .healthy) (some (.other "BOGUS")))) (.multi [user, org]))
      (flagOn ["seg", "segOrg"])
    o.bsQueries = ["u1", "o1"] ∧
    o.result.detail.reason.bigSegmentsStatus = some (.other "BOGUS") := by decide

/-- HEALTHY then `""`: HEALTHY has priority 0, so it is replaced by `""` — NO status is reported
although the provider was queried twice. -/
example :
    let o := evaluate (env (some (provWith (some .healthy) none)) (.multi [user, org]))
      (flagOn ["seg", "segOrg"])
    o.bsQueries = ["u1", "o1"] ∧ o.result.detail.reason.bigSegmentsStatus = none := by decide

/-- STALE then `""`: STALE has priority 1 > 0 and survives. -/
example :
    let o := evaluate (env (some (provWith (some .stale) none)) (.multi [user, org]))
      (flagOn ["seg", "segOrg"])
    o.bsQueries = ["u1", "o1"] ∧ o.result.detail.reason.bigSegmentsStatus = some .stale := by decide

/-- `"BOGUS"` then HEALTHY reports HEALTHY; a single `""` reports nothing; `"BOGUS"` then STALE then
nothing else reports STALE. -/
example :
    (evaluate (env (some (provWith (some (.other "BOGUS")) (some .healthy))) (.multi [user, org]))
      (flagOn ["seg", "segOrg"])).result.detail.reason.bigSegmentsStatus = some .healthy ∧
    (evaluate (env (some (provWith none none)) (.single user))
      (flagOn ["seg"])).result.detail.reason.bigSegmentsStatus = none ∧
    (evaluate (env (some (provWith none none)) (.single user)) (flagOn ["seg"])).bsQueries = ["u1"] ∧
    (evaluate (env (some (provWith (some (.other "BOGUS")) (some .stale))) (.multi [user, org]))
      (flagOn ["seg", "segOrg"])).result.detail.reason.bigSegmentsStatus = some .stale := by decide

/-- The same three on the level of `computeUpdatedBigSegmentsStatus`. -/
example : foldStatus [some .healthy, some (.other "BOGUS")] = some (.other "BOGUS") ∧
    foldStatus [some .healthy, none] = none ∧ foldStatus [some .stale, none] = some .stale := by
  decide

end Ex

/-! ## Strengthened statements (theorem audit) -/

/-! ### A. NOT_CONFIGURED is no longer a free alternative (audit finding #38)

`status_worst`, `status_exact`, `status_some_only_if` and `no_provider_status` all allow
`s = some .notConfigured` unconditionally, because the step relation they rest on (`Prim`, `SPrim`)
allows the NOT_CONFIGURED assignment from any state.  The statements below rest on the GUARDED
relation `GPrim` (Proofs/AuditBigSeg.lean): NOT_CONFIGURED that is not the provider's own answer
has a LOCAL CAUSE `LocalNC env segLookups` — the store returned, for one of the segment keys looked
up during the evaluation, an unbounded segment without a generation, or there is no provider and the
context has the kind of such a segment. -/

/-- `LocalNC` spelled out (it is the first alternative of `notConfigured_only_if`). -/
theorem localNC_iff (env : Env) (lookups : List String) :
    LocalNC env lookups ↔
      ∃ k ∈ lookups, ∃ s, env.store.findSegment k = some s ∧ s.unbounded = true ∧
        (s.generation = none ∨
          (env.bs = none ∧ (env.ctx.keyByKind s.unboundedContextKind).isSome = true)) :=
  Iff.rfl

/-- `status_worst` with the NOT_CONFIGURED alternative constrained.  For the Go code: the status in
the reason is as bad as every status the provider returned in this call, and it is (1) absent with
no query made, or (2) NOT_CONFIGURED because an evaluated unbounded segment had no generation or
because no provider is configured and the context has such a segment's kind, or (3) the answer the
provider gave for one of the queried keys, the last one of the worst. -/
theorem status_worst_tight (env : Env) (f : Flag) :
    let o := evaluate env f
    let s := o.result.detail.reason.bigSegmentsStatus
    (∀ k ∈ o.bsQueries, ∃ p, env.bs = some p ∧
        statusPriority (p.get k).status ≤ statusPriority s) ∧
    ((s = none ∧ o.bsQueries = []) ∨ (s = some .notConfigured ∧ LocalNC env o.segLookups) ∨
      ∃ p pre k post, env.bs = some p ∧ o.bsQueries = pre ++ k :: post ∧ s = (p.get k).status ∧
        (∀ k' ∈ pre, statusPriority (p.get k').status ≤ statusPriority s) ∧
        (∀ k' ∈ post, statusPriority (p.get k').status < statusPriority s)) := by
  obtain ⟨st, hr, _, _, _, hl, hq, _, hs⟩ := evaluate_greach env f
  simp only
  rw [hq, hs, hl]
  exact ⟨reach_status_ge_queried hr.gReach, gstar_status_seen hr⟩

/-- `status_is_seen_evalFlag` with the NOT_CONFIGURED alternative constrained, for the states the
evaluator reaches from the empty state (any fuel, any chain). -/
theorem status_is_seen_evalFlag_tight (sf n : Nat) (env : Env) (f : Flag) (chain : List String) :
    let st := (evalFlag sf n env f chain {}).2
    (st.status = none ∧ st.bsQueries = []) ∨
      (st.status = some .notConfigured ∧ LocalNC env st.segLookups) ∨
      ∃ p pre k post, env.bs = some p ∧ st.bsQueries = pre ++ k :: post ∧
        st.status = (p.get k).status ∧
        (∀ k' ∈ pre, statusPriority (p.get k').status ≤ statusPriority st.status) ∧
        (∀ k' ∈ post, statusPriority (p.get k').status < statusPriority st.status) :=
  gstar_status_seen (evalFlag_greach sf n env f chain {})

/-- `status_exact` with the NOT_CONFIGURED alternative constrained: the reported status is Go's
`computeUpdatedBigSegmentsStatus` folded over the provider's answers in query order, unless
NOT_CONFIGURED has a local cause. -/
theorem status_exact_tight (env : Env) (f : Flag) :
    let o := evaluate env f
    let s := o.result.detail.reason.bigSegmentsStatus
    (s = some .notConfigured ∧ LocalNC env o.segLookups) ∨
      s = foldStatus (o.bsQueries.map (answerOf env)) := by
  obtain ⟨st, hr, _, _, _, hl, hq, _, hs⟩ := evaluate_greach env f
  simp only
  rw [hq, hs, hl]
  exact gstar_status_fold hr

/-- The statement the audit asks for.  For the Go code: `Evaluate` reports NOT_CONFIGURED only if it
looked up an unbounded segment that has no generation, or it has no big-segment provider and looked
up an unbounded segment whose context kind the context has, or the configured provider itself
answered NOT_CONFIGURED for one of the keys it was asked about.  A bounded segment, a present
provider answering something else, a nil membership … can not produce it. -/
theorem notConfigured_only_if (env : Env) (f : Flag)
    (h : (evaluate env f).result.detail.reason.bigSegmentsStatus = some .notConfigured) :
    (∃ k ∈ (evaluate env f).segLookups, ∃ s, env.store.findSegment k = some s ∧
        s.unbounded = true ∧
        (s.generation = none ∨
          (env.bs = none ∧ (env.ctx.keyByKind s.unboundedContextKind).isSome = true))) ∨
    (∃ p k, env.bs = some p ∧ k ∈ (evaluate env f).bsQueries ∧
        (p.get k).status = some .notConfigured) := by
  rcases (status_worst_tight env f).2 with ⟨h1, _⟩ | ⟨_, h1⟩ | ⟨p, pre, k, post, hp, hq, hs, _⟩
  · rw [h] at h1; cases h1
  · exact .inl h1
  · right
    refine ⟨p, k, hp, by rw [hq]; simp, ?_⟩
    rw [← hs]; exact h

/-- Hypothesis of `notConfigured_only_if` satisfied: no provider, segment `seg` evaluated for a user. -/
example : (evaluate (Ex.env none (.single Ex.user)) (Ex.flagOn ["seg"])).result.detail.reason.bigSegmentsStatus
    = some .notConfigured := by decide

/-- Contrapositive, as a refutation of a spurious NOT_CONFIGURED: with a provider that never answers
NOT_CONFIGURED for a queried key, and every looked-up unbounded segment having a generation, the
reported status is not NOT_CONFIGURED. -/
theorem no_spurious_notConfigured (env : Env) (f : Flag) (p : BSProvider) (hp : env.bs = some p)
    (hgen : ∀ k ∈ (evaluate env f).segLookups, ∀ s, env.store.findSegment k = some s →
      s.unbounded = true → s.generation ≠ none)
    (hans : ∀ k ∈ (evaluate env f).bsQueries, (p.get k).status ≠ some .notConfigured) :
    (evaluate env f).result.detail.reason.bigSegmentsStatus ≠ some .notConfigured := by
  intro h
  rcases notConfigured_only_if env f h with ⟨k, hk, s, hf, hu, hc⟩ | ⟨q, k, hq, hk, hs⟩
  · rcases hc with hc | ⟨hc, _⟩
    · exact hgen k hk s hf hu hc
    · rw [hc] at hp; cases hp
  · have hqp : q = p := by rw [hq] at hp; exact Option.some.inj hp
    subst hqp
    exact hans k hk hs

/-- With a provider configured and every looked-up unbounded segment having a generation, the
reported status is EXACTLY determined by the provider's answers: Go's
`computeUpdatedBigSegmentsStatus` folded from `""` over the answers in query order (NOT_CONFIGURED
only if that fold yields it, i.e. the provider said so). -/
theorem status_exact_of_provider (env : Env) (f : Flag) (p : BSProvider) (hp : env.bs = some p)
    (hgen : ∀ k ∈ (evaluate env f).segLookups, ∀ s, env.store.findSegment k = some s →
      s.unbounded = true → s.generation ≠ none) :
    (evaluate env f).result.detail.reason.bigSegmentsStatus =
      foldStatus ((evaluate env f).bsQueries.map fun k => (p.get k).status) := by
  have hmap : (evaluate env f).bsQueries.map (answerOf env) =
      (evaluate env f).bsQueries.map fun k => (p.get k).status := by
    apply List.map_congr_left
    intro k _
    simp [answerOf, hp]
  rw [← hmap]
  rcases status_exact_tight env f with ⟨_, k, hk, s, hf, hu, hc⟩ | h
  · rcases hc with hc | ⟨hc, _⟩
    · exact absurd hc (hgen k hk s hf hu)
    · rw [hc] at hp; cases hp
  · exact h

/-- Hypotheses of `status_exact_of_provider` / `no_spurious_notConfigured` satisfied by a
non-trivial evaluation (two contexts, two big segments, a prerequisite; statuses STORE_ERROR and
STALE). -/
example :
    (Ex.env (some Ex.prov) (.multi [Ex.user, Ex.org])).bs = some Ex.prov ∧
    (evaluate (Ex.env (some Ex.prov) (.multi [Ex.user, Ex.org]))
      (Ex.flagOn ["seg"] [⟨"pre", 0⟩])).segLookups = ["segOrg", "seg"] ∧
    (evaluate (Ex.env (some Ex.prov) (.multi [Ex.user, Ex.org]))
      (Ex.flagOn ["seg"] [⟨"pre", 0⟩])).bsQueries = ["o1", "u1"] ∧
    (Ex.env (some Ex.prov) (.multi [Ex.user, Ex.org])).store.findSegment "segOrg" = some Ex.segOrg ∧
    (Ex.env (some Ex.prov) (.multi [Ex.user, Ex.org])).store.findSegment "seg" = some Ex.seg ∧
    Ex.segOrg.generation ≠ none ∧ Ex.seg.generation ≠ none ∧
    (evaluate (Ex.env (some Ex.prov) (.multi [Ex.user, Ex.org]))
      (Ex.flagOn ["seg"] [⟨"pre", 0⟩])).result.detail.reason.bigSegmentsStatus =
      foldStatus (["o1", "u1"].map fun k => (Ex.prov.get k).status) :=
  ⟨rfl, by decide, by decide, rfl, rfl, by decide, by decide, by decide⟩

/-- With a provider configured, in general: NOT_CONFIGURED because a looked-up unbounded segment has
no generation, or the fold of the provider's answers. -/
theorem status_exact_provider (env : Env) (f : Flag) (p : BSProvider) (hp : env.bs = some p) :
    let o := evaluate env f
    let s := o.result.detail.reason.bigSegmentsStatus
    (s = some .notConfigured ∧ ∃ k ∈ o.segLookups, ∃ seg, env.store.findSegment k = some seg ∧
        seg.unbounded = true ∧ seg.generation = none) ∨
      s = foldStatus (o.bsQueries.map fun k => (p.get k).status) := by
  have hmap : (evaluate env f).bsQueries.map (answerOf env) =
      (evaluate env f).bsQueries.map fun k => (p.get k).status := by
    apply List.map_congr_left
    intro k _
    simp [answerOf, hp]
  simp only
  rw [← hmap]
  rcases status_exact_tight env f with ⟨h1, k, hk, s, hf, hu, hc⟩ | h
  · rcases hc with hc | ⟨hc, _⟩
    · exact .inl ⟨h1, k, hk, s, hf, hu, hc⟩
    · rw [hc] at hp; cases hp
  · exact .inr h

/-- `no_provider_status` tightened: without a provider the reported status is absent, or it is
NOT_CONFIGURED and an unbounded segment was looked up that has no generation or whose kind the
context has (so a query would have been needed). -/
theorem no_provider_status_tight (env : Env) (f : Flag) (hbs : env.bs = none) :
    let o := evaluate env f
    let s := o.result.detail.reason.bigSegmentsStatus
    s = none ∨ (s = some .notConfigured ∧
      ∃ k ∈ o.segLookups, ∃ seg, env.store.findSegment k = some seg ∧ seg.unbounded = true ∧
        (seg.generation = none ∨ (env.ctx.keyByKind seg.unboundedContextKind).isSome = true)) := by
  rcases (status_worst_tight env f).2 with ⟨h1, _⟩ | ⟨h1, k, hk, s, hf, hu, hc⟩ | ⟨p, _, _, _, hp, _⟩
  · exact .inl h1
  · right
    refine ⟨h1, k, hk, s, hf, hu, ?_⟩
    rcases hc with hc | ⟨_, hc⟩
    · exact .inl hc
    · exact .inr hc
  · rw [hbs] at hp; cases hp

example : (Ex.env none (.single Ex.user)).bs = none := rfl

/-- `status_some_only_if` tightened: a status is reported only when the provider was queried or
NOT_CONFIGURED has a local cause. -/
theorem status_some_only_if_tight (env : Env) (f : Flag)
    (h : (evaluate env f).result.detail.reason.bigSegmentsStatus ≠ none) :
    (evaluate env f).bsQueries ≠ [] ∨
    ((evaluate env f).result.detail.reason.bigSegmentsStatus = some .notConfigured ∧
      LocalNC env (evaluate env f).segLookups) := by
  rcases (status_worst_tight env f).2 with ⟨h1, _⟩ | h1 | ⟨p, pre, k, post, _, hq, _⟩
  · exact absurd h1 h
  · exact .inr h1
  · left
    rw [hq]; simp

example : (evaluate (Ex.env (some Ex.prov) (.single Ex.user)) (Ex.flagOn ["seg"])).result.detail.reason.bigSegmentsStatus
    ≠ none := by decide

/-- The refutation the audit found missing, on a concrete observation: for the evaluation of
`flagOn ["seg"]` with the provider `prov` (which reports STALE), NOT_CONFIGURED does NOT satisfy
the second conjunct of `status_worst_tight` — whereas it satisfies that of `status_worst` for every
observation. -/
example :
    let env := Ex.env (some Ex.prov) (.single Ex.user)
    let o := evaluate env (Ex.flagOn ["seg"])
    let s : Option Status := some .notConfigured
    ¬ ((s = none ∧ o.bsQueries = []) ∨ (s = some .notConfigured ∧ LocalNC env o.segLookups) ∨
      ∃ p pre k post, env.bs = some p ∧ o.bsQueries = pre ++ k :: post ∧ s = (p.get k).status ∧
        (∀ k' ∈ pre, statusPriority (p.get k').status ≤ statusPriority s) ∧
        (∀ k' ∈ post, statusPriority (p.get k').status < statusPriority s)) := by
  have hq : (evaluate (Ex.env (some Ex.prov) (.single Ex.user)) (Ex.flagOn ["seg"])).bsQueries = ["u1"] := by
    decide
  have hl : (evaluate (Ex.env (some Ex.prov) (.single Ex.user)) (Ex.flagOn ["seg"])).segLookups = ["seg"] := by
    decide
  simp only
  rw [hq, hl]
  rintro (⟨h, _⟩ | ⟨_, k, hk, s, hf, hu, hc⟩ | ⟨p, pre, k, post, hp, hsplit, hs, _⟩)
  · cases h
  · rw [List.mem_singleton] at hk
    subst hk
    have hseg : (Ex.env (some Ex.prov) (.single Ex.user)).store.findSegment "seg" = some Ex.seg :=
      rfl
    rw [hseg] at hf
    cases hf
    rcases hc with hc | ⟨hc, _⟩
    · cases hc
    · cases hc
  · have hp' : p = Ex.prov := (Option.some.inj hp).symm
    subst hp'
    have hk : k = "u1" := by
      have : k ∈ ["u1"] := by rw [hsplit]; simp
      simpa using this
    subst hk
    revert hs
    decide

/-! ### B. The "if" half for a whole evaluation (audit finding #39) -/

/-- Every unbounded segment the store returned for a key looked up during the evaluation (including
inside prerequisites and nested segments) left its trace: if it has no generation, NOT_CONFIGURED is
reported; if it has one and the context has its kind, then NOT_CONFIGURED is reported (no provider,
or a worse cause elsewhere) or the provider was asked for the context's key of that kind — in this
evaluation, once — and the reported status has at least the priority of the provider's answer. -/
def TouchedAll (env : Env) (f : Flag) : Prop :=
  ∀ k ∈ (evaluate env f).segLookups, ∀ s, env.store.findSegment k = some s →
    s.unbounded = true →
    (s.generation = none →
      (evaluate env f).result.detail.reason.bigSegmentsStatus = some .notConfigured) ∧
    (∀ g key, s.generation = some g → env.ctx.keyByKind s.unboundedContextKind = some key →
      (evaluate env f).result.detail.reason.bigSegmentsStatus = some .notConfigured ∨
      ∃ p, env.bs = some p ∧ key ∈ (evaluate env f).bsQueries ∧
        statusPriority (p.get key).status ≤
          statusPriority (evaluate env f).result.detail.reason.bigSegmentsStatus)

theorem touchedAll_of {env : Env} {f : Flag}
    (ht : ∀ k ∈ (evaluate env f).segLookups, ∀ s, env.store.findSegment k = some s →
      Relevant env s →
      (evaluate env f).result.detail.reason.bigSegmentsStatus = some .notConfigured ∨
      (s.generation.isSome = true ∧
        ∃ p key, env.bs = some p ∧ env.ctx.keyByKind s.unboundedContextKind = some key ∧
          key ∈ (evaluate env f).bsQueries ∧
          statusPriority (p.get key).status ≤
            statusPriority (evaluate env f).result.detail.reason.bigSegmentsStatus)) :
    TouchedAll env f := by
  intro k hk s hf hu
  constructor
  · intro hg
    rcases ht k hk s hf ⟨hu, .inl hg⟩ with h | ⟨hg', _⟩
    · exact h
    · rw [hg] at hg'; cases hg'
  · intro g key hg hkey
    rcases ht k hk s hf ⟨hu, .inr (by rw [hkey]; rfl)⟩ with h | ⟨_, p, key', hp, hk', hq, hle⟩
    · exact .inl h
    · rw [hkey] at hk'
      cases hk'
      exact .inr ⟨p, hp, hq, hle⟩

/-- Unless the evaluation ended in an error, every looked-up unbounded segment left its trace
(`TouchedAll`).  For the Go code: a successful `Evaluate` that consulted an unbounded segment without
a generation reports NOT_CONFIGURED; one that consulted an unbounded segment for a context having its
kind reports NOT_CONFIGURED or has asked the provider for that context key, and reports a status at
least as bad as the answer.
(The non-error hypothesis is needed in general: a segment-cycle error aborts the evaluation at the
segment that closes the cycle, before that segment's big-segment logic runs; see
`touched_needs_nonerror`.  For a store that files every item under its own key it is not needed:
`touched_evaluate_consistent`.) -/
theorem touched_evaluate (env : Env) (f : Flag)
    (hne : (evaluate env f).result.detail.reason.kind ≠ .error) : TouchedAll env f := by
  rcases evaluate_touched env f with herr | ht
  · exact absurd herr hne
  · exact touchedAll_of ht

/-- For a store that files every flag and segment under its own key (what `GetSegment(key)`
returning the segment with that key means), every looked-up unbounded segment left its trace — also
when the evaluation ended in an error. -/
theorem touched_evaluate_consistent (env : Env) (f : Flag) (hcons : StoreConsistent env.store) :
    TouchedAll env f :=
  touchedAll_of (evaluate_touched_consistent env f hcons)

/-- Hypotheses of `touched_evaluate` / `touched_evaluate_consistent` satisfied: a non-error result,
a consistent store, segment `seg` (unbounded, generation 1, kind `user`) looked up, the context has
kind `user` with key `u1`. -/
example :
    (evaluate (Ex.env (some Ex.prov) (.single Ex.user)) (Ex.flagOn ["seg"])).result.detail.reason.kind
      ≠ .error ∧
    "seg" ∈ (evaluate (Ex.env (some Ex.prov) (.single Ex.user)) (Ex.flagOn ["seg"])).segLookups ∧
    (Ex.env (some Ex.prov) (.single Ex.user)).store.findSegment "seg" = some Ex.seg ∧
    Ex.seg.unbounded = true ∧ Ex.seg.generation = some 1 ∧
    (Ex.env (some Ex.prov) (.single Ex.user)).ctx.keyByKind Ex.seg.unboundedContextKind = some "u1" :=
  ⟨by decide, by decide, rfl, rfl, rfl, by decide⟩

/-- `Store.ofLists` files every item under its own key. -/
theorem storeConsistent_ofLists (fs : List Flag) (ss : List Segment) :
    StoreConsistent (Store.ofLists fs ss) := by
  constructor
  · intro e he
    obtain ⟨x, _, rfl⟩ := List.mem_map.1 he
    rfl
  · intro e he
    obtain ⟨x, _, rfl⟩ := List.mem_map.1 he
    rfl

example : StoreConsistent (Ex.env (some Ex.prov) (.single Ex.user)).store :=
  storeConsistent_ofLists _ _

namespace Ex2

/-- A store whose provider files a generation-less unbounded segment under the lookup key `"b"` but
with the own key `"x"`, the same own key as the regular segment `"a"` whose rule refers to `"b"`. -/
def segA : Segment :=
  { key := "x", rules := [{ clauses := [{ op := "segmentMatch", values := [.str "b"] }] }] }
def segB : Segment := { key := "x", unbounded := true, unboundedContextKind := "user" }
def store : Store := { segments := [("a", segA), ("b", segB)] }
def env : Env :=
  { opts := {}, store := store, bs := none, ctx := .single Ex.user, rx := fun _ _ => none }

end Ex2

/-- The non-error hypothesis of `touched_evaluate` is necessary: here the unbounded segment filed
under `"b"` has no generation and IS looked up, but its own key `"x"` is already on the chain (it
equals the own key of the enclosing segment), so Go's cycle check fires first: the result is an error
and no status is reported.  (Only a store whose lookup keys differ from the items' own keys can do
this.) -/
theorem touched_needs_nonerror :
    (evaluate Ex2.env (Ex.flagOn ["a"])).segLookups = ["a", "b"] ∧
    Ex2.env.store.findSegment "b" = some Ex2.segB ∧
    Ex2.segB.unbounded = true ∧ Ex2.segB.generation = none ∧
    (evaluate Ex2.env (Ex.flagOn ["a"])).result.detail.reason.kind = .error ∧
    (evaluate Ex2.env (Ex.flagOn ["a"])).result.detail.reason.bigSegmentsStatus = none :=
  ⟨by decide, rfl, rfl, rfl, by decide, by decide⟩

/-- Given `TouchedAll`, the reported status is completely determined. -/
theorem status_determined_of (env : Env) (f : Flag) (ht : TouchedAll env f) :
    let o := evaluate env f
    let s := o.result.detail.reason.bigSegmentsStatus
    (LocalNC env o.segLookups → s = some .notConfigured) ∧
    (¬ LocalNC env o.segLookups → s = foldStatus (o.bsQueries.map (answerOf env))) := by
  simp only
  constructor
  · rintro ⟨k, hk, seg, hf, hu, hc⟩
    have ht := ht k hk seg hf hu
    rcases hc with hc | ⟨hbs, hkey⟩
    · exact ht.1 hc
    · cases hg : seg.generation with
      | none => exact ht.1 hg
      | some g =>
        cases hkk : env.ctx.keyByKind seg.unboundedContextKind with
        | none => rw [hkk] at hkey; cases hkey
        | some key =>
          rcases ht.2 g key hg hkk with h | ⟨p, hp, _⟩
          · exact h
          · rw [hbs] at hp; cases hp
  · intro hn
    rcases status_exact_tight env f with ⟨_, h⟩ | h
    · exact absurd h hn
    · exact h

/-- For a result that is not an error the reported status is completely determined: NOT_CONFIGURED
if it has a local cause (an evaluated unbounded segment without a generation; or no provider and an
evaluated unbounded segment whose kind the context has), and otherwise exactly the fold of Go's
`computeUpdatedBigSegmentsStatus` over the provider's answers in query order. -/
theorem status_determined (env : Env) (f : Flag)
    (hne : (evaluate env f).result.detail.reason.kind ≠ .error) :
    let o := evaluate env f
    let s := o.result.detail.reason.bigSegmentsStatus
    (LocalNC env o.segLookups → s = some .notConfigured) ∧
    (¬ LocalNC env o.segLookups → s = foldStatus (o.bsQueries.map (answerOf env))) :=
  status_determined_of env f (touched_evaluate env f hne)

/-- The same for every result, error or not, when the store files every item under its own key. -/
theorem status_determined_consistent (env : Env) (f : Flag) (hcons : StoreConsistent env.store) :
    let o := evaluate env f
    let s := o.result.detail.reason.bigSegmentsStatus
    (LocalNC env o.segLookups → s = some .notConfigured) ∧
    (¬ LocalNC env o.segLookups → s = foldStatus (o.bsQueries.map (answerOf env))) :=
  status_determined_of env f (touched_evaluate_consistent env f hcons)

/-- "Only if", in terms of the segments: a status is reported only if the store returned, for a key
looked up during the evaluation, an unbounded segment that lacks a generation or whose kind the
context has. -/
theorem status_some_only_if_segment (env : Env) (f : Flag)
    (h : (evaluate env f).result.detail.reason.bigSegmentsStatus ≠ none) :
    ∃ k ∈ (evaluate env f).segLookups, ∃ s, env.store.findSegment k = some s ∧
      s.unbounded = true ∧
      (s.generation = none ∨ (env.ctx.keyByKind s.unboundedContextKind).isSome = true) := by
  obtain ⟨st, hr, _, _, _, hl, hq, _, hs⟩ := evaluate_greach env f
  rw [hl]
  rw [hs] at h
  have hkey : ∀ key ∈ st.bsQueries, ∃ k ∈ st.segLookups, ∃ s, env.store.findSegment k = some s ∧
      s.unbounded = true ∧
      (s.generation = none ∨ (env.ctx.keyByKind s.unboundedContextKind).isSome = true) := by
    intro key hkey
    obtain ⟨s, ⟨k, hk, hf⟩, hu, _, hkk⟩ := gstar_queries hr key hkey
    exact ⟨k, hk, s, hf, hu, .inr (by rw [hkk]; rfl)⟩
  rcases gstar_status_seen hr with ⟨h1, _⟩ | ⟨_, k, hk, s, hf, hu, hc⟩ | ⟨p, pre, k, post, _, hsplit, _⟩
  · exact absurd h1 h
  · refine ⟨k, hk, s, hf, hu, ?_⟩
    rcases hc with hc | ⟨_, hc⟩
    · exact .inl hc
    · exact .inr hc
  · exact hkey k (by rw [hsplit]; simp)

/-- Given `TouchedAll` and a provider that never answers `""`: status iff relevant segment. -/
theorem status_some_iff_of (env : Env) (f : Flag) (hans : AnswersNonEmpty env)
    (ht : TouchedAll env f) :
    (evaluate env f).result.detail.reason.bigSegmentsStatus ≠ none ↔
    ∃ k ∈ (evaluate env f).segLookups, ∃ s, env.store.findSegment k = some s ∧
      s.unbounded = true ∧
      (s.generation = none ∨ (env.ctx.keyByKind s.unboundedContextKind).isSome = true) := by
  constructor
  · exact status_some_only_if_segment env f
  · rintro ⟨k, hk, s, hf, hu, hc⟩ hnone
    have ht := ht k hk s hf hu
    have hq0 : (evaluate env f).bsQueries = [] := by
      obtain ⟨st, hr, _, _, _, _, hq, _, hs⟩ := evaluate_reach0 env f
      rw [hq]; rw [hs] at hnone
      exact reach_status_none_queries hans hr.toReach hnone
    cases hg : s.generation with
    | none =>
      have := ht.1 hg
      rw [hnone] at this; cases this
    | some g =>
      rw [hg] at hc
      rcases hc with hc | hc
      · cases hc
      · cases hkk : env.ctx.keyByKind s.unboundedContextKind with
        | none => rw [hkk] at hc; cases hc
        | some key =>
          rcases ht.2 g key hg hkk with h | ⟨p, _, hq, _⟩
          · rw [hnone] at h; cases h
          · rw [hq0] at hq; cases hq

/-- "The reason carries a big-segments status IFF some unbounded segment was evaluated for a context
having its kind (or lacked a generation)", for `Evaluate` itself: true whenever the result is not an
error and the provider never answers the empty status `""` (in particular when it answers one of the
four constants). -/
theorem status_some_iff (env : Env) (f : Flag) (hans : AnswersNonEmpty env)
    (hne : (evaluate env f).result.detail.reason.kind ≠ .error) :
    (evaluate env f).result.detail.reason.bigSegmentsStatus ≠ none ↔
    ∃ k ∈ (evaluate env f).segLookups, ∃ s, env.store.findSegment k = some s ∧
      s.unbounded = true ∧
      (s.generation = none ∨ (env.ctx.keyByKind s.unboundedContextKind).isSome = true) :=
  status_some_iff_of env f hans (touched_evaluate env f hne)

/-- The same for every result, error or not, when the store files every item under its own key. -/
theorem status_some_iff_consistent (env : Env) (f : Flag) (hans : AnswersNonEmpty env)
    (hcons : StoreConsistent env.store) :
    (evaluate env f).result.detail.reason.bigSegmentsStatus ≠ none ↔
    ∃ k ∈ (evaluate env f).segLookups, ∃ s, env.store.findSegment k = some s ∧
      s.unbounded = true ∧
      (s.generation = none ∨ (env.ctx.keyByKind s.unboundedContextKind).isSome = true) :=
  status_some_iff_of env f hans (touched_evaluate_consistent env f hcons)

/-- The provider's answer `""` is what makes the "if" half fail without `AnswersNonEmpty`: the
segment `seg` is evaluated for a user, the provider is asked, answers `""`, and no status is
reported. -/
example :
    (evaluate (Ex.env (some (Ex.provWith none none)) (.single Ex.user))
      (Ex.flagOn ["seg"])).result.detail.reason.bigSegmentsStatus = none ∧
    (evaluate (Ex.env (some (Ex.provWith none none)) (.single Ex.user))
      (Ex.flagOn ["seg"])).segLookups = ["seg"] ∧
    (evaluate (Ex.env (some (Ex.provWith none none)) (.single Ex.user))
      (Ex.flagOn ["seg"])).result.detail.reason.kind ≠ .error := by decide

/-- Hypotheses of `status_some_iff` satisfied (`prov` answers STALE / STORE_ERROR / the default
HEALTHY, never `""`). -/
example : AnswersNonEmpty (Ex.env (some Ex.prov) (.single Ex.user)) := by
  intro p hp k
  have : p = Ex.prov := (Option.some.inj hp).symm
  subst this
  unfold BSProvider.get
  cases h : List.lookup k Ex.prov.table with
  | none => rfl
  | some a =>
    obtain ⟨l₁, l₂, hsplit, _⟩ := List.lookup_eq_some_iff.1 h
    have hmem : (k, a) ∈ Ex.prov.table := by rw [hsplit]; simp
    simp only [Ex.prov, List.mem_cons, Prod.mk.injEq, List.not_mem_nil, or_false] at hmem
    rcases hmem with ⟨_, rfl⟩ | ⟨_, rfl⟩ <;> rfl

/-! ### C. Queries and membership checks are caused by segments (audit findings #40, #41) -/

/-- Every key the provider is asked about is the context's key for the kind of an unbounded segment,
with a generation, that the store returned for a key looked up in this evaluation.  Together with
`query_once`: one query per such key. -/
theorem queries_are_context_keys (env : Env) (f : Flag) :
    ∀ key ∈ (evaluate env f).bsQueries, ∃ k ∈ (evaluate env f).segLookups, ∃ s g,
      env.store.findSegment k = some s ∧ s.unbounded = true ∧ s.generation = some g ∧
      env.ctx.keyByKind s.unboundedContextKind = some key := by
  obtain ⟨st, hr, _, _, _, hl, hq, _, _⟩ := evaluate_greach env f
  rw [hl, hq]
  intro key hkey
  obtain ⟨s, ⟨k, hk, hf⟩, hu, hg, hkk⟩ := gstar_queries hr key hkey
  cases hgen : s.generation with
  | none => rw [hgen] at hg; cases hg
  | some g => exact ⟨k, hk, s, g, hf, hu, hgen, hkk⟩

/-- Query economy in numbers: the provider is asked at most once per individual context of the
evaluation context (each queried key is the key of one of them, and no key is queried twice). -/
theorem queries_le_individuals (env : Env) (f : Flag) :
    (evaluate env f).bsQueries.length ≤ env.ctx.individuals.length := by
  have hsub : (evaluate env f).bsQueries ⊆ env.ctx.individuals.map (·.key) := by
    intro key hkey
    obtain ⟨_, _, s, _, _, _, _, hkk⟩ := queries_are_context_keys env f key hkey
    unfold Ctx.keyByKind Ctx.byKind at hkk
    obtain ⟨sc, hsc, rfl⟩ := Option.map_eq_some_iff.mp hkk
    exact List.mem_map.mpr ⟨sc, List.mem_of_find?_eq_some hsc, rfl⟩
  have := (List.subperm_of_subset (query_once env f) hsub).length_le
  simpa using this

/-- Every `CheckMembership` call the evaluator makes: its argument is the reference
`<key>.g<generation>` of an unbounded segment (with that generation) the store returned for a key
looked up in this evaluation; it is made on the membership the provider returned — non-nil — for
the context's key of that segment's kind, and that key is among the queried keys. -/
theorem memChecks_spec (env : Env) (f : Flag) :
    ∀ c ∈ (evaluate env f).memChecks, ∃ k ∈ (evaluate env f).segLookups, ∃ s g p tbl,
      env.store.findSegment k = some s ∧ s.unbounded = true ∧ s.generation = some g ∧
      env.ctx.keyByKind s.unboundedContextKind = some c.1 ∧
      c.2 = s.key ++ ".g" ++ toString g ∧
      env.bs = some p ∧ c.1 ∈ (evaluate env f).bsQueries ∧ (p.get c.1).membership = some tbl := by
  obtain ⟨st, hr, _, _, _, hl, hq, hm, _⟩ := evaluate_greach env f
  rw [hl, hq, hm]
  intro c hc
  obtain ⟨s, tbl, ⟨k, hk, hf⟩, hu, hg, hkk, href, hcache⟩ := gstar_memChecks hr c hc
  obtain ⟨p, hp, hqk, hmem⟩ := reach_cached hr.gReach hcache
  cases hgen : s.generation with
  | none => rw [hgen] at hg; cases hg
  | some g =>
    exact ⟨k, hk, s, g, p, tbl, hf, hu, hgen, hkk, by rw [href, ref_format s g hgen], hp, hqk, hmem⟩

/-- No unbounded segment looked up ⇒ no big-segment activity at all: no status, no query, no
membership check. -/
theorem no_unbounded_nothing (env : Env) (f : Flag)
    (h : ∀ k ∈ (evaluate env f).segLookups, ∀ s, env.store.findSegment k = some s →
      s.unbounded = false) :
    (evaluate env f).result.detail.reason.bigSegmentsStatus = none ∧
    (evaluate env f).bsQueries = [] ∧ (evaluate env f).memChecks = [] := by
  refine ⟨?_, ?_, ?_⟩
  · cases hs : (evaluate env f).result.detail.reason.bigSegmentsStatus with
    | none => rfl
    | some x =>
      obtain ⟨k, hk, s, hf, hu, _⟩ := status_some_only_if_segment env f (by rw [hs]; simp)
      rw [h k hk s hf] at hu; cases hu
  · cases hq : (evaluate env f).bsQueries with
    | nil => rfl
    | cons key rest =>
      obtain ⟨k, hk, s, _, hf, hu, _⟩ :=
        queries_are_context_keys env f key (by rw [hq]; exact List.mem_cons_self)
      rw [h k hk s hf] at hu; cases hu
  · cases hm : (evaluate env f).memChecks with
    | nil => rfl
    | cons c rest =>
      obtain ⟨k, hk, s, _, _, _, hf, hu, _⟩ :=
        memChecks_spec env f c (by rw [hm]; exact List.mem_cons_self)
      rw [h k hk s hf] at hu; cases hu

/-- The statements of this section on a concrete evaluation: two membership checks, one query. -/
example :
    let o := evaluate (Ex.env (some Ex.prov) (.single Ex.user)) (Ex.flagOn ["seg", "seg2"])
    o.segLookups = ["seg", "seg2"] ∧ o.bsQueries = ["u1"] ∧
    o.memChecks = [("u1", "seg.g1"), ("u1", "seg2.g7")] ∧
    (Ex.env (some Ex.prov) (.single Ex.user)).ctx.individuals.length = 1 := by decide


end LD.C11

#print axioms LD.C11.membership
#print axioms LD.C11.ref_format
#print axioms LD.C11.membership_model
#print axioms LD.C11.missing_kind
#print axioms LD.C11.no_generation
#print axioms LD.C11.query_once
#print axioms LD.C11.status_none_iff_untouched
#print axioms LD.C11.touched_status_some
#print axioms LD.C11.status_ge_queried
#print axioms LD.C11.status_is_seen_corrected
#print axioms LD.C11.no_provider_not_configured_corrected
#print axioms LD.C11.status_is_seen_evalFlag
#print axioms LD.C11.no_provider_not_configured_evalFlag
#print axioms LD.C11.status_worst
#print axioms LD.C11.status_some_only_if
#print axioms LD.C11.status_none_no_query
#print axioms LD.C11.no_provider_status
#print axioms LD.C11.bigSegMembership_status
#print axioms LD.C11.status_stays_some
#print axioms LD.C11.status_exact
#print axioms LD.C11.status_none_iff_untouched_four_constants
#print axioms LD.C11.bigSegMembership_status_four_constants
#print axioms LD.C11.status_stays_some_four_constants
#print axioms LD.C11.touched_status_some_four_constants
#print axioms LD.C11.status_ge_queried_four_constants
#print axioms LD.C11.status_worst_four_constants
#print axioms LD.C11.status_none_no_query_four_constants
#print axioms LD.C11.status_worst_tight
#print axioms LD.C11.status_exact_tight
#print axioms LD.C11.status_is_seen_evalFlag_tight
#print axioms LD.C11.status_determined_of
#print axioms LD.C11.status_some_iff_of
#print axioms LD.C11.storeConsistent_ofLists
#print axioms LD.C11.notConfigured_only_if
#print axioms LD.C11.no_spurious_notConfigured
#print axioms LD.C11.status_exact_of_provider
#print axioms LD.C11.status_exact_provider
#print axioms LD.C11.no_provider_status_tight
#print axioms LD.C11.status_some_only_if_tight
#print axioms LD.C11.touched_evaluate
#print axioms LD.C11.touched_evaluate_consistent
#print axioms LD.C11.status_determined_consistent
#print axioms LD.C11.status_some_iff_consistent
#print axioms LD.C11.touched_needs_nonerror
#print axioms LD.C11.status_determined
#print axioms LD.C11.status_some_only_if_segment
#print axioms LD.C11.status_some_iff
#print axioms LD.C11.queries_are_context_keys
#print axioms LD.C11.queries_le_individuals
#print axioms LD.C11.memChecks_spec
#print axioms LD.C11.no_unbounded_nothing

/-
  C14 — Preprocessing is a transparent optimisation.

  "Evaluation results … are identical whether a flag or segment was obtained by JSON decoding, by
  the builders, by explicit preprocessing of a hand-built value, or hand-built with no
  preprocessing at all; precomputed lookup tables and pre-parsed operands never change what
  matches."

  JSON decoding and the builders produce `preprocessFlag rx f` / `preprocessSegment rx s` of the
  plain value; a hand-built value has every table absent (`pre := {}` / `pre := none`).  Every
  theorem below compares `{ x with pre := <what preprocessing builds> }` with
  `{ x with pre := <absent> }`; the regular-expression oracle `rx` is arbitrary.
-/
import LDEval.Proofs.ClauseLemmas

namespace LD.C14

variable (rx : RegexOracle)

/-! ### 1. Key sets -/

/-- The precomputed key set (built only for a non-empty list) answers like the linear search. -/
theorem findKey_transparent (key : String) (vals : List String) :
    findKey key vals (preprocessStringSet vals) = findKey key vals none := by
  unfold findKey preprocessStringSet
  cases h : vals.isEmpty <;> simp

/-! ### 2. The equality-set table of an `in` clause -/

/-- The equality-set table (built only for `in` with more than one value, all primitive) answers
exactly like the typed linear search, for every context value — arrays, objects, null and
mixed types (`1` vs `"1"`) included. -/
theorem findValue_transparent (c : Clause) (v : J) :
    ({ c with pre := preprocessClause rx c }).findValue v = ({ c with pre := {} }).findValue v := by
  rw [findValue_plain { c with pre := {} } rfl]
  rcases preprocessClause_valuesMap rx c with h | ⟨h, hall⟩
  · exact findValue_plain { c with pre := preprocessClause rx c } h v
  · exact findValue_table { c with pre := preprocessClause rx c } h hall v

/-! ### 3. Pre-parsed operands -/

theorem valueAsRegexp_transparent (c : Clause) (hop : c.op = "matches") (i : Nat) :
    ({ c with pre := preprocessClause rx c }).valueAsRegexp rx i =
      ({ c with pre := {} }).valueAsRegexp rx i := by
  unfold Clause.valueAsRegexp
  simp only [preprocessClause_values_matches rx c hop, List.getElem?_map]
  cases c.values[i]? with
  | none => rfl
  | some v => simp only [Option.map_some, Option.bind_some]; cases parseRegexp rx v <;> rfl

theorem valueAsTimestamp_transparent (c : Clause) (hop : c.op = "before" ∨ c.op = "after")
    (i : Nat) :
    ({ c with pre := preprocessClause rx c }).valueAsTimestamp i =
      ({ c with pre := {} }).valueAsTimestamp i := by
  unfold Clause.valueAsTimestamp
  simp only [preprocessClause_values_date rx c hop, List.getElem?_map]
  cases c.values[i]? with
  | none => rfl
  | some v => simp only [Option.map_some, Option.bind_some]; cases Time.valueToTimestamp v <;> rfl

theorem valueAsSemVer_transparent (c : Clause)
    (hop : c.op = "semVerEqual" ∨ c.op = "semVerLessThan" ∨ c.op = "semVerGreaterThan") (i : Nat) :
    ({ c with pre := preprocessClause rx c }).valueAsSemVer i =
      ({ c with pre := {} }).valueAsSemVer i := by
  unfold Clause.valueAsSemVer
  simp only [preprocessClause_values_semver rx c hop, List.getElem?_map]
  cases c.values[i]? with
  | none => rfl
  | some v => simp only [Option.map_some, Option.bind_some]; cases parseSemVer v <;> rfl

/-! ### 4. Operators -/

theorem doOp_transparent (c : Clause) (u cv : J) (i : Nat) :
    doOp rx { c with pre := preprocessClause rx c } u cv i = doOp rx { c with pre := {} } u cv i :=
  doOp_congr rx _ _ u cv i rfl
    (fun h => valueAsRegexp_transparent rx c h i)
    (fun h => valueAsTimestamp_transparent rx c h i)
    (fun h => valueAsSemVer_transparent rx c h i)

theorem matchAny_transparent (c : Clause) (u : J) :
    matchAny rx { c with pre := preprocessClause rx c } u = matchAny rx { c with pre := {} } u := by
  unfold matchAny
  simp only [findValue_transparent rx c u]
  have : (fun cv i => doOp rx { c with pre := preprocessClause rx c } u cv i) =
      (fun cv i => doOp rx { c with pre := {} } u cv i) := by
    funext cv i; exact doOp_transparent rx c u cv i
  rw [this]

/-! ### 5. Clauses -/

theorem clause_transparent (c : Clause) (ctx : Ctx) :
    clauseMatchNoSeg rx ctx { c with pre := preprocessClause rx c } =
      clauseMatchNoSeg rx ctx { c with pre := {} } := by
  have h : matchAny rx { c with pre := preprocessClause rx c } = matchAny rx { c with pre := {} } :=
    funext (matchAny_transparent rx c)
  unfold clauseMatchNoSeg clauseMatchByKind
  simp only [h]

/-! ### 6. Segment lists and flag targets -/

theorem segTargetMatch_transparent (ctx : Ctx) (t : SegmentTarget) :
    segTargetMatch ctx { t with pre := preprocessStringSet t.values } =
      segTargetMatch ctx { t with pre := none } := by
  unfold segTargetMatch SegmentTarget.findKey
  cases ctx.keyByKind t.contextKind with
  | none => rfl
  | some k => exact findKey_transparent k t.values

/-- A segment with every lookup table absent (what a hand-built value is). -/
def stripSegment (s : Segment) : Segment :=
  { s with
    pre := {}
    includedContexts := s.includedContexts.map fun t => { t with pre := none }
    excludedContexts := s.excludedContexts.map fun t => { t with pre := none }
    rules := s.rules.map fun r =>
      { r with clauses := r.clauses.map fun c => { c with pre := {} } } }

/-- `s` is hand-built: no list table at all. -/
def PlainLists (s : Segment) : Prop :=
  s.pre = {} ∧ (∀ t ∈ s.includedContexts, t.pre = none) ∧ (∀ t ∈ s.excludedContexts, t.pre = none)

theorem segLists_congr (ctx : Ctx) (s s' : Segment)
    (hi : ∀ k, findKey k s.included s.pre.includeMap = findKey k s'.included s'.pre.includeMap)
    (he : ∀ k, findKey k s.excluded s.pre.excludeMap = findKey k s'.excluded s'.pre.excludeMap)
    (hic : s.includedContexts.any (segTargetMatch ctx) = s'.includedContexts.any (segTargetMatch ctx))
    (hec : s.excludedContexts.any (segTargetMatch ctx) = s'.excludedContexts.any (segTargetMatch ctx)) :
    segLists ctx s = segLists ctx s' := by
  unfold segLists
  simp only [hic, hec]
  cases ctx.keyByKind defaultKind with
  | none => rfl
  | some k => simp only [hi k, he k]

/-- The four list checks of a preprocessed segment decide exactly as those of the same segment
with every table removed — whatever tables `s` carried before. -/
theorem segLists_transparent (s : Segment) (ctx : Ctx) :
    segLists ctx (preprocessSegment rx s) = segLists ctx (stripSegment s) := by
  apply segLists_congr
  · intro k; exact findKey_transparent k s.included
  · intro k; exact findKey_transparent k s.excluded
  · simp only [preprocessSegment, stripSegment, List.any_map]
    congr 1; funext t; exact segTargetMatch_transparent ctx t
  · simp only [preprocessSegment, stripSegment, List.any_map]
    congr 1; funext t; exact segTargetMatch_transparent ctx t

theorem map_strip_id {α} (l : List α) (g : α → α) (h : ∀ t ∈ l, g t = t) : l.map g = l := by
  induction l with
  | nil => rfl
  | cons a l ih =>
    simp only [List.map_cons, h a (by simp), ih (fun t ht => h t (by simp [ht]))]

/-- For a hand-built segment, preprocessing does not change the list checks. -/
theorem segLists_transparent_plain (s : Segment) (hs : PlainLists s) (ctx : Ctx) :
    segLists ctx (preprocessSegment rx s) = segLists ctx s := by
  rw [segLists_transparent]
  obtain ⟨h1, h2, h3⟩ := hs
  apply segLists_congr
  · intro k; simp only [stripSegment, h1]
  · intro k; simp only [stripSegment, h1]
  · simp only [stripSegment]
    rw [map_strip_id _ _ (fun t ht => by have := h2 t ht; cases t; simp_all)]
  · simp only [stripSegment]
    rw [map_strip_id _ _ (fun t ht => by have := h3 t ht; cases t; simp_all)]

theorem targetMatch_transparent (ctx : Ctx) (t : Target) :
    targetMatch ctx { t with pre := preprocessStringSet t.values } =
      targetMatch ctx { t with pre := none } := by
  unfold targetMatch Target.findKey
  cases ctx.byKind t.contextKind with
  | none => rfl
  | some sc => simp only [findKey_transparent sc.key t.values]

theorem targetMatch_preprocess_plain (ctx : Ctx) (t : Target) (h : t.pre = none) :
    targetMatch ctx { t with pre := preprocessStringSet t.values } = targetMatch ctx t := by
  rw [targetMatch_transparent]; cases t; simp_all

/-- Individual-target matching is the same on a preprocessed flag (user-target key sets built) as
on the hand-built one. -/
theorem anyTargetMatch_transparent (f : Flag) (hf : ∀ t ∈ f.targets, t.pre = none) (ctx : Ctx) :
    anyTargetMatch ctx (preprocessFlag rx f) = anyTargetMatch ctx f := by
  have hfind : ∀ (v : Int),
      (f.targets.map fun t => { t with pre := preprocessStringSet t.values }).find?
          (fun t1 => t1.variation == v) =
        (f.targets.find? (fun t1 => t1.variation == v)).map
          (fun t => { t with pre := preprocessStringSet t.values }) := by
    intro v; rw [List.find?_map]; rfl
  have hsome : ∀ (l : List Target) (hl : ∀ t ∈ l, t.pre = none),
      (l.map fun t => { t with pre := preprocessStringSet t.values }).findSome? (targetMatch ctx) =
        l.findSome? (targetMatch ctx) := by
    intro l hl
    induction l with
    | nil => rfl
    | cons a l ih =>
      simp only [List.map_cons, List.findSome?_cons,
        targetMatch_preprocess_plain ctx a (hl a (by simp)), ih (fun t ht => hl t (by simp [ht]))]
  have e1 : (preprocessFlag rx f).contextTargets = f.contextTargets := rfl
  have e2 : (preprocessFlag rx f).targets =
      f.targets.map fun t => { t with pre := preprocessStringSet t.values } := rfl
  unfold anyTargetMatch
  rw [e1, e2]
  by_cases hE : f.contextTargets.isEmpty = true
  · rw [if_pos hE, if_pos hE]; exact hsome _ hf
  · rw [if_neg hE, if_neg hE]
    congr 1; funext t
    split
    · rw [hfind t.variation]
      cases h : List.find? (fun t1 => t1.variation == t.variation) f.targets with
      | none => rfl
      | some a =>
        exact targetMatch_preprocess_plain ctx a (hf a (List.mem_of_find?_eq_some h))
    · rfl

/-! ### 7. Whole rules, segments and flags (stateless specification level) -/

/-- A hand-built flag: no target key set, no clause table. -/
def PlainFlag (f : Flag) : Prop :=
  (∀ t ∈ f.targets, t.pre = none) ∧ (∀ r ∈ f.rules, ∀ c ∈ r.clauses, c.pre = {})

/-- A hand-built segment: no list table, no clause table. -/
def PlainSegment (s : Segment) : Prop :=
  PlainLists s ∧ (∀ r ∈ s.rules, ∀ c ∈ r.clauses, c.pre = {})

theorem clause_strip_plain (c : Clause) (h : c.pre = {}) : { c with pre := {} } = c := by
  cases c; simp_all

theorem spec_clauseMatch_transparent (rec : Spec.SegRec) (env : Env) (chain : List String)
    (c : Clause) :
    Spec.clauseMatch rec env chain { c with pre := preprocessClause env.rx c } =
      Spec.clauseMatch rec env chain { c with pre := {} } := by
  unfold Spec.clauseMatch
  simp only [clause_transparent env.rx c env.ctx]

theorem spec_clausesMatch_transparent (rec : Spec.SegRec) (env : Env) (chain : List String)
    (cs : List Clause) (hcs : ∀ c ∈ cs, c.pre = {}) :
    Spec.clausesMatch rec env chain (preprocessClauses env.rx cs) =
      Spec.clausesMatch rec env chain cs := by
  induction cs with
  | nil => rfl
  | cons c cs ih =>
    have hc : Spec.clauseMatch rec env chain { c with pre := preprocessClause env.rx c } =
        Spec.clauseMatch rec env chain c := by
      rw [spec_clauseMatch_transparent, clause_strip_plain c (hcs c (by simp))]
    have ih' := ih (fun c hc => hcs c (by simp [hc]))
    simp only [preprocessClauses, List.map_cons] at ih' ⊢
    simp only [Spec.clausesMatch, hc, ih']

theorem spec_segRuleMatch_transparent (rec : Spec.SegRec) (env : Env) (chain : List String)
    (key salt : String) (r : SegmentRule) (hr : ∀ c ∈ r.clauses, c.pre = {}) :
    Spec.segRuleMatch rec env chain key salt
        { r with clauses := preprocessClauses env.rx r.clauses } =
      Spec.segRuleMatch rec env chain key salt r := by
  unfold Spec.segRuleMatch
  simp only [spec_clausesMatch_transparent rec env chain r.clauses hr]

theorem spec_segRules_transparent (rec : Spec.SegRec) (env : Env) (chain : List String)
    (s s' : Segment) (hk : s'.key = s.key) (hsalt : s'.salt = s.salt) (rs : List SegmentRule)
    (hrs : ∀ r ∈ rs, ∀ c ∈ r.clauses, c.pre = {}) :
    Spec.segRules rec env chain s'
        (rs.map fun r => { r with clauses := preprocessClauses env.rx r.clauses }) =
      Spec.segRules rec env chain s rs := by
  induction rs with
  | nil => rfl
  | cons r rs ih =>
    simp only [List.map_cons, Spec.segRules, hk, hsalt,
      spec_segRuleMatch_transparent rec env chain s.key s.salt r (hrs r (by simp)),
      ih (fun r hr => hrs r (by simp [hr]))]

/-- One level of segment membership is the same for the preprocessed segment as for the
hand-built one (segments referenced from its rules are whatever the store holds). -/
theorem spec_segBody_transparent (rec : Spec.SegRec) (env : Env) (s : Segment)
    (hs : PlainSegment s) (chain : List String) :
    Spec.segBody rec env (preprocessSegment env.rx s) chain = Spec.segBody rec env s chain := by
  have hl := segLists_transparent_plain env.rx s hs.1 env.ctx
  have hr : ∀ chain', Spec.segRules rec env chain' (preprocessSegment env.rx s)
      (preprocessSegment env.rx s).rules = Spec.segRules rec env chain' s s.rules :=
    fun chain' => spec_segRules_transparent rec env chain' s (preprocessSegment env.rx s) rfl rfl s.rules hs.2
  unfold Spec.segBody
  simp only [hl, hr]
  rfl

theorem spec_rulesLoop_transparent (seg : Spec.SegRec) (env : Env) (f : Flag) (rs : List FlagRule)
    (hrs : ∀ r ∈ rs, ∀ c ∈ r.clauses, c.pre = {}) (i : Nat) :
    Spec.rulesLoop seg env (preprocessFlag env.rx f)
        (rs.map fun r => { r with clauses := preprocessClauses env.rx r.clauses }) i =
      Spec.rulesLoop seg env f rs i := by
  induction rs generalizing i with
  | nil => rfl
  | cons r rs ih =>
    simp only [List.map_cons, Spec.rulesLoop,
      spec_clausesMatch_transparent seg env [] r.clauses (hrs r (by simp)),
      ih (fun r hr => hrs r (by simp [hr]))]
    rfl

/-- One level of flag evaluation (off → prerequisites → targets → rules → fallthrough) gives the
same result for the preprocessed flag as for the hand-built one. -/
theorem spec_evalBody_transparent (rec : Spec.FlagRec) (seg : Spec.SegRec) (env : Env) (f : Flag)
    (hf : PlainFlag f) (chain : List String) :
    Spec.evalBody rec seg env (preprocessFlag env.rx f) chain = Spec.evalBody rec seg env f chain := by
  have ht := anyTargetMatch_transparent env.rx f hf.1 env.ctx
  have hr := spec_rulesLoop_transparent seg env f f.rules hf.2 0
  have hp : Spec.checkPrereqs rec env (preprocessFlag env.rx f) chain =
      Spec.checkPrereqs rec env f chain := rfl
  have ho : ∀ r, Spec.getOffValue (preprocessFlag env.rx f) r = Spec.getOffValue f r := fun _ => rfl
  have hv : ∀ v r, Spec.getVariation (preprocessFlag env.rx f) v r = Spec.getVariation f v r :=
    fun _ _ => rfl
  have hon : (preprocessFlag env.rx f).on = f.on := rfl
  have hrules : (preprocessFlag env.rx f).rules =
      f.rules.map fun r => { r with clauses := preprocessClauses env.rx r.clauses } := rfl
  unfold Spec.evalBody
  simp only [hon, hp, ho, hv, ht, hrules, hr]

/-! ### 8. Whole evaluations, every side channel included (code-shaped model)

The whole store and the flag go through preprocessing (`preEnv`, `preprocessFlag`); the result of
`evaluate` — value, index, reason, events, log lines, store lookups, big-segment queries — is the
same as with the hand-built store and flag. -/

def preprocessStore (rx : RegexOracle) (st : Store) : Store :=
  { flags := st.flags.map fun e => (e.1, preprocessFlag rx e.2),
    segments := st.segments.map fun e => (e.1, preprocessSegment rx e.2) }

/-- The same environment with every flag and segment of the store preprocessed. -/
def preEnv (env : Env) : Env := { env with store := preprocessStore env.rx env.store }

def PlainStore (st : Store) : Prop :=
  (∀ f ∈ st.flags.map (·.2), PlainFlag f) ∧ (∀ s ∈ st.segments.map (·.2), PlainSegment s)

theorem findSegment_preprocess (rx : RegexOracle) (st : Store) (k : String) :
    (preprocessStore rx st).findSegment k = (st.findSegment k).map (preprocessSegment rx) := by
  unfold Store.findSegment preprocessStore
  rw [List.find?_map, Option.map_map, Option.map_map]; rfl

theorem findFlag_preprocess (rx : RegexOracle) (st : Store) (k : String) :
    (preprocessStore rx st).findFlag k = (st.findFlag k).map (preprocessFlag rx) := by
  unfold Store.findFlag preprocessStore
  rw [List.find?_map, Option.map_map, Option.map_map]; rfl

section model
variable (env : Env) (rec rec' : SegRec)
  (hrec : ∀ seg ∈ env.store.segments.map (·.2), ∀ chain st,
    rec' (preprocessSegment env.rx seg) chain st = rec seg chain st)
include hrec

theorem segMatchValues_store (negate : Bool) (chain : List String) (vs : List J) (st : St) :
    segMatchValues rec' (preEnv env) negate chain vs st =
      segMatchValues rec env negate chain vs st := by
  induction vs generalizing st with
  | nil => rfl
  | cons v vs ih =>
    cases v with
    | str k =>
      have hf : (preEnv env).store.findSegment k =
          (env.store.findSegment k).map (preprocessSegment env.rx) :=
        findSegment_preprocess env.rx env.store k
      simp only [segMatchValues, hf]
      cases hs : env.store.findSegment k with
      | none => simp only [Option.map_none, ih]
      | some seg =>
        simp only [Option.map_some, hrec seg (Store.findSegment_mem hs), ih]
    | null => simp only [segMatchValues, ih]
    | bool b => simp only [segMatchValues, ih]
    | num q => simp only [segMatchValues, ih]
    | arr xs => simp only [segMatchValues, ih]
    | obj kvs => simp only [segMatchValues, ih]
    | raw w => simp only [segMatchValues, ih]

theorem clauseMatch_store (chain : List String) (c : Clause) (hc : c.pre = {}) (st : St) :
    clauseMatch rec' (preEnv env) chain { c with pre := preprocessClause env.rx c } st =
      clauseMatch rec env chain c st := by
  have h2 : clauseMatchNoSeg (preEnv env).rx (preEnv env).ctx
      { c with pre := preprocessClause env.rx c } = clauseMatchNoSeg env.rx env.ctx c := by
    show clauseMatchNoSeg env.rx env.ctx _ = _
    rw [clause_transparent, clause_strip_plain c hc]
  unfold clauseMatch
  simp only [h2, segMatchValues_store env rec rec' hrec]

theorem clausesMatch_store (chain : List String) (cs : List Clause) (hcs : ∀ c ∈ cs, c.pre = {})
    (st : St) :
    clausesMatch rec' (preEnv env) chain (preprocessClauses env.rx cs) st =
      clausesMatch rec env chain cs st := by
  induction cs generalizing st with
  | nil => rfl
  | cons c cs ih =>
    have ih' := fun st => ih (fun c hc => hcs c (by simp [hc])) st
    simp only [preprocessClauses, List.map_cons] at ih' ⊢
    simp only [clausesMatch, clauseMatch_store env rec rec' hrec chain c (hcs c (by simp)), ih']

theorem segRuleMatch_store (chain : List String) (key salt : String) (r : SegmentRule)
    (hr : ∀ c ∈ r.clauses, c.pre = {}) (st : St) :
    segRuleMatch rec' (preEnv env) chain key salt
        { r with clauses := preprocessClauses env.rx r.clauses } st =
      segRuleMatch rec env chain key salt r st := by
  unfold segRuleMatch
  simp only [clausesMatch_store env rec rec' hrec chain r.clauses hr]
  rfl

theorem segRules_store (chain : List String) (s s' : Segment) (hk : s'.key = s.key)
    (hsalt : s'.salt = s.salt) (rs : List SegmentRule)
    (hrs : ∀ r ∈ rs, ∀ c ∈ r.clauses, c.pre = {}) (st : St) :
    segRules rec' (preEnv env) chain s'
        (rs.map fun r => { r with clauses := preprocessClauses env.rx r.clauses }) st =
      segRules rec env chain s rs st := by
  induction rs generalizing st with
  | nil => rfl
  | cons r rs ih =>
    have ih' := fun st => ih (fun r hr => hrs r (by simp [hr])) st
    simp only [List.map_cons, segRules, hk, hsalt,
      segRuleMatch_store env rec rec' hrec chain s.key s.salt r (hrs r (by simp)), ih']

theorem segBody_store (s : Segment) (hs : PlainSegment s) (chain : List String) (st : St) :
    segBody rec' (preEnv env) (preprocessSegment env.rx s) chain st =
      segBody rec env s chain st := by
  have hl : segLists (preEnv env).ctx (preprocessSegment env.rx s) = segLists env.ctx s :=
    segLists_transparent_plain env.rx s hs.1 env.ctx
  have hr : ∀ chain' st, segRules rec' (preEnv env) chain' (preprocessSegment env.rx s)
      (preprocessSegment env.rx s).rules st = segRules rec env chain' s s.rules st :=
    fun chain' st => segRules_store env rec rec' hrec chain' s (preprocessSegment env.rx s) rfl rfl
      s.rules hs.2 st
  unfold segBody
  simp only [hl, hr]
  rfl

end model

theorem segContains_store (env : Env) (hst : PlainStore env.store) (n : Nat) :
    ∀ s, PlainSegment s → ∀ chain st,
      segContains n (preEnv env) (preprocessSegment env.rx s) chain st =
        segContains n env s chain st := by
  induction n with
  | zero => intro s _ chain st; rfl
  | succ n ih =>
    intro s hs chain st
    exact segBody_store env (segContains n env) (segContains n (preEnv env))
      (fun seg hseg chain st => ih seg (hst.2 seg hseg) chain st) s hs chain st

theorem isExperimentResult_preprocess (rx : RegexOracle) (f : Flag) (r : Reason) :
    isExperimentResult (preprocessFlag rx f) r = isExperimentResult f r := by
  have hrules : (preprocessFlag rx f).rules =
      f.rules.map fun r => { r with clauses := preprocessClauses rx r.clauses } := rfl
  have ht : (preprocessFlag rx f).trackEventsFallthrough = f.trackEventsFallthrough := rfl
  unfold isExperimentResult
  simp only [hrules, ht, List.getElem?_map]
  cases f.rules[r.ruleIndex.toNat]? <;> rfl

section flags
variable (env : Env) (seg seg' : SegRec)
  (hseg : ∀ s ∈ env.store.segments.map (·.2), ∀ chain st,
    seg' (preprocessSegment env.rx s) chain st = seg s chain st)
  (rec rec' : FlagRec)
  (hrec : ∀ pf ∈ env.store.flags.map (·.2), ∀ chain st,
    rec' (preprocessFlag env.rx pf) chain st = rec pf chain st)

include hrec in
theorem prereqLoop_store (f : Flag) (chain : List String) (ps : List Prereq) (st : St) :
    prereqLoop rec' (preEnv env) (preprocessFlag env.rx f) chain ps st =
      prereqLoop rec env f chain ps st := by
  induction ps generalizing st with
  | nil => rfl
  | cons p ps ih =>
    have hf : (preEnv env).store.findFlag p.key =
        (env.store.findFlag p.key).map (preprocessFlag env.rx) :=
      findFlag_preprocess env.rx env.store p.key
    simp only [prereqLoop, hf]
    cases hs : env.store.findFlag p.key with
    | none => rfl
    | some pf =>
      simp only [Option.map_some, hrec pf (Store.findFlag_mem hs), ih,
        isExperimentResult_preprocess]
      rfl

include hrec in
theorem checkPrereqs_store (f : Flag) (chain : List String) (st : St) :
    checkPrereqs rec' (preEnv env) (preprocessFlag env.rx f) chain st =
      checkPrereqs rec env f chain st := by
  unfold checkPrereqs
  simp only [prereqLoop_store env rec rec' hrec]
  rfl

include hseg in
theorem rulesLoop_store (f : Flag) (rs : List FlagRule)
    (hrs : ∀ r ∈ rs, ∀ c ∈ r.clauses, c.pre = {}) (i : Nat) (st : St) :
    rulesLoop seg' (preEnv env) (preprocessFlag env.rx f)
        (rs.map fun r => { r with clauses := preprocessClauses env.rx r.clauses }) i st =
      rulesLoop seg env f rs i st := by
  induction rs generalizing i st with
  | nil => rfl
  | cons r rs ih =>
    have ih' := fun i st => ih (fun r hr => hrs r (by simp [hr])) i st
    simp only [List.map_cons, rulesLoop,
      clausesMatch_store env seg seg' hseg [] r.clauses (hrs r (by simp)), ih']
    rfl

include hseg hrec in
theorem evalBody_store (f : Flag) (hf : PlainFlag f) (chain : List String) (st : St) :
    evalBody rec' seg' (preEnv env) (preprocessFlag env.rx f) chain st =
      evalBody rec seg env f chain st := by
  have ht : anyTargetMatch (preEnv env).ctx (preprocessFlag env.rx f) = anyTargetMatch env.ctx f :=
    anyTargetMatch_transparent env.rx f hf.1 env.ctx
  have hr := rulesLoop_store env seg seg' hseg f f.rules hf.2 0
  have hrules : (preprocessFlag env.rx f).rules =
      f.rules.map fun r => { r with clauses := preprocessClauses env.rx r.clauses } := rfl
  unfold evalBody
  simp only [checkPrereqs_store env rec rec' hrec, ht, hrules, hr]
  rfl

end flags

theorem evalFlag_store (env : Env) (hst : PlainStore env.store) (sf n : Nat) :
    ∀ f, PlainFlag f → ∀ chain st,
      evalFlag sf n (preEnv env) (preprocessFlag env.rx f) chain st = evalFlag sf n env f chain st := by
  induction n with
  | zero => intro f _ chain st; rfl
  | succ n ih =>
    intro f hf chain st
    exact evalBody_store env (segContains sf env) (segContains sf (preEnv env))
      (fun s hs chain st => segContains_store env hst sf s (hst.2 s hs) chain st)
      (evalFlag sf n env) (evalFlag sf n (preEnv env))
      (fun pf hpf chain st => ih pf (hst.1 pf hpf) chain st) f hf chain st

theorem fuel_preprocess (rx : RegexOracle) (st : Store) :
    flagFuel (preprocessStore rx st) = flagFuel st ∧ segFuel (preprocessStore rx st) = segFuel st := by
  unfold flagFuel segFuel preprocessStore
  simp only [List.map_map]
  exact ⟨rfl, rfl⟩

/-- **Preprocessing is transparent.**  Evaluating the preprocessed flag against the preprocessed
store gives exactly the observation — result, events, logs, lookups, big-segment queries — that
evaluating the hand-built flag against the hand-built store gives. -/
theorem evaluate_transparent (env : Env) (hst : PlainStore env.store) (f : Flag) (hf : PlainFlag f) :
    evaluate (preEnv env) (preprocessFlag env.rx f) = evaluate env f := by
  have hE : evalFlag (segFuel (preEnv env).store) (flagFuel (preEnv env).store) (preEnv env)
      (preprocessFlag env.rx f) [] {} =
      evalFlag (segFuel env.store) (flagFuel env.store) env f [] {} := by
    have h := fuel_preprocess env.rx env.store
    show evalFlag (segFuel (preprocessStore env.rx env.store))
      (flagFuel (preprocessStore env.rx env.store)) _ _ _ _ = _
    rw [h.1, h.2]
    exact evalFlag_store env hst _ _ f hf [] {}
  unfold evaluate
  simp only [hE, isExperimentResult_preprocess]
  rfl

/-- Preprocessing only the flag under evaluation is transparent whatever the store holds
(preprocessed, hand-built, or a mixture): stateless specification, any fuel. -/
theorem spec_evalFlag_transparent (sf n : Nat) (env : Env) (f : Flag) (hf : PlainFlag f)
    (chain : List String) :
    Spec.evalFlag sf n env (preprocessFlag env.rx f) chain = Spec.evalFlag sf n env f chain := by
  cases n with
  | zero => rfl
  | succ n => exact spec_evalBody_transparent _ _ env f hf chain

/-- Likewise for one segment, whatever the store holds. -/
theorem spec_segContains_transparent (n : Nat) (env : Env) (s : Segment) (hs : PlainSegment s)
    (chain : List String) :
    Spec.segContains n env (preprocessSegment env.rx s) chain = Spec.segContains n env s chain := by
  cases n with
  | zero => rfl
  | succ n => exact spec_segBody_transparent _ env s hs chain

/-! ### Non-vacuity -/

/-- A clause for which the table IS built (`in`, two primitive values of different types). -/
def exIn : Clause := { attr := { raw := "a", single := "a" }, op := "in", values := [.num 1, .str "1"] }

example : (preprocessClause rx exIn).valuesMap = some [.num 1, .str "1"] := by
  simp [preprocessClause, exIn, asPrimKey, PrimKey.isValid]

/-- `1` is found, `"1"` is found, `true`, `"2"`, `[1]` and null are not — with the table… -/
example :
    ({ exIn with pre := preprocessClause rx exIn }).findValue (.num 1) = true ∧
    ({ exIn with pre := preprocessClause rx exIn }).findValue (.str "1") = true ∧
    ({ exIn with pre := preprocessClause rx exIn }).findValue (.bool true) = false ∧
    ({ exIn with pre := preprocessClause rx exIn }).findValue (.str "2") = false ∧
    ({ exIn with pre := preprocessClause rx exIn }).findValue (.arr [.num 1]) = false ∧
    ({ exIn with pre := preprocessClause rx exIn }).findValue .null = false := by
  simp [Clause.findValue, preprocessClause, exIn, asPrimKey, PrimKey.isValid]

/-- A `matches` clause with one compiling and one non-compiling pattern: the table records
exactly which is which. -/
example : (preprocessClause (fun p _ => if p = "(" then none else some true)
      { op := "matches", values := [.str "a", .str "(", .num 3] }).values =
    some [{ valid := true, regex := some "a" }, { valid := false }, { valid := false }] := by
  simp [preprocessClause, parseRegexp]

/-- The operator-family hypothesis of `valueAsRegexp_transparent` is needed (and harmless: `doOp`
reads the regexp accessor only under `matches`): under `before` the table holds parsed times, so
the regexp accessor of the preprocessed clause has nothing while the plain one compiles `"a"`. -/
example :
    ({ ({ op := "before", values := [.str "a"] } : Clause) with
        pre := preprocessClause (fun _ _ => some true) { op := "before", values := [.str "a"] } }
      ).valueAsRegexp (fun _ _ => some true) 0 = none ∧
    ({ ({ op := "before", values := [.str "a"] } : Clause) with pre := {} }
      ).valueAsRegexp (fun _ _ => some true) 0 = some "a" := by
  constructor
  · simp [Clause.valueAsRegexp, preprocessClause]
    split <;> rfl
  · simp [Clause.valueAsRegexp, parseRegexp]

/-! #### Unparsed (raw) clause values: both paths treat them alike

`asPrimitiveValueKey`, `parseDateTime` / `ValueToTimestamp` switch on `Type()` in the preprocessing
step *and* on the fly; `parseRegexp`, `parseSemVer` ask `IsString()` in both.  So the theorems above
hold for raw clause values with no side condition; these examples show what the tables contain. -/

/-- A raw clause value is not a valid primitive key: no equality-set table is built … -/
def exInRaw : Clause :=
  { attr := { raw := "a", single := "a" }, op := "in", values := [.num 1, .raw (.str "1")] }

example : (preprocessClause rx exInRaw).valuesMap = none := by
  simp [preprocessClause, exInRaw, asPrimKey, PrimKey.isValid]

/-- … and the linear search, whose `Equal` parses, finds the plain `"1"` with and without
preprocessing, and the raw `"1"` in neither case. -/
example :
    ({ exInRaw with pre := preprocessClause rx exInRaw }).findValue (.str "1") = true ∧
    ({ exInRaw with pre := {} }).findValue (.str "1") = true ∧
    ({ exInRaw with pre := preprocessClause rx exInRaw }).findValue (.raw (.str "1")) = false ∧
    ({ exInRaw with pre := {} }).findValue (.raw (.str "1")) = false := ⟨rfl, rfl, rfl, rfl⟩

/-- A raw number is no timestamp for the table, exactly as on the fly … -/
example : (preprocessClause rx { op := "before", values := [.num 5, .raw (.num 5)] }).values =
    some [{ valid := true, time := 5000000 }, { valid := false }] := by
  simp [preprocessClause, Time.valueToTimestamp]
  decide
example : ({ op := "before", values := [.num 5, .raw (.num 5)] } : Clause).valueAsTimestamp 1 = none := rfl

/-- … while a raw pattern is compiled for the table, exactly as on the fly. -/
example : (preprocessClause (fun _ _ => some true) { op := "matches", values := [.raw (.str "a")] }).values =
    some [{ valid := true, regex := some "a" }] := by
  simp [preprocessClause, parseRegexp]
example : ({ op := "matches", values := [.raw (.str "a")] } : Clause).valueAsRegexp
    (fun _ _ => some true) 0 = some "a" := rfl

def exFlag : Flag :=
  { key := "f", on := true, targets := [{ values := ["k"], variation := 1 }],
    rules := [{ clauses := [exIn] }] }

example : PlainFlag exFlag := by
  constructor
  · intro t ht; simp [exFlag] at ht; subst ht; rfl
  · intro r hr c hc; simp [exFlag] at hr; subst hr; simp at hc; subst hc; rfl

example : PlainStore {} := ⟨by simp, by simp⟩

#print axioms findKey_transparent
#print axioms findValue_transparent
#print axioms valueAsRegexp_transparent
#print axioms valueAsSemVer_transparent
#print axioms valueAsTimestamp_transparent
#print axioms doOp_transparent
#print axioms matchAny_transparent
#print axioms clause_transparent
#print axioms segLists_transparent
#print axioms segLists_transparent_plain
#print axioms targetMatch_transparent
#print axioms anyTargetMatch_transparent
#print axioms spec_segBody_transparent
#print axioms spec_evalBody_transparent
#print axioms spec_evalFlag_transparent
#print axioms spec_segContains_transparent
#print axioms segContains_store
#print axioms evalFlag_store
#print axioms evaluate_transparent

/-! ## Strengthened statements (theorem audit) -/

/-! ### A. `FormEquiv`: the same configuration, every table independently absent or built

A clause has two tables, a target / segment target one key set, a segment two key sets of its own.
`…FormOK` says that EACH table is either absent (`none`, a hand-built value) or exactly what
`preprocessClause` / `preprocessStringSet` build from the exported fields of the item that carries
it.  `strip…` removes every table.  Two values are `FormEquiv` when both are `FormOK` and they are
the same value once the tables are removed: the same configuration, each table independently
present or absent — in particular each flag and each segment of a store independently hand-built,
decoded, built by a builder or explicitly preprocessed. -/

/-- A key-set table is absent or what `preprocessStringSet` builds. -/
def KeySetOK (vals : List String) (tbl : Option (List String)) : Prop :=
  tbl = none ∨ tbl = preprocessStringSet vals

/-- Each of the two tables of a clause is absent or exactly what `preprocessClause` builds. -/
def ClauseFormOK (rx : RegexOracle) (c : Clause) : Prop :=
  (c.pre.values = none ∨ c.pre.values = (preprocessClause rx c).values) ∧
  (c.pre.valuesMap = none ∨ c.pre.valuesMap = (preprocessClause rx c).valuesMap)

/-- Every table of a flag is absent or as `PreprocessFlag` builds it (Go never sets the key set of a
context target; the model allows it to be present as well). -/
def FlagFormOK (rx : RegexOracle) (f : Flag) : Prop :=
  (∀ t ∈ f.targets, KeySetOK t.values t.pre) ∧
  (∀ t ∈ f.contextTargets, KeySetOK t.values t.pre) ∧
  (∀ r ∈ f.rules, ∀ c ∈ r.clauses, ClauseFormOK rx c)

/-- Every table of a segment is absent or as `PreprocessSegment` builds it. -/
def SegmentFormOK (rx : RegexOracle) (s : Segment) : Prop :=
  KeySetOK s.included s.pre.includeMap ∧ KeySetOK s.excluded s.pre.excludeMap ∧
  (∀ t ∈ s.includedContexts, KeySetOK t.values t.pre) ∧
  (∀ t ∈ s.excludedContexts, KeySetOK t.values t.pre) ∧
  (∀ r ∈ s.rules, ∀ c ∈ r.clauses, ClauseFormOK rx c)

def StoreFormOK (rx : RegexOracle) (st : Store) : Prop :=
  (∀ f ∈ st.flags.map (·.2), FlagFormOK rx f) ∧ (∀ s ∈ st.segments.map (·.2), SegmentFormOK rx s)

/-- A flag with every lookup table removed. -/
def stripFlag (f : Flag) : Flag :=
  { f with
    targets := f.targets.map fun t => { t with pre := none }
    contextTargets := f.contextTargets.map fun t => { t with pre := none }
    rules := f.rules.map fun r =>
      { r with clauses := r.clauses.map fun c => { c with pre := {} } } }

/-- The same store (same lookup keys, same order) with every table of every item removed. -/
def stripStore (st : Store) : Store :=
  { flags := st.flags.map fun e => (e.1, stripFlag e.2),
    segments := st.segments.map fun e => (e.1, stripSegment e.2) }

/-- The same clause, tables independently absent or built. -/
def ClauseFormEquiv (rx : RegexOracle) (c c' : Clause) : Prop :=
  ClauseFormOK rx c ∧ ClauseFormOK rx c' ∧ { c with pre := {} } = { c' with pre := {} }

/-- The same flag, every table independently absent or built. -/
def FlagFormEquiv (rx : RegexOracle) (f f' : Flag) : Prop :=
  FlagFormOK rx f ∧ FlagFormOK rx f' ∧ stripFlag f = stripFlag f'

/-- The same segment, every table independently absent or built. -/
def SegmentFormEquiv (rx : RegexOracle) (s s' : Segment) : Prop :=
  SegmentFormOK rx s ∧ SegmentFormOK rx s' ∧ stripSegment s = stripSegment s'

/-- The same store: same lookup keys in the same order, the items pairwise the same configuration,
every table of every item independently absent or built. -/
def StoreFormEquiv (rx : RegexOracle) (st st' : Store) : Prop :=
  StoreFormOK rx st ∧ StoreFormOK rx st' ∧ stripStore st = stripStore st'

/-! #### The relation contains what it should -/

theorem KeySetOK.none (vals : List String) : KeySetOK vals none := .inl rfl
theorem KeySetOK.built (vals : List String) : KeySetOK vals (preprocessStringSet vals) := .inr rfl

theorem ClauseFormOK.plain (c : Clause) (h : c.pre = {}) : ClauseFormOK rx c := by
  constructor <;> (left; rw [h])

theorem ClauseFormOK.built (c : Clause) :
    ClauseFormOK rx { c with pre := preprocessClause rx c } := ⟨.inr rfl, .inr rfl⟩

/-- A hand-built flag is `FormOK`. -/
theorem FlagFormOK.of_plain {f : Flag} (hf : PlainFlag f) (hc : ∀ t ∈ f.contextTargets, t.pre = none) :
    FlagFormOK rx f :=
  ⟨fun t ht => .inl (hf.1 t ht), fun t ht => .inl (hc t ht),
    fun r hr c hc => ClauseFormOK.plain rx c (hf.2 r hr c hc)⟩

/-- A hand-built segment is `FormOK`. -/
theorem SegmentFormOK.of_plain {s : Segment} (hs : PlainSegment s) : SegmentFormOK rx s := by
  obtain ⟨⟨h1, h2, h3⟩, h4⟩ := hs
  refine ⟨.inl (by rw [h1]), .inl (by rw [h1]), fun t ht => .inl (h2 t ht), fun t ht => .inl (h3 t ht),
    fun r hr c hc => ClauseFormOK.plain rx c (h4 r hr c hc)⟩

/-- What `PreprocessFlag` returns is `FormOK` (whatever tables the argument carried, the context
targets apart, which `PreprocessFlag` does not touch). -/
theorem FlagFormOK.preprocess {f : Flag} (hc : ∀ t ∈ f.contextTargets, KeySetOK t.values t.pre) :
    FlagFormOK rx (preprocessFlag rx f) := by
  refine ⟨?_, hc, ?_⟩
  · intro t ht
    simp only [preprocessFlag, List.mem_map] at ht
    obtain ⟨t0, _, rfl⟩ := ht
    exact .inr rfl
  · intro r hr c hc
    simp only [preprocessFlag, List.mem_map] at hr
    obtain ⟨r0, _, rfl⟩ := hr
    simp only [preprocessClauses, List.mem_map] at hc
    obtain ⟨c0, _, rfl⟩ := hc
    exact ClauseFormOK.built rx c0

/-- What `PreprocessSegment` returns is `FormOK`, whatever tables the argument carried. -/
theorem SegmentFormOK.preprocess (s : Segment) : SegmentFormOK rx (preprocessSegment rx s) := by
  refine ⟨.inr rfl, .inr rfl, ?_, ?_, ?_⟩
  · intro t ht
    simp only [preprocessSegment, List.mem_map] at ht
    obtain ⟨t0, _, rfl⟩ := ht
    exact .inr rfl
  · intro t ht
    simp only [preprocessSegment, List.mem_map] at ht
    obtain ⟨t0, _, rfl⟩ := ht
    exact .inr rfl
  · intro r hr c hc
    simp only [preprocessSegment, List.mem_map] at hr
    obtain ⟨r0, _, rfl⟩ := hr
    simp only [preprocessClauses, List.mem_map] at hc
    obtain ⟨c0, _, rfl⟩ := hc
    exact ClauseFormOK.built rx c0

theorem stripFlag_preprocess (f : Flag) : stripFlag (preprocessFlag rx f) = stripFlag f := by
  simp [stripFlag, preprocessFlag, preprocessClauses, List.map_map, Function.comp_def]

theorem stripSegment_preprocess (s : Segment) :
    stripSegment (preprocessSegment rx s) = stripSegment s := by
  simp [stripSegment, preprocessSegment, preprocessClauses, List.map_map, Function.comp_def]

/-- A flag and its preprocessed form are the same configuration. -/
theorem FlagFormEquiv.preprocess {f : Flag} (hf : FlagFormOK rx f) :
    FlagFormEquiv rx f (preprocessFlag rx f) :=
  ⟨hf, FlagFormOK.preprocess rx hf.2.1, (stripFlag_preprocess rx f).symm⟩

/-- A segment and its preprocessed form are the same configuration. -/
theorem SegmentFormEquiv.preprocess {s : Segment} (hs : SegmentFormOK rx s) :
    SegmentFormEquiv rx s (preprocessSegment rx s) :=
  ⟨hs, SegmentFormOK.preprocess rx s, (stripSegment_preprocess rx s).symm⟩

theorem FlagFormEquiv.symm {f f' : Flag} (h : FlagFormEquiv rx f f') : FlagFormEquiv rx f' f :=
  ⟨h.2.1, h.1, h.2.2.symm⟩
theorem FlagFormEquiv.trans {f g h : Flag} (h1 : FlagFormEquiv rx f g) (h2 : FlagFormEquiv rx g h) :
    FlagFormEquiv rx f h := ⟨h1.1, h2.2.1, h1.2.2.trans h2.2.2⟩
theorem StoreFormEquiv.symm {s s' : Store} (h : StoreFormEquiv rx s s') : StoreFormEquiv rx s' s :=
  ⟨h.2.1, h.1, h.2.2.symm⟩
theorem StoreFormEquiv.trans {s t u : Store} (h1 : StoreFormEquiv rx s t)
    (h2 : StoreFormEquiv rx t u) : StoreFormEquiv rx s u := ⟨h1.1, h2.2.1, h1.2.2.trans h2.2.2⟩

/-- **Mixed stores.**  Preprocessing an ARBITRARY subset of the flags (those whose lookup key
satisfies `p`) and an arbitrary subset of the segments (`q`) of a `FormOK` store — e.g. of a
hand-built one — gives a `FormEquiv` store. -/
theorem StoreFormEquiv.preprocess_subset {st : Store} (hst : StoreFormOK rx st)
    (p q : String → Bool) :
    StoreFormEquiv rx st
      { flags := st.flags.map fun e => (e.1, if p e.1 then preprocessFlag rx e.2 else e.2),
        segments := st.segments.map fun e =>
          (e.1, if q e.1 then preprocessSegment rx e.2 else e.2) } := by
  refine ⟨hst, ⟨?_, ?_⟩, ?_⟩
  · intro f hf
    simp only [List.map_map, List.mem_map, Function.comp] at hf
    obtain ⟨e, he, rfl⟩ := hf
    have h0 : FlagFormOK rx e.2 := hst.1 e.2 (List.mem_map.mpr ⟨e, he, rfl⟩)
    split
    · exact FlagFormOK.preprocess rx h0.2.1
    · exact h0
  · intro s hs
    simp only [List.map_map, List.mem_map, Function.comp] at hs
    obtain ⟨e, he, rfl⟩ := hs
    split
    · exact SegmentFormOK.preprocess rx e.2
    · exact hst.2 e.2 (List.mem_map.mpr ⟨e, he, rfl⟩)
  · simp only [stripStore, List.map_map]
    congr 1
    · apply List.map_congr_left
      intro e _
      simp only [Function.comp]
      split
      · rw [stripFlag_preprocess]
      · rfl
    · apply List.map_congr_left
      intro e _
      simp only [Function.comp]
      split
      · rw [stripSegment_preprocess]
      · rfl

/-! ### B. A `FormOK` item evaluates like the same item with every table removed -/

theorem findKey_formOK (key : String) (vals : List String) (tbl : Option (List String))
    (h : KeySetOK vals tbl) : findKey key vals none = findKey key vals tbl := by
  rcases h with h | h
  · rw [h]
  · rw [h, findKey_transparent]

theorem findValue_strip (c : Clause) (h : ClauseFormOK rx c) (v : J) :
    ({ c with pre := {} }).findValue v = c.findValue v := by
  rw [findValue_plain { c with pre := {} } rfl]
  rcases h.2 with h2 | h2
  · exact (findValue_plain c h2 v).symm
  · rcases preprocessClause_valuesMap rx c with h3 | ⟨h3, hall⟩
    · exact (findValue_plain c (h2.trans h3) v).symm
    · exact (findValue_table c (h2.trans h3) hall v).symm

theorem valueAsRegexp_strip (c : Clause) (h : ClauseFormOK rx c) (hop : c.op = "matches") (i : Nat) :
    ({ c with pre := {} }).valueAsRegexp rx i = c.valueAsRegexp rx i := by
  rcases h.1 with h1 | h1
  · unfold Clause.valueAsRegexp
    rw [h1]
  · have := valueAsRegexp_transparent rx c hop i
    unfold Clause.valueAsRegexp at this ⊢
    rw [h1]
    exact this.symm

theorem valueAsTimestamp_strip (c : Clause) (h : ClauseFormOK rx c)
    (hop : c.op = "before" ∨ c.op = "after") (i : Nat) :
    ({ c with pre := {} }).valueAsTimestamp i = c.valueAsTimestamp i := by
  rcases h.1 with h1 | h1
  · unfold Clause.valueAsTimestamp
    rw [h1]
  · have := valueAsTimestamp_transparent rx c hop i
    unfold Clause.valueAsTimestamp at this ⊢
    rw [h1]
    exact this.symm

theorem valueAsSemVer_strip (c : Clause) (h : ClauseFormOK rx c)
    (hop : c.op = "semVerEqual" ∨ c.op = "semVerLessThan" ∨ c.op = "semVerGreaterThan") (i : Nat) :
    ({ c with pre := {} }).valueAsSemVer i = c.valueAsSemVer i := by
  rcases h.1 with h1 | h1
  · unfold Clause.valueAsSemVer
    rw [h1]
  · have := valueAsSemVer_transparent rx c hop i
    unfold Clause.valueAsSemVer at this ⊢
    rw [h1]
    exact this.symm

theorem doOp_strip (c : Clause) (h : ClauseFormOK rx c) (u cv : J) (i : Nat) :
    doOp rx { c with pre := {} } u cv i = doOp rx c u cv i :=
  doOp_congr rx _ _ u cv i rfl
    (fun hop => valueAsRegexp_strip rx c h hop i)
    (fun hop => valueAsTimestamp_strip rx c h hop i)
    (fun hop => valueAsSemVer_strip rx c h hop i)

theorem matchAny_strip (c : Clause) (h : ClauseFormOK rx c) (u : J) :
    matchAny rx { c with pre := {} } u = matchAny rx c u := by
  unfold matchAny
  simp only [findValue_strip rx c h u]
  have : (fun cv i => doOp rx { c with pre := {} } u cv i) = (fun cv i => doOp rx c u cv i) := by
    funext cv i; exact doOp_strip rx c h u cv i
  rw [this]

/-- A clause whose tables are each absent or built matches exactly like the clause without tables. -/
theorem clause_strip (c : Clause) (h : ClauseFormOK rx c) (ctx : Ctx) :
    clauseMatchNoSeg rx ctx { c with pre := {} } = clauseMatchNoSeg rx ctx c := by
  have hm : matchAny rx { c with pre := {} } = matchAny rx c := funext (matchAny_strip rx c h)
  unfold clauseMatchNoSeg clauseMatchByKind
  simp only [hm]

theorem targetMatch_strip (ctx : Ctx) (t : Target) (h : KeySetOK t.values t.pre) :
    targetMatch ctx { t with pre := none } = targetMatch ctx t := by
  unfold targetMatch Target.findKey
  cases ctx.byKind t.contextKind with
  | none => rfl
  | some sc => simp only [findKey_formOK sc.key t.values t.pre h]

theorem segTargetMatch_strip (ctx : Ctx) (t : SegmentTarget) (h : KeySetOK t.values t.pre) :
    segTargetMatch ctx { t with pre := none } = segTargetMatch ctx t := by
  unfold segTargetMatch SegmentTarget.findKey
  cases ctx.keyByKind t.contextKind with
  | none => rfl
  | some k => exact findKey_formOK k t.values t.pre h

theorem any_congr_mem {α} (l : List α) (p q : α → Bool) (h : ∀ a ∈ l, p a = q a) :
    l.any p = l.any q := by
  induction l with
  | nil => rfl
  | cons a l ih =>
    simp only [List.any_cons, h a (by simp), ih (fun b hb => h b (by simp [hb]))]

theorem segLists_strip (s : Segment) (hs : SegmentFormOK rx s) (ctx : Ctx) :
    segLists ctx (stripSegment s) = segLists ctx s := by
  obtain ⟨h1, h2, h3, h4, _⟩ := hs
  apply segLists_congr
  · intro k; exact findKey_formOK k s.included _ h1
  · intro k; exact findKey_formOK k s.excluded _ h2
  · simp only [stripSegment, List.any_map]
    exact any_congr_mem _ _ _ (fun t ht => segTargetMatch_strip ctx t (h3 t ht))
  · simp only [stripSegment, List.any_map]
    exact any_congr_mem _ _ _ (fun t ht => segTargetMatch_strip ctx t (h4 t ht))

theorem anyTargetMatch_strip (f : Flag) (hf : FlagFormOK rx f) (ctx : Ctx) :
    anyTargetMatch ctx (stripFlag f) = anyTargetMatch ctx f := by
  have hsome : ∀ (l : List Target), (∀ t ∈ l, KeySetOK t.values t.pre) →
      (l.map fun t => ({ t with pre := none } : Target)).findSome? (targetMatch ctx) =
        l.findSome? (targetMatch ctx) := by
    intro l hl
    induction l with
    | nil => rfl
    | cons a l ih =>
      simp only [List.map_cons, List.findSome?_cons,
        targetMatch_strip ctx a (hl a (by simp)), ih (fun t ht => hl t (by simp [ht]))]
  have hfind : ∀ (v : Int),
      ((f.targets.map fun t => ({ t with pre := none } : Target)).find?
          (fun t1 => t1.variation == v)) =
        (f.targets.find? (fun t1 => t1.variation == v)).map (fun t => { t with pre := none }) := by
    intro v; rw [List.find?_map]; rfl
  have e1 : (stripFlag f).contextTargets = f.contextTargets.map fun t => { t with pre := none } := rfl
  have e2 : (stripFlag f).targets = f.targets.map fun t => { t with pre := none } := rfl
  unfold anyTargetMatch
  rw [e1, e2]
  by_cases hE : f.contextTargets.isEmpty = true
  · have hE' : (f.contextTargets.map fun t => ({ t with pre := none } : Target)).isEmpty = true := by
      rw [List.isEmpty_map]; exact hE
    rw [if_pos hE, if_pos hE']; exact hsome _ hf.1
  · have hE' : ¬ (f.contextTargets.map fun t => ({ t with pre := none } : Target)).isEmpty = true := by
      rw [List.isEmpty_map]; exact hE
    rw [if_neg hE, if_neg hE']
    have hgen : ∀ (l : List Target), (∀ t ∈ l, KeySetOK t.values t.pre) →
        (l.map fun t => ({ t with pre := none } : Target)).findSome? (fun t =>
          if (t.contextKind == "" || t.contextKind == defaultKind) && t.values.isEmpty then
            match (f.targets.map fun t => ({ t with pre := none } : Target)).find?
                (fun t1 => t1.variation == t.variation) with
            | some t1 => targetMatch ctx t1
            | none => none
          else targetMatch ctx t) =
        l.findSome? (fun t =>
          if (t.contextKind == "" || t.contextKind == defaultKind) && t.values.isEmpty then
            match f.targets.find? (fun t1 => t1.variation == t.variation) with
            | some t1 => targetMatch ctx t1
            | none => none
          else targetMatch ctx t) := by
      intro l hl
      induction l with
      | nil => rfl
      | cons a l ih =>
        have ha : (if (a.contextKind == "" || a.contextKind == defaultKind) && a.values.isEmpty then
              match (f.targets.map fun t => ({ t with pre := none } : Target)).find?
                  (fun t1 => t1.variation == a.variation) with
              | some t1 => targetMatch ctx t1
              | none => none
            else targetMatch ctx { a with pre := none }) =
            (if (a.contextKind == "" || a.contextKind == defaultKind) && a.values.isEmpty then
              match f.targets.find? (fun t1 => t1.variation == a.variation) with
              | some t1 => targetMatch ctx t1
              | none => none
            else targetMatch ctx a) := by
          split
          · rw [hfind a.variation]
            cases h : List.find? (fun t1 => t1.variation == a.variation) f.targets with
            | none => rfl
            | some b =>
              exact targetMatch_strip ctx b (hf.1 b (List.mem_of_find?_eq_some h))
          · exact targetMatch_strip ctx a (hl a (by simp))
        simp only [List.map_cons, List.findSome?_cons]
        rw [ha, ih (fun t ht => hl t (by simp [ht]))]
    exact hgen _ hf.2.1

/-! ### C. Whole evaluations against a stripped store (code-shaped model, every side channel) -/

/-- The same environment with every table of every stored item removed. -/
def stripEnv (env : Env) : Env := { env with store := stripStore env.store }

theorem findSegment_strip (st : Store) (k : String) :
    (stripStore st).findSegment k = (st.findSegment k).map stripSegment := by
  unfold Store.findSegment stripStore
  rw [List.find?_map, Option.map_map, Option.map_map]; rfl

theorem findFlag_strip (st : Store) (k : String) :
    (stripStore st).findFlag k = (st.findFlag k).map stripFlag := by
  unfold Store.findFlag stripStore
  rw [List.find?_map, Option.map_map, Option.map_map]; rfl

section modelStrip
variable (env : Env) (rec rec' : SegRec)
  (hrec : ∀ seg ∈ env.store.segments.map (·.2), ∀ chain st,
    rec' (stripSegment seg) chain st = rec seg chain st)
include hrec

theorem segMatchValues_strip (negate : Bool) (chain : List String) (vs : List J) (st : St) :
    segMatchValues rec' (stripEnv env) negate chain vs st =
      segMatchValues rec env negate chain vs st := by
  induction vs generalizing st with
  | nil => rfl
  | cons v vs ih =>
    cases v with
    | str k =>
      have hf : (stripEnv env).store.findSegment k = (env.store.findSegment k).map stripSegment :=
        findSegment_strip env.store k
      simp only [segMatchValues, hf]
      cases hs : env.store.findSegment k with
      | none => simp only [Option.map_none, ih]
      | some seg =>
        simp only [Option.map_some, hrec seg (Store.findSegment_mem hs), ih]
    | null => simp only [segMatchValues, ih]
    | bool b => simp only [segMatchValues, ih]
    | num q => simp only [segMatchValues, ih]
    | arr xs => simp only [segMatchValues, ih]
    | obj kvs => simp only [segMatchValues, ih]
    | raw w => simp only [segMatchValues, ih]

theorem clauseMatch_strip (chain : List String) (c : Clause) (hc : ClauseFormOK env.rx c) (st : St) :
    clauseMatch rec' (stripEnv env) chain { c with pre := {} } st =
      clauseMatch rec env chain c st := by
  have h2 : clauseMatchNoSeg (stripEnv env).rx (stripEnv env).ctx { c with pre := {} } =
      clauseMatchNoSeg env.rx env.ctx c := clause_strip env.rx c hc env.ctx
  unfold clauseMatch
  simp only [h2, segMatchValues_strip env rec rec' hrec]

theorem clausesMatch_strip (chain : List String) (cs : List Clause)
    (hcs : ∀ c ∈ cs, ClauseFormOK env.rx c) (st : St) :
    clausesMatch rec' (stripEnv env) chain (cs.map fun c => { c with pre := {} }) st =
      clausesMatch rec env chain cs st := by
  induction cs generalizing st with
  | nil => rfl
  | cons c cs ih =>
    have ih' := fun st => ih (fun c hc => hcs c (by simp [hc])) st
    simp only [List.map_cons, clausesMatch,
      clauseMatch_strip env rec rec' hrec chain c (hcs c (by simp)), ih']

theorem segRuleMatch_strip (chain : List String) (key salt : String) (r : SegmentRule)
    (hr : ∀ c ∈ r.clauses, ClauseFormOK env.rx c) (st : St) :
    segRuleMatch rec' (stripEnv env) chain key salt
        { r with clauses := r.clauses.map fun c => { c with pre := {} } } st =
      segRuleMatch rec env chain key salt r st := by
  unfold segRuleMatch
  simp only [clausesMatch_strip env rec rec' hrec chain r.clauses hr]
  rfl

theorem segRules_strip (chain : List String) (s s' : Segment) (hk : s'.key = s.key)
    (hsalt : s'.salt = s.salt) (rs : List SegmentRule)
    (hrs : ∀ r ∈ rs, ∀ c ∈ r.clauses, ClauseFormOK env.rx c) (st : St) :
    segRules rec' (stripEnv env) chain s'
        (rs.map fun r => { r with clauses := r.clauses.map fun c => { c with pre := {} } }) st =
      segRules rec env chain s rs st := by
  induction rs generalizing st with
  | nil => rfl
  | cons r rs ih =>
    have ih' := fun st => ih (fun r hr => hrs r (by simp [hr])) st
    simp only [List.map_cons, segRules, hk, hsalt,
      segRuleMatch_strip env rec rec' hrec chain s.key s.salt r (hrs r (by simp)), ih']

theorem segBody_strip (s : Segment) (hs : SegmentFormOK env.rx s) (chain : List String) (st : St) :
    segBody rec' (stripEnv env) (stripSegment s) chain st = segBody rec env s chain st := by
  have hl : segLists (stripEnv env).ctx (stripSegment s) = segLists env.ctx s :=
    segLists_strip env.rx s hs env.ctx
  have hr : ∀ chain' st, segRules rec' (stripEnv env) chain' (stripSegment s)
      (stripSegment s).rules st = segRules rec env chain' s s.rules st :=
    fun chain' st => segRules_strip env rec rec' hrec chain' s (stripSegment s) rfl rfl
      s.rules hs.2.2.2.2 st
  unfold segBody
  simp only [hl, hr]
  rfl

end modelStrip

theorem segContains_strip (env : Env) (hst : StoreFormOK env.rx env.store) (n : Nat) :
    ∀ s, SegmentFormOK env.rx s → ∀ chain st,
      segContains n (stripEnv env) (stripSegment s) chain st = segContains n env s chain st := by
  induction n with
  | zero => intro s _ chain st; rfl
  | succ n ih =>
    intro s hs chain st
    exact segBody_strip env (segContains n env) (segContains n (stripEnv env))
      (fun seg hseg chain st => ih seg (hst.2 seg hseg) chain st) s hs chain st

theorem isExperimentResult_strip (f : Flag) (r : Reason) :
    isExperimentResult (stripFlag f) r = isExperimentResult f r := by
  have hrules : (stripFlag f).rules =
      f.rules.map fun r => { r with clauses := r.clauses.map fun c => { c with pre := {} } } := rfl
  have ht : (stripFlag f).trackEventsFallthrough = f.trackEventsFallthrough := rfl
  unfold isExperimentResult
  simp only [hrules, ht, List.getElem?_map]
  cases f.rules[r.ruleIndex.toNat]? <;> rfl

section flagsStrip
variable (env : Env) (seg seg' : SegRec)
  (hseg : ∀ s ∈ env.store.segments.map (·.2), ∀ chain st,
    seg' (stripSegment s) chain st = seg s chain st)
  (rec rec' : FlagRec)
  (hrec : ∀ pf ∈ env.store.flags.map (·.2), ∀ chain st,
    rec' (stripFlag pf) chain st = rec pf chain st)

include hrec in
theorem prereqLoop_strip (f : Flag) (chain : List String) (ps : List Prereq) (st : St) :
    prereqLoop rec' (stripEnv env) (stripFlag f) chain ps st =
      prereqLoop rec env f chain ps st := by
  induction ps generalizing st with
  | nil => rfl
  | cons p ps ih =>
    have hf : (stripEnv env).store.findFlag p.key = (env.store.findFlag p.key).map stripFlag :=
      findFlag_strip env.store p.key
    simp only [prereqLoop, hf]
    cases hs : env.store.findFlag p.key with
    | none => rfl
    | some pf =>
      simp only [Option.map_some, hrec pf (Store.findFlag_mem hs), ih, isExperimentResult_strip]
      rfl

include hrec in
theorem checkPrereqs_strip (f : Flag) (chain : List String) (st : St) :
    checkPrereqs rec' (stripEnv env) (stripFlag f) chain st = checkPrereqs rec env f chain st := by
  unfold checkPrereqs
  simp only [prereqLoop_strip env rec rec' hrec]
  rfl

include hseg in
theorem rulesLoop_strip (f : Flag) (rs : List FlagRule)
    (hrs : ∀ r ∈ rs, ∀ c ∈ r.clauses, ClauseFormOK env.rx c) (i : Nat) (st : St) :
    rulesLoop seg' (stripEnv env) (stripFlag f)
        (rs.map fun r => { r with clauses := r.clauses.map fun c => { c with pre := {} } }) i st =
      rulesLoop seg env f rs i st := by
  induction rs generalizing i st with
  | nil => rfl
  | cons r rs ih =>
    have ih' := fun i st => ih (fun r hr => hrs r (by simp [hr])) i st
    simp only [List.map_cons, rulesLoop,
      clausesMatch_strip env seg seg' hseg [] r.clauses (hrs r (by simp)), ih']
    rfl

include hseg hrec in
theorem evalBody_strip (f : Flag) (hf : FlagFormOK env.rx f) (chain : List String) (st : St) :
    evalBody rec' seg' (stripEnv env) (stripFlag f) chain st = evalBody rec seg env f chain st := by
  have ht : anyTargetMatch (stripEnv env).ctx (stripFlag f) = anyTargetMatch env.ctx f :=
    anyTargetMatch_strip env.rx f hf env.ctx
  have hr := rulesLoop_strip env seg seg' hseg f f.rules hf.2.2 0
  have hrules : (stripFlag f).rules =
      f.rules.map fun r => { r with clauses := r.clauses.map fun c => { c with pre := {} } } := rfl
  unfold evalBody
  simp only [checkPrereqs_strip env rec rec' hrec, ht, hrules, hr]
  rfl

end flagsStrip

theorem evalFlag_strip (env : Env) (hst : StoreFormOK env.rx env.store) (sf n : Nat) :
    ∀ f, FlagFormOK env.rx f → ∀ chain st,
      evalFlag sf n (stripEnv env) (stripFlag f) chain st = evalFlag sf n env f chain st := by
  induction n with
  | zero => intro f _ chain st; rfl
  | succ n ih =>
    intro f hf chain st
    exact evalBody_strip env (segContains sf env) (segContains sf (stripEnv env))
      (fun s hs chain st => segContains_strip env hst sf s (hst.2 s hs) chain st)
      (evalFlag sf n env) (evalFlag sf n (stripEnv env))
      (fun pf hpf chain st => ih pf (hst.1 pf hpf) chain st) f hf chain st

theorem fuel_strip (st : Store) :
    flagFuel (stripStore st) = flagFuel st ∧ segFuel (stripStore st) = segFuel st := by
  unfold flagFuel segFuel stripStore
  simp only [List.map_map]
  exact ⟨rfl, rfl⟩

/-- Removing every table of every stored item and of the evaluated flag changes nothing that can be
observed about the call, provided each table was absent or what preprocessing builds. -/
theorem evaluate_strip (env : Env) (hst : StoreFormOK env.rx env.store) (f : Flag)
    (hf : FlagFormOK env.rx f) : evaluate (stripEnv env) (stripFlag f) = evaluate env f := by
  have hE : evalFlag (segFuel (stripEnv env).store) (flagFuel (stripEnv env).store) (stripEnv env)
      (stripFlag f) [] {} =
      evalFlag (segFuel env.store) (flagFuel env.store) env f [] {} := by
    have h := fuel_strip env.store
    show evalFlag (segFuel (stripStore env.store)) (flagFuel (stripStore env.store)) _ _ _ _ = _
    rw [h.1, h.2]
    exact evalFlag_strip env hst _ _ f hf [] {}
  unfold evaluate
  simp only [hE, isExperimentResult_strip]
  rfl

/-- **Preprocessing is transparent, item by item (audit #47).**  Two stores holding the same
configuration under the same lookup keys, and two forms of the same flag, where EVERY lookup table
of every flag, segment, target and clause is independently either absent or what `PreprocessFlag` /
`PreprocessSegment` build — so any mixture of hand-built, decoded, builder-made and explicitly
preprocessed items — give exactly the same observation: value, index, reason with big-segments
status, experiment bit, prerequisite events, log lines, store lookups, big-segment queries and
membership checks.  For the Go code: an evaluation can never tell which of the items it touches
went through `PreprocessFlag` / `PreprocessSegment`. -/
theorem evaluate_formEquiv (env : Env) {st st' : Store} {f f' : Flag}
    (hs : StoreFormEquiv env.rx st st') (hf : FlagFormEquiv env.rx f f') :
    evaluate { env with store := st' } f' = evaluate { env with store := st } f := by
  have h1 := evaluate_strip { env with store := st } hs.1 f hf.1
  have h2 := evaluate_strip { env with store := st' } hs.2.1 f' hf.2.1
  rw [← h1, ← h2]
  show evaluate { env with store := stripStore st' } (stripFlag f') =
    evaluate { env with store := stripStore st } (stripFlag f)
  rw [hs.2.2, hf.2.2]

/-- The segment-level counterpart, for any fuel and any incoming state (cache, status, side
channels): membership of a context in two forms of the same segment against two forms of the same
store is decided identically, with identical effects on the per-call state. -/
theorem segContains_formEquiv (env : Env) {st st' : Store} {s s' : Segment}
    (hs : StoreFormEquiv env.rx st st') (hseg : SegmentFormEquiv env.rx s s') (n : Nat)
    (chain : List String) (σ : St) :
    segContains n { env with store := st' } s' chain σ =
      segContains n { env with store := st } s chain σ := by
  have h1 := segContains_strip { env with store := st } hs.1 n s hseg.1 chain σ
  have h2 := segContains_strip { env with store := st' } hs.2.1 n s' hseg.2.1 chain σ
  rw [← h1, ← h2]
  show segContains n { env with store := stripStore st' } (stripSegment s') chain σ =
    segContains n { env with store := stripStore st } (stripSegment s) chain σ
  rw [hs.2.2, hseg.2.2]

/-- `evaluate_transparent` is the all-or-nothing instance. -/
theorem evaluate_mixed (env : Env) (hst : StoreFormOK env.rx env.store) (f : Flag)
    (hf : FlagFormOK env.rx f) (p q : String → Bool) (b : Bool) :
    evaluate { env with store :=
        { flags := env.store.flags.map fun e => (e.1, if p e.1 then preprocessFlag env.rx e.2 else e.2),
          segments := env.store.segments.map fun e =>
            (e.1, if q e.1 then preprocessSegment env.rx e.2 else e.2) } }
      (if b then preprocessFlag env.rx f else f) = evaluate env f := by
  have hs := StoreFormEquiv.preprocess_subset env.rx hst p q
  have hf' : FlagFormEquiv env.rx f (if b then preprocessFlag env.rx f else f) := by
    cases b
    · exact ⟨hf, hf, rfl⟩
    · exact FlagFormEquiv.preprocess env.rx hf
  exact evaluate_formEquiv env hs hf'

/-! ### D. Non-vacuity on a non-empty store (audit #48)

A store with a prerequisite flag and a segment, and an evaluated flag, which between them carry a
clause of every table kind (compiled regexps, parsed timestamps, parsed versions, the `in`
equality set), a user-target key set, the two key sets of a segment and the key sets of its
context lists.  The context is chosen so that the evaluation actually consults every table. -/

namespace Ex48

/-- A toy regular-expression oracle: `(` does not compile, every other pattern matches itself. -/
def rxEx : RegexOracle := fun p s => if p = "(" then none else some (p == s)

def ref (s : String) : Ref := { raw := s, single := s }

def cRegex : Clause := { attr := ref "name", op := "matches", values := [.str "(", .str "bob"] }
def cTime : Clause := { attr := ref "t", op := "before", values := [.str "x", .num 5] }
def cSem : Clause := { attr := ref "v", op := "semVerEqual", values := [.num 1, .str "1.2.3"] }
def cIn : Clause := { attr := ref "a", op := "in", values := [.num 1, .str "1"] }
def cSeg : Clause := { op := "segmentMatch", values := [.str "s"] }

def seg : Segment :=
  { key := "s", included := ["zz"], excluded := ["yy"],
    includedContexts := [{ contextKind := "org", values := ["o1"] }],
    excludedContexts := [{ contextKind := "org", values := ["o2"] }],
    rules := [{ clauses := [cRegex, cIn] }] }

def pflag : Flag :=
  { key := "p", on := true, variations := [.bool false, .bool true],
    targets := [{ values := ["nobody"], variation := 0 }],
    rules := [{ clauses := [cTime, cSem], vr := { variation := some 1 } }],
    fallthrough := { variation := some 0 } }

def flag : Flag :=
  { key := "f", on := true, prerequisites := [⟨"p", 1⟩], variations := [.str "no", .str "yes"],
    targets := [{ values := ["k1", "k2"], variation := 0 }],
    rules := [{ clauses := [cIn, cRegex, cTime, cSem, cSeg], vr := { variation := some 1 } }],
    fallthrough := { variation := some 0 } }

def store : Store := Store.ofLists [pflag] [seg]

def ctx : Ctx :=
  .single { kind := "user", key := "u", name := some "bob",
            attrs := [("t", .num 1), ("v", .str "1.2.3"), ("a", .str "1")] }

def env : Env := { opts := { logger := true }, store := store, bs := none, ctx := ctx, rx := rxEx }

/-- Every table kind is really built by preprocessing these items. -/
example :
    (preprocessClause rxEx cRegex).values =
      some [{ valid := false }, { valid := true, regex := some "bob" }] ∧
    (preprocessClause rxEx cIn).valuesMap = some [.num 1, .str "1"] ∧
    ((preprocessClause rxEx cTime).values.map fun l => l.map (·.valid)) = some [false, true] ∧
    ((preprocessClause rxEx cSem).values.map fun l => l.map (·.valid)) = some [false, true] ∧
    ((preprocessFlag rxEx flag).targets.map (·.pre)) = [some ["k1", "k2"]] ∧
    (preprocessSegment rxEx seg).pre = { includeMap := some ["zz"], excludeMap := some ["yy"] } ∧
    ((preprocessSegment rxEx seg).includedContexts.map (·.pre)) = [some ["o1"]] ∧
    ((preprocessSegment rxEx seg).excludedContexts.map (·.pre)) = [some ["o2"]] := by
  refine ⟨?_, ?_, ?_, ?_, rfl, rfl, rfl, rfl⟩
  · simp [preprocessClause, cRegex, parseRegexp, rxEx, J.unraw]
  · simp [preprocessClause, cIn, asPrimKey, PrimKey.isValid]
  · decide +kernel
  · decide +kernel

theorem plainFlag_flag : PlainFlag flag := by
  constructor
  · intro t ht; simp [flag] at ht; subst ht; rfl
  · intro r hr c hc
    simp [flag] at hr; subst hr
    simp at hc
    rcases hc with rfl | rfl | rfl | rfl | rfl <;> rfl

theorem plainStore_store : PlainStore store := by
  constructor
  · intro f hf
    simp [store, Store.ofLists] at hf; subst hf
    constructor
    · intro t ht; simp [pflag] at ht; subst ht; rfl
    · intro r hr c hc
      simp [pflag] at hr; subst hr
      simp at hc
      rcases hc with rfl | rfl <;> rfl
  · intro s hs
    simp [store, Store.ofLists] at hs; subst hs
    refine ⟨⟨rfl, ?_, ?_⟩, ?_⟩
    · intro t ht; simp [seg] at ht; subst ht; rfl
    · intro t ht; simp [seg] at ht; subst ht; rfl
    · intro r hr c hc
      simp [seg] at hr; subst hr
      simp at hc
      rcases hc with rfl | rfl <;> rfl

/-- The hypotheses of `evaluate_transparent` hold of this non-empty store … -/
example : evaluate (preEnv env) (preprocessFlag rxEx flag) = evaluate env flag :=
  evaluate_transparent env plainStore_store flag plainFlag_flag

theorem storeFormOK_store : StoreFormOK rxEx store :=
  ⟨fun f hf => FlagFormOK.of_plain rxEx (plainStore_store.1 f hf) (by
      simp [store, Store.ofLists] at hf; subst hf; intro t ht; simp [pflag] at ht),
   fun s hs => SegmentFormOK.of_plain rxEx (plainStore_store.2 s hs)⟩

theorem flagFormOK_flag : FlagFormOK rxEx flag :=
  FlagFormOK.of_plain rxEx plainFlag_flag (by intro t ht; simp [flag] at ht)

/-- … and of `evaluate_formEquiv` in a genuinely mixed case: the segment is preprocessed, the
prerequisite flag and the evaluated flag stay hand-built. -/
example :
    evaluate { env with store := Store.ofLists [pflag] [preprocessSegment rxEx seg] } flag =
      evaluate env flag :=
  evaluate_mixed env storeFormOK_store flag flagFormOK_flag (fun _ => false) (fun _ => true) false

/-- … and the other way round: flags preprocessed, the segment hand-built. -/
example :
    evaluate { env with store := Store.ofLists [preprocessFlag rxEx pflag] [seg] }
        (preprocessFlag rxEx flag) = evaluate env flag :=
  evaluate_mixed env storeFormOK_store flag flagFormOK_flag (fun _ => true) (fun _ => false) true

/-- The evaluation is not a degenerate one: the prerequisite is evaluated and satisfied (its rule
uses the timestamp and version tables), no target matches, and the rule — all five clauses, the
segment reference included (the segment's rule uses the regexp and `in` tables) — matches. -/
example :
    (evaluate env flag).result.detail.index = some 1 ∧
    (evaluate env flag).result.detail.reason.kind = .ruleMatch ∧
    (evaluate env flag).events.length = 1 ∧
    (evaluate env flag).segLookups = ["s"] ∧ (evaluate env flag).logs = [] := by
  decide +kernel

end Ex48

#print axioms evaluate_strip
#print axioms evaluate_formEquiv
#print axioms segContains_formEquiv
#print axioms evaluate_mixed
#print axioms StoreFormEquiv.preprocess_subset

end LD.C14

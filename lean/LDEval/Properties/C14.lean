/-
  C14 — Preprocessing is a transparent optimisation.

  "Evaluation results … are identical whether a flag or segment was obtained by JSON decoding, by
  the builders, by explicit preprocessing of a hand-built value, or hand-built with no
  preprocessing at all; precomputed lookup tables and pre-parsed operands never change what
  matches."

  JSON decoding and the builders produce `preprocessFlag rx f` / `preprocessSegment rx s` of the
  plain value; a hand-built value has every table absent (`pre := {}` / `pre := none`).  Every
  theorem below compares `{ x with pre := <what preprocessing builds> }` with
  `{ x with pre := <absent> }`; the regular-expression oracle `rx` is arbitrary.
-/
import LDEval.Proofs.ClauseLemmas

namespace LD.C14

variable (rx : RegexOracle)

/-! ### 1. Key sets -/

/-- The precomputed key set (built only for a non-empty list) answers like the linear search. -/
theorem findKey_transparent (key : String) (vals : List String) :
    findKey key vals (preprocessStringSet vals) = findKey key vals none := by
  unfold findKey preprocessStringSet
  cases h : vals.isEmpty <;> simp

/-! ### 2. The equality-set table of an `in` clause -/

/-- The equality-set table (built only for `in` with more than one value, all primitive) answers
exactly like the typed linear search, for every context value — arrays, objects, null and
mixed types (`1` vs `"1"`) included. -/
theorem findValue_transparent (c : Clause) (v : J) :
    ({ c with pre := preprocessClause rx c }).findValue v = ({ c with pre := {} }).findValue v := by
  rw [findValue_plain { c with pre := {} } rfl]
  rcases preprocessClause_valuesMap rx c with h | ⟨h, hall⟩
  · exact findValue_plain { c with pre := preprocessClause rx c } h v
  · exact findValue_table { c with pre := preprocessClause rx c } h hall v

/-! ### 3. Pre-parsed operands -/

theorem valueAsRegexp_transparent (c : Clause) (hop : c.op = "matches") (i : Nat) :
    ({ c with pre := preprocessClause rx c }).valueAsRegexp rx i =
      ({ c with pre := {} }).valueAsRegexp rx i := by
  unfold Clause.valueAsRegexp
  simp only [preprocessClause_values_matches rx c hop, List.getElem?_map]
  cases c.values[i]? with
  | none => rfl
  | some v => simp only [Option.map_some, Option.bind_some]; cases parseRegexp rx v <;> rfl

theorem valueAsTimestamp_transparent (c : Clause) (hop : c.op = "before" ∨ c.op = "after")
    (i : Nat) :
    ({ c with pre := preprocessClause rx c }).valueAsTimestamp i =
      ({ c with pre := {} }).valueAsTimestamp i := by
  unfold Clause.valueAsTimestamp
  simp only [preprocessClause_values_date rx c hop, List.getElem?_map]
  cases c.values[i]? with
  | none => rfl
  | some v => simp only [Option.map_some, Option.bind_some]; cases Time.valueToTimestamp v <;> rfl

theorem valueAsSemVer_transparent (c : Clause)
    (hop : c.op = "semVerEqual" ∨ c.op = "semVerLessThan" ∨ c.op = "semVerGreaterThan") (i : Nat) :
    ({ c with pre := preprocessClause rx c }).valueAsSemVer i =
      ({ c with pre := {} }).valueAsSemVer i := by
  unfold Clause.valueAsSemVer
  simp only [preprocessClause_values_semver rx c hop, List.getElem?_map]
  cases c.values[i]? with
  | none => rfl
  | some v => simp only [Option.map_some, Option.bind_some]; cases parseSemVer v <;> rfl

/-! ### 4. Operators -/

theorem doOp_transparent (c : Clause) (u cv : J) (i : Nat) :
    doOp rx { c with pre := preprocessClause rx c } u cv i = doOp rx { c with pre := {} } u cv i :=
  doOp_congr rx _ _ u cv i rfl
    (fun h => valueAsRegexp_transparent rx c h i)
    (fun h => valueAsTimestamp_transparent rx c h i)
    (fun h => valueAsSemVer_transparent rx c h i)

theorem matchAny_transparent (c : Clause) (u : J) :
    matchAny rx { c with pre := preprocessClause rx c } u = matchAny rx { c with pre := {} } u := by
  unfold matchAny
  simp only [findValue_transparent rx c u]
  have : (fun cv i => doOp rx { c with pre := preprocessClause rx c } u cv i) =
      (fun cv i => doOp rx { c with pre := {} } u cv i) := by
    funext cv i; exact doOp_transparent rx c u cv i
  rw [this]

/-! ### 5. Clauses -/

theorem clause_transparent (c : Clause) (ctx : Ctx) :
    clauseMatchNoSeg rx ctx { c with pre := preprocessClause rx c } =
      clauseMatchNoSeg rx ctx { c with pre := {} } := by
  have h : matchAny rx { c with pre := preprocessClause rx c } = matchAny rx { c with pre := {} } :=
    funext (matchAny_transparent rx c)
  unfold clauseMatchNoSeg clauseMatchByKind
  simp only [h]

/-! ### 6. Segment lists and flag targets -/

theorem segTargetMatch_transparent (ctx : Ctx) (t : SegmentTarget) :
    segTargetMatch ctx { t with pre := preprocessStringSet t.values } =
      segTargetMatch ctx { t with pre := none } := by
  unfold segTargetMatch SegmentTarget.findKey
  cases ctx.keyByKind t.contextKind with
  | none => rfl
  | some k => exact findKey_transparent k t.values

/-- A segment with every lookup table absent (what a hand-built value is). -/
def stripSegment (s : Segment) : Segment :=
  { s with
    pre := {}
    includedContexts := s.includedContexts.map fun t => { t with pre := none }
    excludedContexts := s.excludedContexts.map fun t => { t with pre := none }
    rules := s.rules.map fun r =>
      { r with clauses := r.clauses.map fun c => { c with pre := {} } } }

/-- `s` is hand-built: no list table at all. -/
def PlainLists (s : Segment) : Prop :=
  s.pre = {} ∧ (∀ t ∈ s.includedContexts, t.pre = none) ∧ (∀ t ∈ s.excludedContexts, t.pre = none)

theorem segLists_congr (ctx : Ctx) (s s' : Segment)
    (hi : ∀ k, findKey k s.included s.pre.includeMap = findKey k s'.included s'.pre.includeMap)
    (he : ∀ k, findKey k s.excluded s.pre.excludeMap = findKey k s'.excluded s'.pre.excludeMap)
    (hic : s.includedContexts.any (segTargetMatch ctx) = s'.includedContexts.any (segTargetMatch ctx))
    (hec : s.excludedContexts.any (segTargetMatch ctx) = s'.excludedContexts.any (segTargetMatch ctx)) :
    segLists ctx s = segLists ctx s' := by
  unfold segLists
  simp only [hic, hec]
  cases ctx.keyByKind defaultKind with
  | none => rfl
  | some k => simp only [hi k, he k]

/-- The four list checks of a preprocessed segment decide exactly as those of the same segment
with every table removed — whatever tables `s` carried before. -/
theorem segLists_transparent (s : Segment) (ctx : Ctx) :
    segLists ctx (preprocessSegment rx s) = segLists ctx (stripSegment s) := by
  apply segLists_congr
  · intro k; exact findKey_transparent k s.included
  · intro k; exact findKey_transparent k s.excluded
  · simp only [preprocessSegment, stripSegment, List.any_map]
    congr 1; funext t; exact segTargetMatch_transparent ctx t
  · simp only [preprocessSegment, stripSegment, List.any_map]
    congr 1; funext t; exact segTargetMatch_transparent ctx t

theorem map_strip_id {α} (l : List α) (g : α → α) (h : ∀ t ∈ l, g t = t) : l.map g = l := by
  induction l with
  | nil => rfl
  | cons a l ih =>
    simp only [List.map_cons, h a (by simp), ih (fun t ht => h t (by simp [ht]))]

/-- For a hand-built segment, preprocessing does not change the list checks. -/
theorem segLists_transparent_plain (s : Segment) (hs : PlainLists s) (ctx : Ctx) :
    segLists ctx (preprocessSegment rx s) = segLists ctx s := by
  rw [segLists_transparent]
  obtain ⟨h1, h2, h3⟩ := hs
  apply segLists_congr
  · intro k; simp only [stripSegment, h1]
  · intro k; simp only [stripSegment, h1]
  · simp only [stripSegment]
    rw [map_strip_id _ _ (fun t ht => by have := h2 t ht; cases t; simp_all)]
  · simp only [stripSegment]
    rw [map_strip_id _ _ (fun t ht => by have := h3 t ht; cases t; simp_all)]

theorem targetMatch_transparent (ctx : Ctx) (t : Target) :
    targetMatch ctx { t with pre := preprocessStringSet t.values } =
      targetMatch ctx { t with pre := none } := by
  unfold targetMatch Target.findKey
  cases ctx.byKind t.contextKind with
  | none => rfl
  | some sc => simp only [findKey_transparent sc.key t.values]

theorem targetMatch_preprocess_plain (ctx : Ctx) (t : Target) (h : t.pre = none) :
    targetMatch ctx { t with pre := preprocessStringSet t.values } = targetMatch ctx t := by
  rw [targetMatch_transparent]; cases t; simp_all

/-- Individual-target matching is the same on a preprocessed flag (user-target key sets built) as
on the hand-built one. -/
theorem anyTargetMatch_transparent (f : Flag) (hf : ∀ t ∈ f.targets, t.pre = none) (ctx : Ctx) :
    anyTargetMatch ctx (preprocessFlag rx f) = anyTargetMatch ctx f := by
  have hfind : ∀ (v : Int),
      (f.targets.map fun t => { t with pre := preprocessStringSet t.values }).find?
          (fun t1 => t1.variation == v) =
        (f.targets.find? (fun t1 => t1.variation == v)).map
          (fun t => { t with pre := preprocessStringSet t.values }) := by
    intro v; rw [List.find?_map]; rfl
  have hsome : ∀ (l : List Target) (hl : ∀ t ∈ l, t.pre = none),
      (l.map fun t => { t with pre := preprocessStringSet t.values }).findSome? (targetMatch ctx) =
        l.findSome? (targetMatch ctx) := by
    intro l hl
    induction l with
    | nil => rfl
    | cons a l ih =>
      simp only [List.map_cons, List.findSome?_cons,
        targetMatch_preprocess_plain ctx a (hl a (by simp)), ih (fun t ht => hl t (by simp [ht]))]
  have e1 : (preprocessFlag rx f).contextTargets = f.contextTargets := rfl
  have e2 : (preprocessFlag rx f).targets =
      f.targets.map fun t => { t with pre := preprocessStringSet t.values } := rfl
  unfold anyTargetMatch
  rw [e1, e2]
  by_cases hE : f.contextTargets.isEmpty = true
  · rw [if_pos hE, if_pos hE]; exact hsome _ hf
  · rw [if_neg hE, if_neg hE]
    congr 1; funext t
    split
    · rw [hfind t.variation]
      cases h : List.find? (fun t1 => t1.variation == t.variation) f.targets with
      | none => rfl
      | some a =>
        exact targetMatch_preprocess_plain ctx a (hf a (List.mem_of_find?_eq_some h))
    · rfl

/-! ### 7. Whole rules, segments and flags (stateless specification level) -/

/-- A hand-built flag: no target key set, no clause table. -/
def PlainFlag (f : Flag) : Prop :=
  (∀ t ∈ f.targets, t.pre = none) ∧ (∀ r ∈ f.rules, ∀ c ∈ r.clauses, c.pre = {})

/-- A hand-built segment: no list table, no clause table. -/
def PlainSegment (s : Segment) : Prop :=
  PlainLists s ∧ (∀ r ∈ s.rules, ∀ c ∈ r.clauses, c.pre = {})

theorem clause_strip_plain (c : Clause) (h : c.pre = {}) : { c with pre := {} } = c := by
  cases c; simp_all

theorem spec_clauseMatch_transparent (rec : Spec.SegRec) (env : Env) (chain : List String)
    (c : Clause) :
    Spec.clauseMatch rec env chain { c with pre := preprocessClause env.rx c } =
      Spec.clauseMatch rec env chain { c with pre := {} } := by
  unfold Spec.clauseMatch
  simp only [clause_transparent env.rx c env.ctx]

theorem spec_clausesMatch_transparent (rec : Spec.SegRec) (env : Env) (chain : List String)
    (cs : List Clause) (hcs : ∀ c ∈ cs, c.pre = {}) :
    Spec.clausesMatch rec env chain (preprocessClauses env.rx cs) =
      Spec.clausesMatch rec env chain cs := by
  induction cs with
  | nil => rfl
  | cons c cs ih =>
    have hc : Spec.clauseMatch rec env chain { c with pre := preprocessClause env.rx c } =
        Spec.clauseMatch rec env chain c := by
      rw [spec_clauseMatch_transparent, clause_strip_plain c (hcs c (by simp))]
    have ih' := ih (fun c hc => hcs c (by simp [hc]))
    simp only [preprocessClauses, List.map_cons] at ih' ⊢
    simp only [Spec.clausesMatch, hc, ih']

theorem spec_segRuleMatch_transparent (rec : Spec.SegRec) (env : Env) (chain : List String)
    (key salt : String) (r : SegmentRule) (hr : ∀ c ∈ r.clauses, c.pre = {}) :
    Spec.segRuleMatch rec env chain key salt
        { r with clauses := preprocessClauses env.rx r.clauses } =
      Spec.segRuleMatch rec env chain key salt r := by
  unfold Spec.segRuleMatch
  simp only [spec_clausesMatch_transparent rec env chain r.clauses hr]

theorem spec_segRules_transparent (rec : Spec.SegRec) (env : Env) (chain : List String)
    (s s' : Segment) (hk : s'.key = s.key) (hsalt : s'.salt = s.salt) (rs : List SegmentRule)
    (hrs : ∀ r ∈ rs, ∀ c ∈ r.clauses, c.pre = {}) :
    Spec.segRules rec env chain s'
        (rs.map fun r => { r with clauses := preprocessClauses env.rx r.clauses }) =
      Spec.segRules rec env chain s rs := by
  induction rs with
  | nil => rfl
  | cons r rs ih =>
    simp only [List.map_cons, Spec.segRules, hk, hsalt,
      spec_segRuleMatch_transparent rec env chain s.key s.salt r (hrs r (by simp)),
      ih (fun r hr => hrs r (by simp [hr]))]

/-- One level of segment membership is the same for the preprocessed segment as for the
hand-built one (segments referenced from its rules are whatever the store holds). -/
theorem spec_segBody_transparent (rec : Spec.SegRec) (env : Env) (s : Segment)
    (hs : PlainSegment s) (chain : List String) :
    Spec.segBody rec env (preprocessSegment env.rx s) chain = Spec.segBody rec env s chain := by
  have hl := segLists_transparent_plain env.rx s hs.1 env.ctx
  have hr : ∀ chain', Spec.segRules rec env chain' (preprocessSegment env.rx s)
      (preprocessSegment env.rx s).rules = Spec.segRules rec env chain' s s.rules :=
    fun chain' => spec_segRules_transparent rec env chain' s (preprocessSegment env.rx s) rfl rfl s.rules hs.2
  unfold Spec.segBody
  simp only [hl, hr]
  rfl

theorem spec_rulesLoop_transparent (seg : Spec.SegRec) (env : Env) (f : Flag) (rs : List FlagRule)
    (hrs : ∀ r ∈ rs, ∀ c ∈ r.clauses, c.pre = {}) (i : Nat) :
    Spec.rulesLoop seg env (preprocessFlag env.rx f)
        (rs.map fun r => { r with clauses := preprocessClauses env.rx r.clauses }) i =
      Spec.rulesLoop seg env f rs i := by
  induction rs generalizing i with
  | nil => rfl
  | cons r rs ih =>
    simp only [List.map_cons, Spec.rulesLoop,
      spec_clausesMatch_transparent seg env [] r.clauses (hrs r (by simp)),
      ih (fun r hr => hrs r (by simp [hr]))]
    rfl

/-- One level of flag evaluation (off → prerequisites → targets → rules → fallthrough) gives the
same result for the preprocessed flag as for the hand-built one. -/
theorem spec_evalBody_transparent (rec : Spec.FlagRec) (seg : Spec.SegRec) (env : Env) (f : Flag)
    (hf : PlainFlag f) (chain : List String) :
    Spec.evalBody rec seg env (preprocessFlag env.rx f) chain = Spec.evalBody rec seg env f chain := by
  have ht := anyTargetMatch_transparent env.rx f hf.1 env.ctx
  have hr := spec_rulesLoop_transparent seg env f f.rules hf.2 0
  have hp : Spec.checkPrereqs rec env (preprocessFlag env.rx f) chain =
      Spec.checkPrereqs rec env f chain := rfl
  have ho : ∀ r, Spec.getOffValue (preprocessFlag env.rx f) r = Spec.getOffValue f r := fun _ => rfl
  have hv : ∀ v r, Spec.getVariation (preprocessFlag env.rx f) v r = Spec.getVariation f v r :=
    fun _ _ => rfl
  have hon : (preprocessFlag env.rx f).on = f.on := rfl
  have hrules : (preprocessFlag env.rx f).rules =
      f.rules.map fun r => { r with clauses := preprocessClauses env.rx r.clauses } := rfl
  unfold Spec.evalBody
  simp only [hon, hp, ho, hv, ht, hrules, hr]

/-! ### 8. Whole evaluations, every side channel included (code-shaped model)

The whole store and the flag go through preprocessing (`preEnv`, `preprocessFlag`); the result of
`evaluate` — value, index, reason, events, log lines, store lookups, big-segment queries — is the
same as with the hand-built store and flag. -/

def preprocessStore (rx : RegexOracle) (st : Store) : Store :=
  { flags := st.flags.map fun e => (e.1, preprocessFlag rx e.2),
    segments := st.segments.map fun e => (e.1, preprocessSegment rx e.2) }

/-- The same environment with every flag and segment of the store preprocessed. -/
def preEnv (env : Env) : Env := { env with store := preprocessStore env.rx env.store }

def PlainStore (st : Store) : Prop :=
  (∀ f ∈ st.flags.map (·.2), PlainFlag f) ∧ (∀ s ∈ st.segments.map (·.2), PlainSegment s)

theorem findSegment_preprocess (rx : RegexOracle) (st : Store) (k : String) :
    (preprocessStore rx st).findSegment k = (st.findSegment k).map (preprocessSegment rx) := by
  unfold Store.findSegment preprocessStore
  rw [List.find?_map, Option.map_map, Option.map_map]; rfl

theorem findFlag_preprocess (rx : RegexOracle) (st : Store) (k : String) :
    (preprocessStore rx st).findFlag k = (st.findFlag k).map (preprocessFlag rx) := by
  unfold Store.findFlag preprocessStore
  rw [List.find?_map, Option.map_map, Option.map_map]; rfl

section model
variable (env : Env) (rec rec' : SegRec)
  (hrec : ∀ seg ∈ env.store.segments.map (·.2), ∀ chain st,
    rec' (preprocessSegment env.rx seg) chain st = rec seg chain st)
include hrec

theorem segMatchValues_store (negate : Bool) (chain : List String) (vs : List J) (st : St) :
    segMatchValues rec' (preEnv env) negate chain vs st =
      segMatchValues rec env negate chain vs st := by
  induction vs generalizing st with
  | nil => rfl
  | cons v vs ih =>
    cases v with
    | str k =>
      have hf : (preEnv env).store.findSegment k =
          (env.store.findSegment k).map (preprocessSegment env.rx) :=
        findSegment_preprocess env.rx env.store k
      simp only [segMatchValues, hf]
      cases hs : env.store.findSegment k with
      | none => simp only [Option.map_none, ih]
      | some seg =>
        simp only [Option.map_some, hrec seg (Store.findSegment_mem hs), ih]
    | null => simp only [segMatchValues, ih]
    | bool b => simp only [segMatchValues, ih]
    | num q => simp only [segMatchValues, ih]
    | arr xs => simp only [segMatchValues, ih]
    | obj kvs => simp only [segMatchValues, ih]
    | raw w => simp only [segMatchValues, ih]

theorem clauseMatch_store (chain : List String) (c : Clause) (hc : c.pre = {}) (st : St) :
    clauseMatch rec' (preEnv env) chain { c with pre := preprocessClause env.rx c } st =
      clauseMatch rec env chain c st := by
  have h2 : clauseMatchNoSeg (preEnv env).rx (preEnv env).ctx
      { c with pre := preprocessClause env.rx c } = clauseMatchNoSeg env.rx env.ctx c := by
    show clauseMatchNoSeg env.rx env.ctx _ = _
    rw [clause_transparent, clause_strip_plain c hc]
  unfold clauseMatch
  simp only [h2, segMatchValues_store env rec rec' hrec]

theorem clausesMatch_store (chain : List String) (cs : List Clause) (hcs : ∀ c ∈ cs, c.pre = {})
    (st : St) :
    clausesMatch rec' (preEnv env) chain (preprocessClauses env.rx cs) st =
      clausesMatch rec env chain cs st := by
  induction cs generalizing st with
  | nil => rfl
  | cons c cs ih =>
    have ih' := fun st => ih (fun c hc => hcs c (by simp [hc])) st
    simp only [preprocessClauses, List.map_cons] at ih' ⊢
    simp only [clausesMatch, clauseMatch_store env rec rec' hrec chain c (hcs c (by simp)), ih']

theorem segRuleMatch_store (chain : List String) (key salt : String) (r : SegmentRule)
    (hr : ∀ c ∈ r.clauses, c.pre = {}) (st : St) :
    segRuleMatch rec' (preEnv env) chain key salt
        { r with clauses := preprocessClauses env.rx r.clauses } st =
      segRuleMatch rec env chain key salt r st := by
  unfold segRuleMatch
  simp only [clausesMatch_store env rec rec' hrec chain r.clauses hr]
  rfl

theorem segRules_store (chain : List String) (s s' : Segment) (hk : s'.key = s.key)
    (hsalt : s'.salt = s.salt) (rs : List SegmentRule)
    (hrs : ∀ r ∈ rs, ∀ c ∈ r.clauses, c.pre = {}) (st : St) :
    segRules rec' (preEnv env) chain s'
        (rs.map fun r => { r with clauses := preprocessClauses env.rx r.clauses }) st =
      segRules rec env chain s rs st := by
  induction rs generalizing st with
  | nil => rfl
  | cons r rs ih =>
    have ih' := fun st => ih (fun r hr => hrs r (by simp [hr])) st
    simp only [List.map_cons, segRules, hk, hsalt,
      segRuleMatch_store env rec rec' hrec chain s.key s.salt r (hrs r (by simp)), ih']

theorem segBody_store (s : Segment) (hs : PlainSegment s) (chain : List String) (st : St) :
    segBody rec' (preEnv env) (preprocessSegment env.rx s) chain st =
      segBody rec env s chain st := by
  have hl : segLists (preEnv env).ctx (preprocessSegment env.rx s) = segLists env.ctx s :=
    segLists_transparent_plain env.rx s hs.1 env.ctx
  have hr : ∀ chain' st, segRules rec' (preEnv env) chain' (preprocessSegment env.rx s)
      (preprocessSegment env.rx s).rules st = segRules rec env chain' s s.rules st :=
    fun chain' st => segRules_store env rec rec' hrec chain' s (preprocessSegment env.rx s) rfl rfl
      s.rules hs.2 st
  unfold segBody
  simp only [hl, hr]
  rfl

end model

theorem segContains_store (env : Env) (hst : PlainStore env.store) (n : Nat) :
    ∀ s, PlainSegment s → ∀ chain st,
      segContains n (preEnv env) (preprocessSegment env.rx s) chain st =
        segContains n env s chain st := by
  induction n with
  | zero => intro s _ chain st; rfl
  | succ n ih =>
    intro s hs chain st
    exact segBody_store env (segContains n env) (segContains n (preEnv env))
      (fun seg hseg chain st => ih seg (hst.2 seg hseg) chain st) s hs chain st

theorem isExperimentResult_preprocess (rx : RegexOracle) (f : Flag) (r : Reason) :
    isExperimentResult (preprocessFlag rx f) r = isExperimentResult f r := by
  have hrules : (preprocessFlag rx f).rules =
      f.rules.map fun r => { r with clauses := preprocessClauses rx r.clauses } := rfl
  have ht : (preprocessFlag rx f).trackEventsFallthrough = f.trackEventsFallthrough := rfl
  unfold isExperimentResult
  simp only [hrules, ht, List.getElem?_map]
  cases f.rules[r.ruleIndex.toNat]? <;> rfl

section flags
variable (env : Env) (seg seg' : SegRec)
  (hseg : ∀ s ∈ env.store.segments.map (·.2), ∀ chain st,
    seg' (preprocessSegment env.rx s) chain st = seg s chain st)
  (rec rec' : FlagRec)
  (hrec : ∀ pf ∈ env.store.flags.map (·.2), ∀ chain st,
    rec' (preprocessFlag env.rx pf) chain st = rec pf chain st)

include hrec in
theorem prereqLoop_store (f : Flag) (chain : List String) (ps : List Prereq) (st : St) :
    prereqLoop rec' (preEnv env) (preprocessFlag env.rx f) chain ps st =
      prereqLoop rec env f chain ps st := by
  induction ps generalizing st with
  | nil => rfl
  | cons p ps ih =>
    have hf : (preEnv env).store.findFlag p.key =
        (env.store.findFlag p.key).map (preprocessFlag env.rx) :=
      findFlag_preprocess env.rx env.store p.key
    simp only [prereqLoop, hf]
    cases hs : env.store.findFlag p.key with
    | none => rfl
    | some pf =>
      simp only [Option.map_some, hrec pf (Store.findFlag_mem hs), ih,
        isExperimentResult_preprocess]
      rfl

include hrec in
theorem checkPrereqs_store (f : Flag) (chain : List String) (st : St) :
    checkPrereqs rec' (preEnv env) (preprocessFlag env.rx f) chain st =
      checkPrereqs rec env f chain st := by
  unfold checkPrereqs
  simp only [prereqLoop_store env rec rec' hrec]
  rfl

include hseg in
theorem rulesLoop_store (f : Flag) (rs : List FlagRule)
    (hrs : ∀ r ∈ rs, ∀ c ∈ r.clauses, c.pre = {}) (i : Nat) (st : St) :
    rulesLoop seg' (preEnv env) (preprocessFlag env.rx f)
        (rs.map fun r => { r with clauses := preprocessClauses env.rx r.clauses }) i st =
      rulesLoop seg env f rs i st := by
  induction rs generalizing i st with
  | nil => rfl
  | cons r rs ih =>
    have ih' := fun i st => ih (fun r hr => hrs r (by simp [hr])) i st
    simp only [List.map_cons, rulesLoop,
      clausesMatch_store env seg seg' hseg [] r.clauses (hrs r (by simp)), ih']
    rfl

include hseg hrec in
theorem evalBody_store (f : Flag) (hf : PlainFlag f) (chain : List String) (st : St) :
    evalBody rec' seg' (preEnv env) (preprocessFlag env.rx f) chain st =
      evalBody rec seg env f chain st := by
  have ht : anyTargetMatch (preEnv env).ctx (preprocessFlag env.rx f) = anyTargetMatch env.ctx f :=
    anyTargetMatch_transparent env.rx f hf.1 env.ctx
  have hr := rulesLoop_store env seg seg' hseg f f.rules hf.2 0
  have hrules : (preprocessFlag env.rx f).rules =
      f.rules.map fun r => { r with clauses := preprocessClauses env.rx r.clauses } := rfl
  unfold evalBody
  simp only [checkPrereqs_store env rec rec' hrec, ht, hrules, hr]
  rfl

end flags

theorem evalFlag_store (env : Env) (hst : PlainStore env.store) (sf n : Nat) :
    ∀ f, PlainFlag f → ∀ chain st,
      evalFlag sf n (preEnv env) (preprocessFlag env.rx f) chain st = evalFlag sf n env f chain st := by
  induction n with
  | zero => intro f _ chain st; rfl
  | succ n ih =>
    intro f hf chain st
    exact evalBody_store env (segContains sf env) (segContains sf (preEnv env))
      (fun s hs chain st => segContains_store env hst sf s (hst.2 s hs) chain st)
      (evalFlag sf n env) (evalFlag sf n (preEnv env))
      (fun pf hpf chain st => ih pf (hst.1 pf hpf) chain st) f hf chain st

theorem fuel_preprocess (rx : RegexOracle) (st : Store) :
    flagFuel (preprocessStore rx st) = flagFuel st ∧ segFuel (preprocessStore rx st) = segFuel st := by
  unfold flagFuel segFuel preprocessStore
  simp only [List.map_map]
  exact ⟨rfl, rfl⟩

/-- **Preprocessing is transparent.**  Evaluating the preprocessed flag against the preprocessed
store gives exactly the observation — result, events, logs, lookups, big-segment queries — that
evaluating the hand-built flag against the hand-built store gives. -/
theorem evaluate_transparent (env : Env) (hst : PlainStore env.store) (f : Flag) (hf : PlainFlag f) :
    evaluate (preEnv env) (preprocessFlag env.rx f) = evaluate env f := by
  have hE : evalFlag (segFuel (preEnv env).store) (flagFuel (preEnv env).store) (preEnv env)
      (preprocessFlag env.rx f) [] {} =
      evalFlag (segFuel env.store) (flagFuel env.store) env f [] {} := by
    have h := fuel_preprocess env.rx env.store
    show evalFlag (segFuel (preprocessStore env.rx env.store))
      (flagFuel (preprocessStore env.rx env.store)) _ _ _ _ = _
    rw [h.1, h.2]
    exact evalFlag_store env hst _ _ f hf [] {}
  unfold evaluate
  simp only [hE, isExperimentResult_preprocess]
  rfl

/-- Preprocessing only the flag under evaluation is transparent whatever the store holds
(preprocessed, hand-built, or a mixture): stateless specification, any fuel. -/
theorem spec_evalFlag_transparent (sf n : Nat) (env : Env) (f : Flag) (hf : PlainFlag f)
    (chain : List String) :
    Spec.evalFlag sf n env (preprocessFlag env.rx f) chain = Spec.evalFlag sf n env f chain := by
  cases n with
  | zero => rfl
  | succ n => exact spec_evalBody_transparent _ _ env f hf chain

/-- Likewise for one segment, whatever the store holds. -/
theorem spec_segContains_transparent (n : Nat) (env : Env) (s : Segment) (hs : PlainSegment s)
    (chain : List String) :
    Spec.segContains n env (preprocessSegment env.rx s) chain = Spec.segContains n env s chain := by
  cases n with
  | zero => rfl
  | succ n => exact spec_segBody_transparent _ env s hs chain

/-! ### Non-vacuity -/

/-- A clause for which the table IS built (`in`, two primitive values of different types). -/
def exIn : Clause := { attr := { raw := "a", single := "a" }, op := "in", values := [.num 1, .str "1"] }

example : (preprocessClause rx exIn).valuesMap = some [.num 1, .str "1"] := by
  simp [preprocessClause, exIn, asPrimKey, PrimKey.isValid]

/-- `1` is found, `"1"` is found, `true`, `"2"`, `[1]` and null are not — with the table… -/
example :
    ({ exIn with pre := preprocessClause rx exIn }).findValue (.num 1) = true ∧
    ({ exIn with pre := preprocessClause rx exIn }).findValue (.str "1") = true ∧
    ({ exIn with pre := preprocessClause rx exIn }).findValue (.bool true) = false ∧
    ({ exIn with pre := preprocessClause rx exIn }).findValue (.str "2") = false ∧
    ({ exIn with pre := preprocessClause rx exIn }).findValue (.arr [.num 1]) = false ∧
    ({ exIn with pre := preprocessClause rx exIn }).findValue .null = false := by
  simp [Clause.findValue, preprocessClause, exIn, asPrimKey, PrimKey.isValid]

/-- A `matches` clause with one compiling and one non-compiling pattern: the table records
exactly which is which. -/
example : (preprocessClause (fun p _ => if p = "(" then none else some true)
      { op := "matches", values := [.str "a", .str "(", .num 3] }).values =
    some [{ valid := true, regex := some "a" }, { valid := false }, { valid := false }] := by
  simp [preprocessClause, parseRegexp]

/-- The operator-family hypothesis of `valueAsRegexp_transparent` is needed (and harmless: `doOp`
reads the regexp accessor only under `matches`): under `before` the table holds parsed times, so
the regexp accessor of the preprocessed clause has nothing while the plain one compiles `"a"`. -/
example :
    ({ ({ op := "before", values := [.str "a"] } : Clause) with
        pre := preprocessClause (fun _ _ => some true) { op := "before", values := [.str "a"] } }
      ).valueAsRegexp (fun _ _ => some true) 0 = none ∧
    ({ ({ op := "before", values := [.str "a"] } : Clause) with pre := {} }
      ).valueAsRegexp (fun _ _ => some true) 0 = some "a" := by
  constructor
  · simp [Clause.valueAsRegexp, preprocessClause]
    split <;> rfl
  · simp [Clause.valueAsRegexp, parseRegexp]

/-! #### Unparsed (raw) clause values: both paths treat them alike

`asPrimitiveValueKey`, `parseDateTime` / `ValueToTimestamp` switch on `Type()` in the preprocessing
step *and* on the fly; `parseRegexp`, `parseSemVer` ask `IsString()` in both.  So the theorems above
hold for raw clause values with no side condition; these examples show what the tables contain. -/

/-- A raw clause value is not a valid primitive key: no equality-set table is built … -/
def exInRaw : Clause :=
  { attr := { raw := "a", single := "a" }, op := "in", values := [.num 1, .raw (.str "1")] }

example : (preprocessClause rx exInRaw).valuesMap = none := by
  simp [preprocessClause, exInRaw, asPrimKey, PrimKey.isValid]

/-- … and the linear search, whose `Equal` parses, finds the plain `"1"` with and without
preprocessing, and the raw `"1"` in neither case. -/
example :
    ({ exInRaw with pre := preprocessClause rx exInRaw }).findValue (.str "1") = true ∧
    ({ exInRaw with pre := {} }).findValue (.str "1") = true ∧
    ({ exInRaw with pre := preprocessClause rx exInRaw }).findValue (.raw (.str "1")) = false ∧
    ({ exInRaw with pre := {} }).findValue (.raw (.str "1")) = false := ⟨rfl, rfl, rfl, rfl⟩

/-- A raw number is no timestamp for the table, exactly as on the fly … -/
example : (preprocessClause rx { op := "before", values := [.num 5, .raw (.num 5)] }).values =
    some [{ valid := true, time := 5000000 }, { valid := false }] := by
  simp [preprocessClause, Time.valueToTimestamp]
  decide
example : ({ op := "before", values := [.num 5, .raw (.num 5)] } : Clause).valueAsTimestamp 1 = none := rfl

/-- … while a raw pattern is compiled for the table, exactly as on the fly. -/
example : (preprocessClause (fun _ _ => some true) { op := "matches", values := [.raw (.str "a")] }).values =
    some [{ valid := true, regex := some "a" }] := by
  simp [preprocessClause, parseRegexp]
example : ({ op := "matches", values := [.raw (.str "a")] } : Clause).valueAsRegexp
    (fun _ _ => some true) 0 = some "a" := rfl

def exFlag : Flag :=
  { key := "f", on := true, targets := [{ values := ["k"], variation := 1 }],
    rules := [{ clauses := [exIn] }] }

example : PlainFlag exFlag := by
  constructor
  · intro t ht; simp [exFlag] at ht; subst ht; rfl
  · intro r hr c hc; simp [exFlag] at hr; subst hr; simp at hc; subst hc; rfl

example : PlainStore {} := ⟨by simp, by simp⟩

#print axioms findKey_transparent
#print axioms findValue_transparent
#print axioms valueAsRegexp_transparent
#print axioms valueAsSemVer_transparent
#print axioms valueAsTimestamp_transparent
#print axioms doOp_transparent
#print axioms matchAny_transparent
#print axioms clause_transparent
#print axioms segLists_transparent
#print axioms segLists_transparent_plain
#print axioms targetMatch_transparent
#print axioms anyTargetMatch_transparent
#print axioms spec_segBody_transparent
#print axioms spec_evalBody_transparent
#print axioms spec_evalFlag_transparent
#print axioms spec_segContains_transparent
#print axioms segContains_store
#print axioms evalFlag_store
#print axioms evaluate_transparent

end LD.C14
